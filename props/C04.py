"""C04 - Syntax errors are contained: only the malformed construct is dropped."""
ID = 'C04'
LEVEL = 'exploration'
LEVEL_TEXT = ('bounded: project(parseString(damage(s, pos, g))) == project(parseString(s)) apart from the damaged construct, for (i) hand-made host sheets x every declaration boundary '
              '(style rule at top level / in @media / in nested @media, @page, margin box, @font-face) x ALL balanced token sequences of <= 4 tokens over 32 token kinds that are not '
              'IDENT : any+ (quick: <= 3 tokens, 4 tokens over a reduced alphabet; the longer ones on rotating placements), (ii) the same hosts x every statement boundary x all preludes of <= 4 tokens that are '
              "not a selector group + a block, and '@foo' + <= 3 tokens + ; or a block, (iii) hand-picked garbage with glued tokens and the misplaced at-rules, (iv) every sheet of the "
              'abstract-sheet generator x every boundary x representative garbage; and every rule and declaration complete before the cut is present, unchanged, in the DOM of EVERY character prefix of every generator sheet')
LEVEL_NOTE = ('the oracle is the DOM of the undamaged text (damage) and the abstract tree the text was assembled from (truncation), compared through the public-accessor projection of bounded/gen.py; '
              '"not a valid construct" is decided by the CSS 2.1 core grammar of a declaration and the Selectors 3 grammar over token kinds, never by cssutils; an unknown or misplaced at-rule may stay in the DOM as ONE '
              'CSSUnknownRule at its place; garbage tokens are separated by one space (glued forms only in the hand-picked set); one damaged construct per sheet; blind to garbage longer than the bound and to host '
              'shapes outside the generator grammar')
TECHNIQUE = ('VC generation + z3 on the real Base._tokensupto2 (loop invariant over ghost nesting levels: the skip consumes exactly up to the first end token at nesting level zero, for every stream, mode and start token; 26 targets); '
             'the statement as a whole is decided by bounded run-time contracts on the real parser over exhaustively enumerated (sheet, boundary, balanced garbage) triples and all prefixes (bounds in the evidence)')
DESIGN_REF = 'DESIGN.md section 3, C04; Appendix C "Token-snippet alphabet", "Abstract sheets"; section 4 defect table (C04 row)'


def bounded(ctx):
    from bounded import c04
    c04.hosts_parse(ctx)
    c04.damaged_declarations(ctx)
    c04.damaged_rules(ctx)
    c04.extras(ctx)
    c04.damaged_sheets(ctx)
    c04.truncation(ctx)
    c04.witnesses(ctx)


# T1 (PyVC): Base._tokensupto2 - for every token stream, every mode flag, with and without a start token, the call consumes exactly up to and
# including the first token at which all nesting levels are zero and the token is an end token of the mode (or EOF / end of the stream); the
# result is the start token plus exactly the consumed tokens.  26 targets, ~56 000 obligations, under a minute.
T1 = [('contracts.util_tokensupto2', None), ('contracts.cssstyledeclaration_parse', None), ('contracts.cssstylesheet_parse', None)]
# (cssstyledeclaration_parse: the callbacks `unexpected` and `ident` of CSSStyleDeclaration._setCssText, verified AGAINST the contract of _tokensupto2 -
#  a malformed declaration is consumed exactly up to its own end, nothing is stored, the parse state is handed back)
# (cssstylesheet_parse: the nine statement callbacks of CSSStyleSheet._setCssText - every one consumes exactly the statement that starts with its token, also when
#  the rule parser raises, and inserts at most one rule and only a well-formed one)
