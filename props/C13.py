"""C13 - Validation verdict depends only on name, value, profiles; it only annotates."""
ID = 'C13'
LEVEL = 'exploration'
LEVEL_TEXT = ('exploration: the verdicts of the real cssutils.profile.validate / validateWithProfile and of Property.valid / style.valid / rule.valid / sheet.valid are '
              'compared with a grammar table written by hand from the CSS 2.1 property index for the 82 properties whose grammar is a keyword list or a single '
              'length / percentage / number / integer / colour / URI, over enumerated value pools (own grammar, every other property\'s keywords, typed literals, near '
              'misses, non-ASCII look-alikes); spelling, origin, round-trip and validate-on/off invariance are checked on the same pools')
LEVEL_NOTE = ('nothing is proved for all strings: the pools are finite (380 to 1400 values per property at registry level, complete, including numbers at the edges of six-decimal number rewriting; at Property level own-grammar values and '
              'near misses complete, foreign values sampled in the quick tier); CSS escapes in keywords and names are left to C02; the oracle returns "not decided" for '
              'range restrictions (negative values), values added by a registered CSS3 module and display: run-in')
TECHNIQUE = ('bounded run-time contracts on the real code over enumerated (name, value) pools against an independent hand-written CSS 2.1 grammar table; metamorphic '
             'respelling (case, white space, comments, !important), eight ways of creating the property, serialise-reparse; all declaration blocks up to a length bound over declarations that repeat a name (later / !important / other letter case wins), parsed and built through the DOM')
LEVEL_TEXT = LEVEL_TEXT + ' The grammar clause is additionally proved as regular-language equality between the real compiled patterns of the CSS 2.1 profile and the hand-written table for 32 keyword-list and 38 typed properties (T1-regex, all strings, outside the recorded deviation classes).'
DESIGN_REF = 'DESIGN.md section 3, C13'


def bounded(ctx):
    from bounded import c13
    # registry, properties, unknown_names, conjunction, fontface — run side by side in worker processes
    c13.run_all(ctx)


# T1-regex: for every CSS 2.1 property of the hand-written grammar table, the real macro-expanded compiled pattern is compared with
# the table as a regular language over ALL strings (outside the recorded deviation classes), and is anchored / case-insensitive.
def lemmas(ctx):
    from contracts import profiles_lemmas as PL
    PL.lemmas(ctx)
    PL.typed_lemmas(ctx)
