"""C15 - Namespace declarations and namespaced selectors stay consistent."""
ID = 'C15'
LEVEL = 'exploration'
LEVEL_TEXT = ('exploration: mapping == effective @namespace rules (last declaration of a URI wins - also as postcondition of an accepted declaration -, one prefix per URI), every used URI declared, removal of a used namespace rejected, '
              'every selector keeps the (namespace URI, local name) pairs it was written with (in memory and after serialise + reparse), @namespace rules stay well-formed, undeclared '
              'prefixes rejected, a detached rule (also inside a detached @media rule) carries a declaration for every URI it uses and its own serialisation re-resolves to the same pairs '
              '- evaluated as a run-time contract on the real objects after every operation of every sequence of namespace operations up to length 3 (quick) / 4 '
              '(thorough), on two sheets with rules attached, detached and moved between them')
LEVEL_NOTE = ('bounded, not a proof: three prefixes x two URIs, ten selector shapes (prefix|, *|, |, default, universal, attribute, descendant), five seed states, plus seed sheets whose selectors were written through each of six DOM routes (rule.selectorText, selectorList.selectorText, '
              'Selector.selectorText, appendSelector, item assignment selectorList[i] = text, rule.cssText) with the text alone or as the documented pair (text, {prefix: URI}) carrying a dictionary that '
              'contradicts the sheet (sequences <= 2 quick / <= 3 thorough), plus a pool in which every such write (7 routes x 2 argument forms x 4 selectors) is itself an operation next to the mapping edits '
              '(sequences <= 2 quick / <= 3 thorough; a Selector object as argument is outside the bound), plus 144 seed sheets whose TEXT carries the namespace history - five declaration patterns (a prefix / the default namespace declared twice, around another declaration, twice with one URI, once) x every subset of the comment positions inside the first @namespace rule x later rules bare / commented x URI as string / url() - (sequences <= 1 quick / <= 2 thorough; the 20 with a comment at every position <= 2 / <= 3); sequences are merged '
              'when they reach the same observable state; expected pairs come from the construction of the selector text and the effective @namespace rules at the moment of writing; '
              'random walks (thorough only) are samples. Twelve recorded findings are excluded by sharp classes (known/C15.json)')
TECHNIQUE = ('bounded run-time contracts over exhaustively enumerated histories of namespace operations on the real CSSStyleSheet.namespaces / CSSNamespaceRule / Selector objects '
             '(breadth-first over distinct observable states, replay on fresh objects), seeded random walks of length 200 in the thorough tier')
DESIGN_REF = 'DESIGN.md section 3, C15; Appendix C operation pools'


def bounded(ctx):
    from bounded import c15
    c15.sequences(ctx)
    c15.random_walks(ctx)
    c15.known_witnesses(ctx)


# T1 (PyVC): the targets tagged C15 in their sidecars - CSSStyleSheet.insertRule / deleteRule (an @namespace rule whose URI is still used by a selector is not
# deleted; the ordering invariant covers @namespace rules) and the selector state machine's New.append (a prefix is resolved through the namespaces in force).
T1 = [('contracts.cssstylesheet', None), ('contracts.selector', None)]
