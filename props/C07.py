"""C07 - CSS codec: round trip, CSS 2.1 encoding detection, chunking invariance."""
ID = 'C07'
LEVEL = 'proof'
T1 = [('contracts.codec', None)]


def lemmas(ctx):
    import cssutils.codec as C
    # recorded finding: still reproduces?
    try:
        still = C.detectencoding_unicode('@charset "x', True)[0] is None
    except Exception:
        still = False
    ctx.known_finding('C07-unicode-final-unterminated', still)


def bounded(ctx):
    from bounded import c07
    c07.prefixes(ctx)
    c07.roundtrip_and_chunking(ctx)

LEVEL_TEXT = ('proof: every path of detectencoding_str, detectencoding_unicode, _fixencoding, decode, encode (read from /repo each run) satisfies its contract '
              '(= independent CSS 2.1 4.4 spec, prefix stability, header rewrite) for all byte/text inputs, discharged by z3/cvc5; chunking invariance of the '
              'incremental/stream classes is covered by the bounded stand-in (all partitions of short inputs) and is not counted as proved')
LEVEL_NOTE = ('trusted: PyVC encoding of Python, z3/cvc5, stdlib codecs as uninterpreted U_dec/U_enc (may raise LookupError/UnicodeError), str.lower/replace as '
              'uninterpreted functions; recorded known finding C07-unicode-final-unterminated is excluded as a sharp class')
TECHNIQUE = 'function contracts discharged by symbolic execution of the real AST + z3/cvc5; bounded run-time contracts for the incremental/stream classes'
DESIGN_REF = 'DESIGN.md section 3, C07'
