"""C06 - Serializer preferences do exactly what they document, in every combination."""
ID = 'C06'
LEVEL = 'exploration'
LEVEL_TEXT = ('bounded: every one of the 25 documented preferences alone (each non-default value), the minified preset (also with each one of its 12 preferences put back), a pairwise covering array over the full value domains and seeded random '
              'full assignments (thorough: also all pairs of non-default values) x the DOMs of the abstract-sheet generator in 3 spellings + 46 hand-written sheets + token-adjacency sheets (all ordered pairs of 31 token classes in an unknown at-rule, compound x combinator x compound, media lists on every holder) + a number grid (sign x integer part x fraction x unit around -1, 0, 1 as list component, function argument, calc() operand) (@variables, unknown '
              'at-rules with bare - # @, calc(), !important, :not(), namespaces, duplicates, invalid and empty declarations): serialising raises nothing, the output is well-formed by an '
              'independent token-level reading, its reparse projects to the DOM with exactly the documented effects applied, the spelling preferences show as documented, layout preferences '
              'leave the S-free token sequence unchanged, lineNumbers only prefixes lines, useDefaults() restores the default bytes; frame: documented names == attributes, useMinified within it')
LEVEL_NOTE = ('the expected effect of every preference is a function on the public-accessor projection written from the Preferences docstring (bounded/c06.py, quoted there); Property.valid and '
              'CSSImportRule.hreftype are taken from the DOM as the definition of "valid"/"hreftype"; DOMs whose default round trip is not clean belong to C02/C03 and are left out; '
              'blind to preference values outside the tried ones (3 indents, 2-3 spacer strings) and to sheets beyond the generator bound; eight recorded deviations (known/C06.json)')
TECHNIQUE = ('complete syntactic frame lemmas on the real serializer source (every preference read is assigned by useDefaults; the serializer keeps no other state); the statement as a whole is '
             'decided by bounded run-time contracts on the real serializer over preference assignments x generated DOMs (reference effects on the abstract projection, independent token-level reader)')
DESIGN_REF = 'DESIGN.md section 3, C06 (T2 clause); Appendix C "Abstract sheets"'


def bounded(ctx):
    from bounded import c06
    c06.frame(ctx)
    c06.matrix(ctx)
    c06.witnesses(ctx)


# T1-finite: the preference frame of the serializer, derived from the AST of the real source on every run (contracts/serialize_frame.py)
def lemmas(ctx):
    from contracts import serialize_frame as SF
    SF.lemmas(ctx)
