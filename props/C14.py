"""C14 - The profile registry's verdicts depend on its contents, not its history."""
ID = 'C14'
LEVEL = 'exploration'
LEVEL_TEXT = ('exploration: every sequence of registry operations up to a length bound on a fresh Profiles() instance is run on the real code - quick: length <= 3 over 26 '
              'operations on four toy profiles (addProfiles with every ordered pair of them), over 18 operations on a macro shadower plus two case-twin profiles and over 18 '
              'operations on two second-level macro shadowers plus one toy; thorough: '
              'length <= 3 over 52 operations on six toys (every ordered pair and three triples as addProfiles lists), length <= 4 over 18 operations on four toys, length <= 3 over '
              '26 operations on the second-level shadowers plus two toys, 64 random '
              'walks of 200 operations; after each operation the verdict vector of a 49-pair battery (validate and validateWithProfile), knownNames, profiles and '
              'propertiesByProfile() are compared with a hand-written model of the toy profiles, with a registry that got the same profiles registered directly, and with the '
              'observation made earlier on the same path in the same state; in addition every sequence of <= 3 additions / removals (quick: 4 toys, thorough: 6) is run on the '
              'process-wide cssutils.profile in a forked process per history, once per subset of its intermediate points (quick: subsets of at most one point) at which the '
              'consumers of the registry are asked: Property(name, value).valid and the declarations of a parsed sheet must agree with the hand model at every asked point')
LEVEL_NOTE = ('bounded: eight toy profiles (new properties; redefinition of color and of another toy\'s property; a macro shadowing the general macro length; a macro shadowing '
              'another profile\'s macro; two twins whose patterns differ only in the letter case of an escape class, d/D and w/W directly, s/S through a shared macro name; two '
              'shadowing a macro that the built-in property patterns reach only through other macros: namedcolor via {color}, the token macro int via {integer}), '
              'histories of <= 3/4 operations, addProfiles lists of 2 (thorough: up to 3) profiles, a fixed battery; re-adding a registered name and defaults naming an '
              'unregistered profile are treated as precondition violations and not taken; the representation invariant itself is not proved')
TECHNIQUE = 'bounded run-time contracts: exhaustive enumeration of operation histories with a state-function oracle (hand model + directly built reference registry + path revisits)'
DESIGN_REF = 'DESIGN.md section 3, C14'


def bounded(ctx):
    from bounded import c14
    c14.histories(ctx)
    c14.global_registry(ctx)
