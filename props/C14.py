"""C14 - The profile registry's verdicts depend on its contents, not its history."""
ID = 'C14'
LEVEL = 'exploration'
LEVEL_TEXT = ('exploration: every sequence of registry operations up to a length bound on a fresh Profiles() instance is run on the real code - quick: length <= 3 over 26 '
              'operations on four toy profiles (addProfiles with every ordered pair of them) and over 18 operations on a macro shadower plus two case-twin profiles; thorough: '
              'length <= 3 over 52 operations on all six toys (every ordered pair and three triples as addProfiles lists), length <= 4 over 18 operations on four toys, 64 random '
              'walks of 200 operations; after each operation the verdict vector of a 38-pair battery (validate and validateWithProfile), knownNames, profiles and '
              'propertiesByProfile() are compared with a hand-written model of the toy profiles, with a registry that got the same profiles registered directly, and with the '
              'observation made earlier on the same path in the same state')
LEVEL_NOTE = ('bounded: six toy profiles (new properties; redefinition of color and of another toy\'s property; a macro shadowing the general macro length; a macro shadowing '
              'another profile\'s macro; two twins whose patterns differ only in the letter case of an escape class, d/D and w/W directly, s/S through a shared macro name), '
              'histories of <= 3/4 operations, addProfiles lists of 2 (thorough: up to 3) profiles, a fixed battery; re-adding a registered name and defaults naming an '
              'unregistered profile are treated as precondition violations and not taken; the representation invariant itself is not proved')
TECHNIQUE = 'bounded run-time contracts: exhaustive enumeration of operation histories with a state-function oracle (hand model + directly built reference registry + path revisits)'
DESIGN_REF = 'DESIGN.md section 3, C14'


def bounded(ctx):
    from bounded import c14
    c14.histories(ctx)
