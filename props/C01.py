"""C01 - Parsing any input returns a DOM: it never raises and never hangs."""
ID = 'C01'
LEVEL = 'exploration'
LEVEL_TEXT = ('exploration (bounded): the run-time contract "returns the DOM class, raises nothing, cssText serialises, that text parses and serialises again, all within a time bound" '
              'is evaluated on the real parseString / parseStyle / CSSParser.parseString for every input of nine enumerated domains; no statement is made about inputs outside them')
LEVEL_NOTE = ('bound: all concatenations of <= 3 (quick) / <= 4 (thorough) snippets of a 56-snippet token alphabet as sheet and as style attribute (the other three parseComments x validate '
              'settings one snippet shorter); truncations of sheets/*.css at token starts in windows of <= 2000 characters (quick: a stride); ( [ { and function nesting to depth 100 '
              'and width sweeps to 1600 with a doubling time check, runs of up to 8192 characters or escapes inside single tokens (strings, url(, comments - closed and cut off -, identifiers, numbers unsigned and with either sign) '
              'with a per-input CPU budget; constructed byte inputs (BOM / @charset / override, 12 encodings); a fixed list of fetchers and @import graphs; 83 sub-parser positions x short '
              'token sequences of a 167-snippet extended alphabet (escaped structural characters, margin-box at-keywords, ...); colour functions x short argument lists; 35 at-keywords x 14 '
              'continuations x 19 block positions; @charset naming every codec of the running Python. '
              'Failures are identified by crash site (exception type + innermost frame of the checked tree), recorded findings are matched by site only')
TECHNIQUE = ('bounded run-time contracts over exhaustively enumerated small domains on the real code (multiprocessing pool, per-input alarm); oracle = the property statement; '
             'not a proof: the tokenizer/_tokensupto2/_parse/log kernels named in DESIGN section 3 are not discharged here')
DESIGN_REF = 'DESIGN.md section 3, C01; Appendix C (token-snippet alphabet)'


def bounded(ctx):
    from bounded import c01
    c01.alphabet(ctx)
    c01.truncations(ctx)
    c01.sweeps(ctx)
    c01.byte_inputs(ctx)
    c01.fetchers(ctx)
    c01.contexts(ctx)
    c01.colour_functions(ctx)
    c01.at_keyword_positions(ctx)
    c01.charsets(ctx)
    c01.witnesses(ctx)


# T1 (PyVC): the switch that turns errors into log lines - _ErrorHandler.__handle never raises unless raising mode is on (for every
# token shape and error class passed by the library) - and the parse entry points' handling of that mode on every exit.
T1 = [('contracts.errorhandler', None), ('contracts.parse', None)]
