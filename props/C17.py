"""C17 - Media lists are canonical ordered sets; media queries survive intact."""
ID = 'C17'
LEVEL = 'exploration'
LEVEL_TEXT = ('exploration: on the real MediaList / MediaQuery, every list over the ten known media types up to length 3 (quick) / 4 (thorough), generated media queries '
              '(not/only, and-joined features with min-/max- prefixes and length/number/ident/colour values) alone and in lists, feature values of every kind (number, percentage, dimension, identifier, colour keyword / function / hash, string) in lower, upper and mixed letter case alone, inside a list and owned by @media / @import rules, every token string up to 5 / 6 tokens plus the '
              'one-token mutation neighbourhood of well-formed strings against a reference recogniser, and every edit history up to length 3 / 4 (appendMedium, deleteMedium, item '
              'assignment, mediaText assignment of the list and of a single member query) on stand-alone, @media-owned and @import-owned lists against a reference model, and '
              'every token string up to 3 / 4 tokens plus the neighbourhood of well-formed texts assigned to each query of a three-entry list whose query objects were created in eleven '
              'ways (list / rule parsers, appendMedium, item assignment, stand-alone) in raising and logging mode satisfy the statement')
LEVEL_NOTE = ('bounded: longer lists / histories, other features and value kinds (ratios, calc()), other white space and comment placements than those enumerated are not covered; '
              'the serialised text is read back by an independent scanner, not by cssutils; the production parser\'s module-level list of handed-back tokens is emptied before '
              'every evaluation but never inside one: the steps of a history, the reparse and the follow-up edits run on whatever the preceding step left there (leakage between '
              'unrelated parses is the subject of C12)')
TECHNIQUE = ('bounded run-time contracts over exhaustively enumerated lists, queries, token strings and edit histories: independent renderer/reader, reference recogniser of the '
             'query grammar, reference model of the ordered set run in lock-step')
DESIGN_REF = 'DESIGN.md section 3, C17'


def bounded(ctx):
    from bounded import c17
    c17.type_lists(ctx)
    c17.case_and_comment_lists(ctx)
    c17.queries(ctx)
    c17.query_lists(ctx)
    c17.token_strings(ctx)
    c17.histories(ctx)
    c17.member_edits(ctx)
    c17.value_kinds(ctx)


# T1 (PyVC): deleteMedium and appendMedium on the ordered-set view of the list (any length, raising and logging mode): delete removes
# exactly the first entry of the type or is rejected unchanged; append moves an existing type to the end, refuses to extend 'all',
# turns the list into [all] for 'all', appends otherwise; every rejected call leaves the list unchanged.
T1 = [('contracts.medialist', None)]
