"""C05 - Tokenizer: total, lossless, position-accurate, classifies by the grammar (bounded part)."""
ID = 'C05'
LEVEL = 'exploration'
LEVEL_TEXT = ('bounded: list(Tokenizer().tokenize(text, fullsheet)) for ALL strings up to length 3 (quick) / 4 (thorough) over a 39-character critical alphabet, long repetitive texts '
              '(every 1-2 character pattern x 100-600 repetitions behind every token opener), and all sequences of <= 2 (representatives: <= 3) token spellings of every token kind joined by '
              'separators, and all sequences of <= 2 (core units: <= 3; thorough: 4 over the quick core) escape units - hex escapes of the syntax characters in every spelling, simple escapes, escaped line '
              'breaks, plain characters - as the body of every kind of token that decodes escapes: terminates, the spans tile the text, value == span decoded by an independent CSS 2.1 decoder, line/col == position of the first character, span in the '
              'language of the type (own recognisers) and maximal, known sequences recovered with types/values/offsets, completion + exactly one EOF at the end of input in full-sheet '
              'mode; positions in the error reports of a raising parser')
LEVEL_NOTE = ('deciding step is the bounded enumeration; discharged besides it: the regex-language lemmas on the real token table (T1-regex, z3 + automata back end) and the error handler contract; the loop contract of Tokenizer.tokenize (contracts/tokenize2.py: termination, tiling, line/col, EOF; modular cut, ~330 paths) is discharged in the thorough tier only (about 5 minutes). Bounded part: blind to strings longer than the bound that are not '
              'repetitive or built from the spelling inventory, and to code points outside the alphabet; time is only observed as "finishes within 30 s per text"; eleven recorded '
              'deviations (known/C05.json) are excluded by symptom, the two exponential-time classes by cutting the input to 12 backslashes / 10 escapes')
TECHNIQUE = 'regular-language lemmas on the real token table decided by z3 regex + an own automata back end; errorhandler contract by VC generation; bounded run-time contracts on the real tokenizer over exhaustively enumerated short strings and constructed token sequences (reference decoder and recognisers written from CSS 2.1)'
DESIGN_REF = 'DESIGN.md section 3, C05 (T2 clause); Appendix C "Token-snippet alphabet"'


def bounded(ctx):
    from bounded import c05
    c05.all_strings(ctx)
    c05.token_sequences(ctx)
    c05.escape_compositions(ctx)
    c05.long_texts(ctx)
    c05.error_positions(ctx)
    c05.witnesses(ctx)


# T1-regex: closed regular-language lemmas on the real, macro-expanded token table (no production matches the empty string, CHAR/INVALID
# give progress, every production equals its CSS 2.1 G.2 definition, first-match order facts, look-aheads are language neutral)
def lemmas(ctx):
    from contracts import tokenizer_lemmas as TL
    TL.lemmas(ctx)


# T1 (PyVC): errorhandler - the message suffix [line:col: value] comes from the token complained about (last clause of the statement)
T1 = [('contracts.errorhandler', None)]

# thorough tier only (about 5 minutes on 16 cores): the loop contract of Tokenizer.tokenize (contracts/tokenize2.py) - one cut at the head of
# the scanning loop, explored modularly (entry phase: the code before the loop establishes the invariant; body phase: one arbitrary
# iteration from the invariant alone, about 320 paths): termination (variant len(text) - pos), line/col of every yielded token == line/col
# of its first character, at most one token per step whose raw text is exactly the consumed piece (tiling), EOF at the end of input
T1_THOROUGH = [('contracts.tokenize2', None)]
