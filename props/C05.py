"""C05 - Tokenizer: total, lossless, position-accurate, classifies by the grammar (bounded part)."""
ID = 'C05'
LEVEL = 'exploration'
LEVEL_TEXT = ('bounded: list(Tokenizer().tokenize(text, fullsheet)) for ALL strings up to length 3 (quick) / 4 (thorough) over a 39-character critical alphabet, long repetitive texts '
              '(every 1-2 character pattern x 100-600 repetitions behind every token opener), and all sequences of <= 2 (representatives: <= 3) token spellings of every token kind joined by '
              'separators: terminates, the spans tile the text, value == span decoded by an independent CSS 2.1 decoder, line/col == position of the first character, span in the '
              'language of the type (own recognisers) and maximal, known sequences recovered with types/values/offsets, completion + exactly one EOF at the end of input in full-sheet '
              'mode; positions in the error reports of a raising parser')
LEVEL_NOTE = ('no proof obligations here (the T1 side - loop contract and regex-language lemmas of DESIGN section 3 - is separate); blind to strings longer than the bound that are not '
              'repetitive or built from the spelling inventory, and to code points outside the alphabet; time is only observed as "finishes within 30 s per text"; eleven recorded '
              'deviations (known/C05.json) are excluded by symptom, the two exponential-time classes by cutting the input to 12 backslashes / 10 escapes')
TECHNIQUE = 'bounded run-time contracts on the real tokenizer over exhaustively enumerated short strings and constructed token sequences (reference decoder and recognisers written from CSS 2.1)'
DESIGN_REF = 'DESIGN.md section 3, C05 (T2 clause); Appendix C "Token-snippet alphabet"'


def bounded(ctx):
    from bounded import c05
    c05.all_strings(ctx)
    c05.token_sequences(ctx)
    c05.long_texts(ctx)
    c05.error_positions(ctx)
    c05.witnesses(ctx)
