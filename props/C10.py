"""C10 - Declaration blocks obey the ordered-multimap-with-cascade model."""
ID = 'C10'
LEVEL = 'exploration'
LEVEL_TEXT = ('exploration: the real CSSStyleDeclaration and CSSVariablesDeclaration agree with an independent reference model (ordered list of (literal name, value, priority) '
              'entries; ordered name->value map) after every operation sequence up to length 3 (quick) / 4 (thorough) from a fixed operation pool; the DOM-name mapping is '
              'checked on every known property name (finite, complete)')
LEVEL_NOTE = ('bounded: histories longer than the bound, names/values outside the pool (three spellings of one name plus two other names, 13 value kinds) and other serializer '
              'preferences than the defaults (+ keepAllProperties off) are not covered; the model normalises names through a table fixed by construction, not through cssutils')
TECHNIQUE = ('VC generation + z3 on the real getProperty / getProperties(all=True) / removeProperty / __nnames (loop invariants, entry lists of any length) and, modularly against '
             'those contracts, getPropertyValue / getPropertyPriority / keys / item / __contains__; the statement as a whole is decided by '
             'bounded run-time contracts over exhaustively enumerated operation histories: reference model run in lock-step with the real classes, every observation of the '
             'statement compared after the last step of every sequence (each prefix is an enumerated sequence itself); finite complete enumeration for the DOM names')
DESIGN_REF = 'DESIGN.md section 3, C10'


def bounded(ctx):
    from bounded import c10
    c10.style_histories(ctx)
    c10.dom_names(ctx)
    c10.variables_histories(ctx)


# T1 (PyVC), added later: getPropertyValue / getPropertyPriority (value / priority of an object that getProperty's contract calls effective, else the
# default), removeProperty returns the effective value (callee contract now the proved one, no longer assumed), __nnames (de-duplicating reversed
# scan: pairwise different, exactly the normalised names of the Property entries), keys / item / __contains__ against __nnames' contract.
# T1 (PyVC): CSSStyleDeclaration.getProperty (reversed scan with a loop invariant: the effective property = last !important match, else last
# match, else None) and getProperties(name, all=True) (filter loop: the result is exactly the matching entries in document order, stated
# through the ghost count of kept entries) against the ordered-multimap model, for entry lists of any length.
T1 = [('contracts.cssstyledeclaration', None)]
