"""C09 - A stylesheet stays structurally valid under any sequence of DOM edits."""
ID = 'C09'
LEVEL = 'exploration'
LEVEL_TEXT = ('exploration: the invariant of the statement (one leading @charset, @import < @namespace < style/@media/@page/@font-face, allowed nested kinds, parent links of every '
              'reachable rule / declaration block / property, detached objects name none, serialise + reparse loses no rule to an ordering error) is evaluated as a run-time contract on the '
              'real objects after every operation of every operation sequence up to length 3 (quick) / 4 (thorough) over the stated pools, accepted and rejected edits alike')
LEVEL_NOTE = ('bounded, not a proof: sequences are merged when they reach the same observable state (serialisation, kind tree, namespace mapping); the longest sequences use the smaller '
              'pools (list / core), the full pool (text forms, every index, nested lists, rule text) goes to length 2 (3 from the empty sheet in the thorough tier); the list-valued argument forms of insertRule / cssRules.extend / cssRules.append '
              '(CSSRuleList, plain list, live list of another sheet; lists of <= 3 rules) are run as single operations from ten seed states and to length 2 for the nested lists; rule objects have one '
              'fixed text per kind; random walks (thorough only) are samples. Five recorded findings are excluded by sharp classes, two more were fixed in /repo while the check was built (known/C09.json)')
TECHNIQUE = ('bounded run-time contracts over exhaustively enumerated edit histories on the real CSSStyleSheet/CSSMediaRule/CSSPageRule (breadth-first over distinct observable states, '
             'replay on fresh objects), seeded random walks of length 200 in the thorough tier; @import fetches answered by a fetcher returning None')
DESIGN_REF = 'DESIGN.md section 3, C09; Appendix C operation pools'


def bounded(ctx):
    from bounded import c09
    c09.sequences(ctx)
    c09.random_walks(ctx)
    c09.known_witnesses(ctx)


# T1 (PyVC): the structural invariant (rule order, @charset first, parent links) is an inductive invariant of every edit under proof:
# CSSStyleSheet.insertRule / deleteRule (rule objects; any sheet length; raising and logging mode; rejected edits change nothing)
# and the nested rule lists of @media / @page (insertRule, _prepareInsertRule, _finishInsertRule, deleteRule).
T1 = [('contracts.cssstylesheet', None), ('contracts.cssrule', None)]
