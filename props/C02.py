"""C02 - The parsed DOM is exactly what a well-formed source denotes."""
ID = 'C02'
LEVEL = 'exploration'
LEVEL_TEXT = ('bounded: project(parseString(render(a, s))) == a for every abstract sheet a of the generator (<= 2 rules x <= 2 selectors x <= 2 declarations over the '
              'construct inventory, pairwise over construct kinds) and every spelling s of the tier (white space, comments between tokens, letter case of the '
              'case-insensitive parts (incl. the media query keywords only / not / and, also in queries without a media type), quote style, url() quoting, CSS escapes of ordinary name characters, last semicolon, number padding), plus the two option clauses '
              '(parseComments=False removes exactly the comments, validate=False changes nothing) and spelling-invariance of specificity')
LEVEL_NOTE = ('the oracle is the abstract tree the source was rendered from (bounded/gen.py), never the parser; blind to constructs outside the generator grammar '
              '(no @variables, no attribute/pseudo combinations beyond pairs, calc() without parentheses, media feature values of one component) and to sheets larger '
              'than the bound; projection uses public accessors only (cssRules, selectorList + Selector.seq, style.children(), Property.name/priority/propertyValue, '
              'Value.type/value/dimension/uri/colour channels + seq of functions, media items, href, prefix/namespaceURI, selectorText of @page, margin)')
TECHNIQUE = ('VC generation + z3 on the real Base._tokensupto2 (the bracket-matching carve of rules and blocks: balance and minimality for every stream); the statement as a whole is decided by '
             'bounded run-time contracts on the real parser over exhaustively enumerated abstract sheets x spellings (bound in the evidence)')
DESIGN_REF = 'DESIGN.md section 3, C02; Appendix C "Abstract sheets"'


def bounded(ctx):
    from bounded import c02
    c02.roundtrip(ctx)
    c02.witnesses(ctx)


# T1 (PyVC): Base._tokensupto2 - for every token stream, every mode flag, with and without a start token, the call consumes exactly up to and
# including the first token at which all nesting levels are zero and the token is an end token of the mode (or EOF / end of the stream); the
# result is the start token plus exactly the consumed tokens.  26 targets, ~56 000 obligations, under a minute.
T1 = [('contracts.util_tokensupto2', None)]
