"""C02 - The parsed DOM is exactly what a well-formed source denotes."""
ID = 'C02'
LEVEL = 'exploration'
LEVEL_TEXT = ('bounded: project(parseString(render(a, s))) == a for every abstract sheet a of the generator (<= 2 rules x <= 2 selectors x <= 2 declarations over the '
              'construct inventory, pairwise over construct kinds) and every spelling s of the tier (white space, comments between tokens, letter case of the '
              'case-insensitive parts, quote style, url() quoting, CSS escapes of ordinary name characters, last semicolon, number padding), plus the two option clauses '
              '(parseComments=False removes exactly the comments, validate=False changes nothing) and spelling-invariance of specificity')
LEVEL_NOTE = ('the oracle is the abstract tree the source was rendered from (bounded/gen.py), never the parser; blind to constructs outside the generator grammar '
              '(no @variables, no attribute/pseudo combinations beyond pairs, calc() without parentheses, media feature values of one component) and to sheets larger '
              'than the bound; projection uses public accessors only (cssRules, selectorList + Selector.seq, style.children(), Property.name/priority/propertyValue, '
              'Value.type/value/dimension/uri/colour channels + seq of functions, media items, href, prefix/namespaceURI, selectorText of @page, margin)')
TECHNIQUE = 'bounded run-time contracts on the real parser over exhaustively enumerated abstract sheets x spellings (no proof obligations; the bound is stated in the evidence)'
DESIGN_REF = 'DESIGN.md section 3, C02; Appendix C "Abstract sheets"'


def bounded(ctx):
    from bounded import c02
    c02.roundtrip(ctx)
    c02.witnesses(ctx)
