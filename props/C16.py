"""C16 - Selector specificity, structure and list semantics."""
ID = 'C16'
LEVEL = 'exploration'
LEVEL_TEXT = ('exploration: run-time contracts on the real Selector / SelectorList over selectors generated from an abstract CSS3 form (expected specificity and expected sequence of '
              'simple selectors and combinators known by construction; pseudo-classes not counted, as the statement says), in thirteen spellings (white space, comments, letter case, CSS escapes), through a serialisation round trip and attached to a sheet three ways; selector lists: order, '
              'all-or-nothing rejection in raising and log mode and through the parser (hand-made invalid members, and every token kind that has no production in a selector at the start, between and at the end of compounds), and every append / replace history up to length 3 against a list model (appends as text, pair, new Selector object, '
              'member object of the same list, and through the alias append())')
LEVEL_NOTE = ('bounded: compounds of <= 2 simple selectors (+ pseudo-element) from a pool of 55 and 10 pseudo-element endings incl. functional ::part()/::cue()/::slotted(), complex selectors of <= 3 compounds from a pool of 14 (thorough: 4 over 6), fixed spellings '
              'rather than all spellings (CSS escapes: one escaped letter per word - simple escape of the first / last non-hex letter, short hex escape of the first letter, six-digit hex escape of the last letter - in :not, '
              'pseudo and function names; names of types, classes, ids and attributes with hex escapes only), one namespace prefix; nothing is proved for longer selectors, other names, simple escapes in names, '
              'escapes in arguments or a default namespace')
TECHNIQUE = ('bounded run-time contracts over exhaustively enumerated abstract selectors and list-operation histories; the oracle is the statement (counts by construction, CSS3 an+b grammar '
             'read strictly, a Python list as the list model), evaluated on the unmodified cssutils code')
DESIGN_REF = 'DESIGN.md section 3, C16; Appendix C (abstract selectors, renderer, operation pools)'


def bounded(ctx):
    from bounded import c16
    c16.compounds(ctx)
    c16.complexes(ctx)
    c16.lists(ctx)
    c16.list_histories(ctx)
    c16.stray_tokens(ctx)


# T1 (PyVC): New.append - the single place where specificity is counted - adds exactly the statement's formula for every item type,
# value and context (178 paths), and appends exactly one item or nothing.
T1 = [('contracts.selector', None), ('contracts.selectorlist', None)]
# (selectorlist: SelectorList.appendSelector - the new selector is last, earlier entries of the same serialised text are gone, the others keep their
#  order; a read-only list or a refused text changes nothing - for lists of any length)
