"""C12 - No hidden state: history-independent results, global modes restored."""
ID = 'C12'
LEVEL = 'exploration'
LEVEL_TEXT = ('bounded: a fixed probe battery (global modes, stand-alone constructors, reference sheets and style texts parsed and serialised, validation, DOM edits that must raise) gives the same '
              'answers after every sequence of <= 2 (quick) / <= 3 (thorough) calls from a disturbance pool (malformed input, undecodable bytes with an encoding given, a fetcher that raises, a missing '
              'file, a parser in raising mode, stand-alone MediaQuery / MediaList / PropertyValue / Selector constructors with rejected text, rejected DOM edits, csscombine) as in a fresh process, and after earlier calls whose text has ONE stray token (15 quick / 22 thorough token kinds) at each of 80 slots before / inside / behind '
              'every part of every construct (sheet, selector, declaration, value, priority, every at-rule with prelude and block), through parseString / parseStyle of a default and of a raising parser and through the '
              'stand-alone DOM constructors of the sub-parsers in raising and log-only mode (quick: as grouped histories, every call in two of them; thorough: every call alone as well); '
              'cssutils.log.raiseExceptions, vars(cssutils.ser.prefs), id(cssutils.ser), cssutils.profile.profiles and defaultProfiles are equal before and after every parse / csscombine call of the '
              'pool, returning or raising, under 12 ambient settings; one CSSParser object reused over several rounds gives the results of a fresh parser')
LEVEL_NOTE = ('no deductive part yet: holds for the fixed pool, battery and sequence length only; state that none of the battery probes reads would go unnoticed; every sequence runs in a process '
              'freshly forked from a server that has only imported cssutils, so cases cannot mask one another; three recorded findings are excluded by sharp classes (known/C12.json)')
TECHNIQUE = 'bounded run-time contracts: probe battery after exhaustively enumerated short call histories versus a fresh process; before/after monitor on the global modes; parser reuse versus fresh parser'
DESIGN_REF = 'DESIGN.md section 3, C12'


def bounded(ctx):
    from bounded import c12
    c12.histories(ctx)
    c12.stray_tokens(ctx)
    c12.modes(ctx)
    c12.reuse(ctx)


# T1 (PyVC): parseString (bytes and text input) and parseStyle put the library-wide error mode back on EVERY exit - normal return and
# every exception class a decoder, fetcher or raising parser can throw - proved on all paths of the real functions.
T1 = [('contracts.parse', None), ('contracts.script_csscombine', None)]
# (csscombine: the process-wide serializer is the caller's again on every exit, and the caller's preference object is never written - 657 paths over
#  every call that may raise)
