"""C11 - A rejected DOM mutation changes nothing; read-only objects reject every mutator."""
ID = 'C11'
LEVEL = 'exploration'
LEVEL_TEXT = ('bounded: every public mutator of every DOM class (enumerated mechanically from the class ASTs) is called in raising mode with inputs built to be rejected immediately, '
              'after an acceptable prefix, inside a nested object or by position (hand-written tables, plus: the well-formed text of every rule kind given to the cssText setter of every rule kind - unknown at-rules with the '
              'same and with another at-keyword -, and every codec Python ships given as new @charset encoding through CSSCharsetRule.encoding / .cssText and CSSStyleSheet.encoding, and the rejected selector texts also in the (text, namespaces) argument form), on every reachable target of a fixed set of prior sheets and on detached objects (among them a selector, a selector list, a style rule and a style rule inside an @media rule that carry a prefix mapping of their own, with the selectors inside them as targets); after each call that '
              'raised xml.dom.DOMException the snapshot (cssText of target / owner rule / sheet, rule types, property list, selector list, media list, namespaces of sheets and of selectors / selector lists / style rules; the serialisation also under every '
              'serializer preference at a non-default value, one at a time, under useMinified() and with all preferences flipped) equals the one taken before; '
              'objects created read-only (constructor flag, or sheets / rules / rule lists through _readonly) answer every mutating call with NoModificationAllowedErr and stay unchanged, '
              'in raising mode and in log-only mode (cssutils.log.raiseExceptions False)')
LEVEL_NOTE = ('no deductive part yet: the claim holds for the enumerated input tables and prior states only (fixed tables, 5 prior sheets in the quick tier, 28 in the thorough tier), not for all inputs and '
              'histories; preferences are varied one at a time plus two joint profiles, not in all combinations (quick tier: string-valued spacing preferences only jointly); the rejected-call clause is run '
              'in log-only mode in the thorough tier only; rejection paths that no table entry reaches are not covered (the evidence lists the mutators that no input managed to get rejected); fourteen recorded findings are excluded by '
              'sharp classes (known/C11.json)')
TECHNIQUE = ('VC generation + z3 for the exceptional postconditions of the mutators under contract (insertRule / deleteRule family, appendMedium / deleteMedium, removeProperty, appendSelector); '
             'the statement as a whole is decided by bounded run-time contracts (snapshot-compare monitor) over the mechanically enumerated public mutators x rejected-at-every-stage input tables x prior states, each case on a freshly parsed '
             'state; read-only clause with a writable-twin oracle for calls that are not refused')
DESIGN_REF = 'DESIGN.md section 3, C11'


def bounded(ctx):
    from bounded import c11
    c11.rejected(ctx)
    c11.readonly(ctx)


# T1 (PyVC): the exceptional postconditions "a call refused with a DOM exception has written nothing" and the read-only guard of the mutators that are under
# contract for other properties (the targets tagged C11 in their sidecars): CSSStyleSheet.insertRule / deleteRule, the nested insertRule / deleteRule of
# @media and @page rules, _prepareInsertRule, MediaList.appendMedium / deleteMedium, CSSStyleDeclaration.removeProperty, SelectorList.appendSelector, and
# the error handler (an error is raised iff raising mode is on). All other mutators are covered by the bounded snapshot monitor only.
T1 = [('contracts.cssstylesheet', None), ('contracts.cssrule', None), ('contracts.medialist', None), ('contracts.cssstyledeclaration', None),
      ('contracts.selectorlist', None), ('contracts.errorhandler', None)]
