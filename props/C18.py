"""C18 - Value normalisation never changes what a value denotes."""
ID = 'C18'
LEVEL = 'proof'
T1 = [('contracts.serialize', ['CSSSerializer._hash', 'CSSSerializer._strip_zeros', 'CSSSerializer.do_css_Value[numeric]'])]
LEVEL_TEXT = ('proof: _hash (lossless shortening, only when preferred), _strip_zeros (drops only trailing zeros, keeps one fraction digit) and the numeric branch of '
              'do_css_Value (output equals the canonical rendering of the same number, sign and unit under every omitLeadingZero setting) satisfy their contracts for all '
              'inputs; colours through rgb()/hsl() (floating point), strings/URLs and separators are decided by the bounded stand-in only')
LEVEL_NOTE = ("trusted: PyVC, z3/cvc5; '%f' % float and float(str) as assumed contracts on canonical decimal digits (grid-checked); Out.append/value for one numeric item; "
              'hex digit value as an uninterpreted function; the parser side (DimensionValue/ColorValue._setCssText) is exercised by the bounded/finite runs, not proved')
TECHNIQUE = 'function contracts on the real AST discharged by z3/cvc5 (string theory); complete enumeration of short hashes; bounded grids on the real parser+serializer'
DESIGN_REF = 'DESIGN.md section 3, C18'


def bounded(ctx):
    from bounded import c18
    c18.numbers(ctx)
    c18.colours(ctx)
    c18.strings_and_urls(ctx)
    c18.hex_escapes(ctx)
    c18.separators(ctx)
