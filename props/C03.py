"""C03 - Serialise then parse is lossless; serialisation is a fixpoint."""
ID = 'C03'
LEVEL = 'exploration'
LEVEL_TEXT = ('bounded: for every DOM d of five enumerated domains - the abstract-sheet generator in several spellings, the real sheets under /repo/sheets, every DOM after <= 2 '
              'accepted edits from an operation pool (base sheets as written and respelled in upper case / capitalised), every serialisable node (rule, declaration block, property, property value, selector list, selector, media list, media query) '
              'set back on a fresh object, and string/URL/identifier/comment content over a critical alphabet in every context and in every escape form (hex, backslash + character, six digits) - parse(d.cssText) projects equal to d and '
              'serialises byte-identically')
LEVEL_NOTE = ('DOM-to-DOM comparison through the public-accessor projection of bounded/gen.py (lenient: constructs outside the abstract grammar are compared by their own text); '
              'zero lengths and the number 0 are the same value (C18); under the default preferences equivalence is modulo rules without content and @variables '
              '(keepEmptyRules=False / resolveVariables=True remove them on purpose), under keepEmptyRules=True + resolveVariables=False it is exact; bounded by the generator '
              'grammar, the operation pool, edit depth 2 and content length 2 (3 in the thorough tier)')
TECHNIQUE = 'bounded run-time contracts on the real parser + serializer over enumerated DOMs (no proof obligations; the bounds are stated in the evidence)'
DESIGN_REF = 'DESIGN.md section 3, C03; Appendix C "Abstract sheets"'


def bounded(ctx):
    from bounded import c03
    c03.all_domains(ctx)   # generator_doms, real_sheets, edited_doms, node_texts, content - on one process pool
    c03.redeclarations(ctx)
    c03.witnesses(ctx)
