"""C08 - Sheet/import encoding precedence; serialised bytes decodable and lossless."""
ID = 'C08'
LEVEL = 'exploration'
LEVEL_TEXT = ('exploration: run-time contracts on the real parser with recording fetchers over the complete precedence matrix (override x transport x BOM/@charset/neither x parent x bytes/text x '
              'fetcher answer; delivered content with style rules, with NOTHING behind the signature - zero-length bytes / text - or with a comment only) for one import, for parseUrl / parseString / _readUrl, and for import chains of depth 3 with every level configured independently (also with an empty leaf); sheet.encoding against a model '
              'of the @charset rule over all assignment histories up to length 3; serialisation decodable and lossless for one non-ASCII character at 27 syntactic positions x 8 target encodings')
LEVEL_NOTE = ('bounded: four 8-bit encodings (utf-8, iso-8859-1, koi8-r, cp1251) with the byte payload D0 B6 plus hand-listed UTF-16 rows, depth <= 3, one import per sheet, eight sample characters; '
              'decoding done inside the codecs module and unknown charset names are outside the domain')
TECHNIQUE = ('bounded run-time contracts over exhaustively enumerated configuration matrices; the oracle is the precedence ladder of the statement and a reference CSS un-escaper, evaluated on the '
             'unmodified cssutils code')
LEVEL_TEXT = LEVEL_TEXT + ' The encoding precedence ladder of util._readUrl and the css codec decode/encode are additionally proved for all inputs by PyVC (obligations/discharged in the evidence); the claim level stays exploration because nested-import hand-over and the serialisation clauses are bounded.'
LEVEL_TEXT = LEVEL_TEXT + (' Imports resolved after the parse: histories parse (every entry / configuration that gives a sheet its first encoding, top sheet or imported sheet) ; change the '
                           'encoding (every mutator) ; load a new import (href setter, rule cssText, insertRule / add of text, insertRule of rule objects) - the late sheet follows the encoding the '
                           'referring sheet reports at that moment.')
DESIGN_REF = 'DESIGN.md section 3, C08'


def bounded(ctx):
    from bounded import c08
    c08.imports_matrix(ctx)
    c08.toplevel(ctx)
    c08.chains(ctx)
    c08.late_imports(ctx)
    c08.utf16_rows(ctx)
    c08.encoding_attribute(ctx)
    c08.serialisation(ctx)


# T1 (PyVC): the precedence ladder of _readUrl for text and bytes content, and the css codec's decode/encode (shared with C07),
# are proved for all inputs; everything else of the statement is decided by the bounded stand-in above.
T1 = [('contracts.util_readurl', None), ('contracts.codec', ['decode', 'encode', 'detectencoding_str', 'detectencoding_unicode'])]
