"""C19 - URL enumeration/replacement exact; flattening @imports preserves meaning."""
ID = 'C19'
LEVEL = 'exploration'
LEVEL_TEXT = ('bounded: (A) on generated sheets with url() in every context (style rule at top level / in @media / nested @media, @page, margin boxes, @font-face), several per value, inside function '
              'arguments up to three function levels deep, inside each of the 14 IE filter function names the value parser reads by a production of its own (mask(, alpha(, glow(, ... alone, nested in / around ordinary functions and each other), repeated properties, 0-2 @import rules: list(getUrls(sheet)) == imports then url() values in document order, replaceUrls calls the replacer exactly once per URL, the identity '
              'replacer is a no-op on cssText and DOM, a tagging replacer changes exactly the URLs (also with ignoreImportRules and on a CSSStyleDeclaration); (B) cssutils.Replacer over all pairs of '
              'import hrefs and URLs of <= 3 path segments incl. . and .. and the special URL forms, and over the dot-like names (.h, ..u, ..., k. - ordinary names that look like dot segments) at every position of '
              'URLs of <= 3 segments and import hrefs of <= 2 directories, also as file name of the import; (C) resolveImports and csscombine (minified and normal) over virtual file systems served by a counting '
              'fetcher - single imports over 15 target locations (incl. a dot directory, a dot file, a directory named ...) x 6 media x 9 target bodies + missing, import chains of depth <= 3 (quick) / <= 4 (thorough), branching trees with unwrappable and missing '
              'targets, every URL form, 72 URLs with a dot-like last segment, url() at function depth 1-3 and url() inside every IE filter function name in imported sheets, cycles, several source/target encodings - equal the oracle expansion, every URL compared after urljoin, each target fetched once; '
              '(D) resolveImports on trees edited through the DOM between parsing and flattening (media of an edge set in every way the DOM offers over all pairs of media, edges retargeted / inserted / deleted, '
              'rules of an imported sheet added / deleted) equals the expansion of the edited file system')
LEVEL_NOTE = ('the expected flat sheet is computed from the virtual file system alone (bounded/c19.py expand): cascade order, media wrapping, @import kept for missing / cyclic targets and for groups holding '
              '@namespace or a kept @import; for groups holding @media/@page/@font-face/unknown rules both wrapping and keeping are accepted; URLs are compared by resolution (urllib.parse.urljoin) modulo '
              'percent-encoding of the path; the marker comments of resolveImports, @charset rules and (minified) comments / unknown rules are not compared; blind to file systems outside the generator '
              '(directory names with special characters other than dots, more than two imports per sheet, import names)')
TECHNIQUE = 'bounded run-time contracts on the real code over enumerated sheets, path pairs and virtual file systems with a resolving oracle (no proof obligations; the bounds are stated in the evidence)'
DESIGN_REF = 'DESIGN.md section 3, C19; Appendix C "Abstract sheets"'


def bounded(ctx):
    from bounded import c19
    c19.urls_and_replacement(ctx)
    c19.replacer(ctx)
    c19.flattening(ctx)
    c19.edited_trees(ctx)
    c19.encodings(ctx)
    c19.witnesses(ctx)
