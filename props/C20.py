"""C20 - encutils reports the document encoding by the documented precedence."""
ID = 'C20'
LEVEL = 'proof'
T1 = [('contracts.encutils', None)]
LEVEL_TEXT = ('proof: getEncodingInfo (every path of the chain, callee results symbolic), _getTextTypeByMediaType (regular-language equality with the media-type classes), '
              'encodingByMediaType, _getTextType, getHTTPInfo, getMetaInfo (lower-casing), detectXMLEncoding (BOM precedence, default, stream position on every exit) '
              'satisfy contracts taken from the statement, for all inputs; the complete decision table and the sniffers are additionally run on the real code (bounded/finite)')
LEVEL_NOTE = ('trusted: PyVC, z3/cvc5, the `re` contract (language-level), email.message/html.parser/io as stated stubs; which declared encoding the XML regex extracts is '
              'checked by the bounded run only; recorded finding C20-xml-short-input excluded as the class len(document) < 4')
TECHNIQUE = 'function contracts on the real AST discharged by z3/cvc5 (incl. regex-language obligations); finite decision table run on the real code'
DESIGN_REF = 'DESIGN.md section 3, C20'


def lemmas(ctx):
    import encutils, io
    try:
        encutils.detectXMLEncoding(io.StringIO('ab'))
        still = False
    except ValueError:
        still = True
    ctx.known_finding('C20-xml-short-input', still)


def bounded(ctx):
    from bounded import c20
    c20.table(ctx)
    c20.sniffers(ctx)
