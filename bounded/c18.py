"""C18 bounded / finite stand-in: value normalisation on the real parser + serializer over enumerated value domains."""
import itertools
import logging
import random
import re
from decimal import Decimal

LENGTH_UNITS = ('cm', 'mm', 'in', 'px', 'pc', 'pt', 'em', 'ex')
NUM_RE = re.compile(r'^([+-]?)(\d*\.?\d*)(.*)$')


def _quiet():
    import cssutils
    cssutils.log.setLevel(logging.FATAL)
    cssutils.ser.prefs.useDefaults()
    return cssutils


class _Rejected(list):
    wellformed = False
    cssText = ''


def PV(text):
    """PropertyValue(text); a rejection (DOM exception in raising mode) counts as not well-formed"""
    import xml.dom
    import cssutils.css as _css
    try:
        return _css.PropertyValue(text)
    except xml.dom.DOMException:
        return _Rejected()


def numbers(ctx):
    cssutils = _quiet()
    PropertyValue = PV
    signs = ['', '+', '-']
    ints = ['', '0', '00', '1', '10', '007', '123456789']
    fracs = [None, '0', '5', '50', '05', '000001', '100000', '123456', '999999', '5000', '25']
    units = ['', 'px', 'em', '%', 'deg', 's', 'cm', 'pt', 'x', 'PX']
    n = 0
    kinds = set()
    samples = []
    try:
        for omit in (False, True):
            cssutils.ser.prefs.omitLeadingZero = omit
            for sg, ip, fr, un in itertools.product(signs, ints, fracs, units):
                if ip == '' and fr is None:
                    continue
                text = sg + ip + ('.' + fr if fr is not None else '') + un
                want = Decimal(sg + (ip or '0') + ('.' + fr if fr is not None else ''))
                n += 1
                pv = PropertyValue(text)
                if not pv.wellformed or len(pv) != 1:
                    ctx.violation('bounded: a decimal literal with a unit parses to one numeric component', f'{text!r}: wellformed={pv.wellformed} items={len(pv)}', True, {'text': text})
                    continue
                v = pv[0]
                out = pv.cssText
                m = NUM_RE.match(out)
                try:
                    got = Decimal(m.group(1) + (m.group(2) if m.group(2) not in ('', '.') else 'x'))
                except Exception:
                    ctx.violation('bounded: serialised number is a decimal literal', f'{text!r} -> {out!r}', True, {'text': text, 'omitLeadingZero': omit})
                    continue
                unit_out = m.group(3)
                zero = want == 0
                unit_want = '' if (zero and un.lower() in LENGTH_UNITS) else un.lower()
                kinds.add((sg, bool(ip), fr is None, un.lower() in LENGTH_UNITS, zero, omit))
                if got != want:
                    ctx.violation('bounded: number serialised as the same real number', f'{text!r} -> {out!r} (omitLeadingZero={omit})', True, {'text': text, 'omitLeadingZero': omit})
                elif unit_out.lower() != unit_want:
                    ctx.violation('bounded: unit kept (dropped only for zero lengths)', f'{text!r} -> {out!r} (omitLeadingZero={omit})', True, {'text': text, 'omitLeadingZero': omit})
                elif (m.group(1) == '-') != (want < 0) or (m.group(1) == '+') != (sg == '+' and not zero):
                    ctx.violation('bounded: sign kept', f'{text!r} -> {out!r}', True, {'text': text, 'omitLeadingZero': omit})
                elif re.search(r'\.\d*0$', m.group(2)) or re.match(r'0\d', m.group(2)) or (omit and re.match(r'0\.', m.group(2))):
                    ctx.violation('bounded: redundant zeros dropped', f'{text!r} -> {out!r} (omitLeadingZero={omit})', True, {'text': text, 'omitLeadingZero': omit})
                # typed accessors agree with the source text
                if Decimal(repr(v.value)) != want and abs(Decimal(repr(v.value)) - want) > abs(want) * Decimal('1e-15'):
                    ctx.violation('bounded: DimensionValue.value agrees with the source text', f'{text!r}: value={v.value!r}', True, {'text': text})
                if (v.dimension or '') != un.lower():
                    ctx.violation('bounded: DimensionValue.dimension agrees with the source text', f'{text!r}: dimension={v.dimension!r}', True, {'text': text})
                # fixpoint
                out2 = PropertyValue(out).cssText
                if out2 != out:
                    ctx.violation('bounded: serialised number is a fixpoint', f'{text!r} -> {out!r} -> {out2!r}', True, {'text': text, 'omitLeadingZero': omit})
                if len(samples) < 3 and fr == '05':
                    samples.append({'text': text, 'omitLeadingZero': omit, 'out': out})
        # integers beyond the double mantissa: an integer literal denotes exactly that integer (no fraction, so no float is involved)
        for sg, ip, un in itertools.product(signs, ['9007199254740993', '99999999999999999999', '18446744073709551617', '123456789012345678901234567890'], ['', 'px', '%']):
            text = sg + ip + un
            n += 1
            pv = PropertyValue(text)
            if not pv.wellformed or len(pv) != 1:
                ctx.violation('bounded: a decimal literal with a unit parses to one numeric component', f'{text!r}: wellformed={pv.wellformed} items={len(pv)}', True, {'text': text})
                continue
            m = NUM_RE.match(pv.cssText)
            kinds.add(('bigint', sg, un))
            if not m or m.group(2) != ip or (m.group(1) == '-') != (sg == '-') or m.group(3).lower() != un:
                ctx.violation('bounded: number serialised as the same real number', f'{text!r} -> {pv.cssText!r} (integer beyond 2**53)', True, {'text': text})
            elif pv[0].value != int(sg + ip):
                ctx.violation('bounded: DimensionValue.value agrees with the source text', f'{text!r}: value={pv[0].value!r}', True, {'text': text})
    finally:
        cssutils.ser.prefs.useDefaults()
    # recorded finding: more than 15 significant digits do not survive the float representation
    try:
        still = PropertyValue('9007199254.05').cssText != '9007199254.05'
    except Exception:
        still = False
    ctx.known_finding('C18-float-precision', still)
    ctx.bounded.append({'name': 'decimal literals', 'evaluations': n, 'distinct_nontrivial': len(kinds),
                        'rule': 'sign x integer digits x fraction digits (<= 6) x unit x omitLeadingZero, exact comparison as Decimal; distinct = shape class of the literal',
                        'samples': samples, 'bound': f'{len(signs)}x{len(ints)}x{len(fracs)}x{len(units)}x2 literals'})


CSS21_COLORS = {'maroon': (128, 0, 0), 'red': (255, 0, 0), 'orange': (255, 165, 0), 'yellow': (255, 255, 0), 'olive': (128, 128, 0), 'purple': (128, 0, 128),
                'fuchsia': (255, 0, 255), 'white': (255, 255, 255), 'lime': (0, 255, 0), 'green': (0, 128, 0), 'navy': (0, 0, 128), 'blue': (0, 0, 255),
                'aqua': (0, 255, 255), 'teal': (0, 128, 128), 'black': (0, 0, 0), 'silver': (192, 192, 192), 'gray': (128, 128, 128)}
HEX = '0123456789abcdef'


def _chan(cv):
    return (cv.red, cv.green, cv.blue, cv.alpha)


def colours(ctx):
    cssutils = _quiet()
    PropertyValue = PV
    n = 0
    kinds = set()
    samples = []
    rnd = random.Random(ctx.seed)

    def check(text, want, what):
        nonlocal n
        n += 1
        pv = PropertyValue(text)
        if not pv.wellformed or len(pv) != 1 or not hasattr(pv[0], 'red'):
            ctx.violation('bounded: colour literal parses to one colour component', f'{text!r}', True, {'text': text})
            return None
        got = _chan(pv[0])
        if tuple(got[:3]) != tuple(want[:3]) or abs(got[3] - want[3]) > 1e-9:
            ctx.violation(f'bounded: {what} channels agree with the source text', f'{text!r}: {got!r} != {want!r}', True, {'text': text})
        out = pv.cssText
        pv2 = PropertyValue(out)
        if not pv2.wellformed or len(pv2) != 1 or not hasattr(pv2[0], 'red') or _chan(pv2[0]) != got:
            ctx.violation(f'bounded: {what} keeps its channels through serialisation', f'{text!r} -> {out!r}', True, {'text': text, 'minimizeColorHash': cssutils.ser.prefs.minimizeColorHash})
        return out

    try:
        for mini in (True, False):
            cssutils.ser.prefs.minimizeColorHash = mini
            for a, b, c in itertools.product(HEX, repeat=3):
                h3 = (int(a, 16) * 17, int(b, 16) * 17, int(c, 16) * 17, 1.0)
                for spell in ((a + b + c), (a + b + c).upper()) if (a + b + c).lower() != (a + b + c).upper() and mini else ((a + b + c),):
                    out = check('#' + spell, h3, 'short hash')
                out = check('#' + a + a + b + b + c + c, h3, 'paired long hash')
                if out is not None and ((len(out) == 4) != mini):
                    ctx.violation('bounded: hash shortened exactly when minimizeColorHash is set', f'#{a+a+b+b+c+c} -> {out!r} with minimizeColorHash={mini}', True,
                                  {'text': '#' + a + a + b + b + c + c, 'minimizeColorHash': mini})
                kinds.add(('h3', a == b, b == c))
            for _ in range(1500 if ctx.tier == 'quick' else 20000):
                h = ''.join(rnd.choice(HEX) for _ in range(6))
                want = (int(h[0:2], 16), int(h[2:4], 16), int(h[4:6], 16), 1.0)
                out = check('#' + h, want, 'long hash')
                paired = h[0] == h[1] and h[2] == h[3] and h[4] == h[5]
                if out is not None and not paired and out.lower() != '#' + h:
                    ctx.violation('bounded: an unpaired long hash is written unchanged', f'#{h} -> {out!r}', True, {'text': '#' + h})
                kinds.add(('h6', h[0] == h[1], h[2] == h[3], h[4] == h[5]))
        cssutils.ser.prefs.useDefaults()
        for name, rgb in CSS21_COLORS.items():
            for spell in (name, name.upper(), name.capitalize()):
                check(spell, rgb + (1.0,), 'colour keyword')
            kinds.add(('kw', name))
        ints = [0, 1, 127, 128, 254, 255]
        for r, g, b in itertools.product(ints, repeat=3):
            check(f'rgb({r}, {g}, {b})', (r, g, b, 1.0), 'rgb()')
            kinds.add(('rgb', r == g, g == b))
        for r, g, b in itertools.product([0, 51, 255], repeat=3):
            for al in ('0', '0.5', '1', '.25', '0.125'):
                check(f'rgba({r},{g},{b},{al})', (r, g, b, float(al)), 'rgba()')
        pcts = [(0, 0), (20, 51), (40, 102), (60, 153), (80, 204), (100, 255)]
        for (p1, v1), (p2, v2), (p3, v3) in itertools.product(pcts, repeat=3):
            check(f'rgb({p1}%, {p2}%, {p3}%)', (v1, v2, v3, 1.0), 'rgb(%)')
        for al in ('0', '0.5', '1'):
            check(f'rgba(20%,40%,60%,{al})', (51, 102, 153, float(al)), 'rgba(%)')
        exact_hsl = {(0, 100, 50): (255, 0, 0), (60, 100, 50): (255, 255, 0), (120, 100, 50): (0, 255, 0), (180, 100, 50): (0, 255, 255), (240, 100, 50): (0, 0, 255),
                     (300, 100, 50): (255, 0, 255), (0, 0, 0): (0, 0, 0), (0, 0, 100): (255, 255, 255), (120, 100, 100): (255, 255, 255), (120, 100, 0): (0, 0, 0),
                     (120, 100, 25): (0, 128, 0), (0, 100, 25): (128, 0, 0), (240, 100, 25): (0, 0, 128), (0, 0, 50): (128, 128, 128), (360, 100, 50): (255, 0, 0),
                     # the hue is an angle: it wraps (CSS3 Color 4.2.4), negative and beyond one turn
                     (-120, 100, 50): (0, 0, 255), (-240, 100, 50): (0, 255, 0), (480, 100, 50): (0, 255, 0), (420, 100, 50): (255, 255, 0), (720, 100, 50): (255, 0, 0),
                     (-60, 100, 50): (255, 0, 255), (600, 100, 25): (0, 0, 128)}
        for (h, s_, l_), rgb in exact_hsl.items():
            # 25% lightness: 0.5 * 255 = 127.5 -> either neighbour is a correct rounding; accept the library's choice within 1
            pv = PropertyValue(f'hsl({h}, {s_}%, {l_}%)')
            n += 1
            got = _chan(pv[0]) if pv.wellformed and len(pv) == 1 and hasattr(pv[0], 'red') else None
            if got is None or any(abs(x - y) > (1 if 128 in rgb else 0) for x, y in zip(got[:3], rgb)) or got[3] != 1.0:
                ctx.violation('bounded: hsl() channels agree with the CSS3 conversion', f'hsl({h}, {s_}%, {l_}%): {got!r} != {rgb!r}', True, {'text': f'hsl({h}, {s_}%, {l_}%)'})
            for al in ('0', '0.3', '1', '.75'):
                t = f'hsla({h}, {s_}%, {l_}%, {al})'
                pv = PropertyValue(t)
                n += 1
                g2 = _chan(pv[0]) if pv.wellformed and len(pv) == 1 and hasattr(pv[0], 'red') else None
                if g2 is None or got is None or tuple(g2[:3]) != tuple(got[:3]) or abs(g2[3] - float(al)) > 1e-9:
                    ctx.violation('bounded: hsla() keeps hue/saturation/lightness result and alpha', f'{t}: {g2!r}', True, {'text': t})
                else:
                    pv2 = PropertyValue(pv.cssText)
                    if _chan(pv2[0]) != g2:
                        ctx.violation('bounded: hsla() keeps its channels through serialisation', f'{t} -> {pv.cssText!r}', True, {'text': t})
            kinds.add(('hsl', h, s_, l_))
        samples.append({'text': '#aabbcc', 'channels': [170, 187, 204, 1.0]})
    finally:
        cssutils.ser.prefs.useDefaults()
    ctx.bounded.append({'name': 'colours', 'evaluations': n, 'distinct_nontrivial': len(kinds), 'exhaustive': False,
                        'rule': 'all 16^3 short hashes and all 16^3 paired long hashes under both minimizeColorHash settings (complete), a seeded sample of 16^6 long hashes, '
                                'the 17 CSS 2.1 keywords in three spellings, rgb()/rgba() integer and exact-percentage grids, hsl()/hsla() at exactly convertible points',
                        'samples': samples, 'bound': 'short/paired hashes complete; long hashes sampled'})


def css_string(content, q='"'):
    """an independent CSS string writer (CSS 2.1 4.3.7): quote, backslash and line breaks escaped"""
    out = [q]
    for ch in content:
        if ch == q or ch == '\\':
            out.append('\\' + ch)
        elif ch in '\n\r\f':
            out.append('\\%x ' % ord(ch))
        else:
            out.append(ch)
    out.append(q)
    return ''.join(out)


def strings_and_urls(ctx):
    cssutils = _quiet()
    PropertyValue = PV
    alphabet = ['a', 'f', '1', '"', "'", '\\', '(', ')', ' ', '\n', '\r', '\f', 'é', ';', ',', '/', '\t', '\xa0', '\u3000', '\u2028', '\x0b']
    maxlen = 3 if ctx.tier == 'quick' else 4
    n = 0
    kinds = set()
    samples = []
    known = ctx.known
    for L in range(0, maxlen + 1):
        for tup in itertools.product(alphabet, repeat=L):
            content = ''.join(tup)
            for q in ('"', "'"):
                src = css_string(content, q)
                n += 1
                pv = PropertyValue(src)
                kid = None
                if '\\' in content:
                    kid = 'C18-backslash-content'
                if not pv.wellformed or len(pv) != 1 or pv[0].type != 'STRING':
                    ctx.violation('bounded: a CSS string parses to one STRING component', f'{src!r}', True, {'source': src}, known_id=kid)
                    continue
                held = pv[0].value
                if held != content:
                    ctx.violation('bounded: Value.value of a string is its exact character content', f'{src!r}: value={held!r} want {content!r}', True, {'source': src},
                                  known_id=kid)
                    if kid is None:
                        continue
                out = pv.cssText
                pv2 = PropertyValue(out)
                if not pv2.wellformed or len(pv2) != 1 or pv2[0].value != held:
                    ctx.violation('bounded: string content survives serialisation', f'{content!r} -> {out!r} -> {pv2[0].value if len(pv2) else None!r}', True, {'content': content})
                kinds.add(tuple(sorted(set(tup))))
            # URL, quoted form (always expressible)
            src = 'url(' + css_string(content) + ')'
            n += 1
            pv = PropertyValue(src)
            kid = 'C18-backslash-content' if '\\' in content else None
            if not pv.wellformed or len(pv) != 1 or pv[0].type != 'URI':
                ctx.violation('bounded: url("...") parses to one URI component', f'{src!r}', True, {'source': src}, known_id=kid)
                continue
            held = pv[0].uri
            if held != content:
                ctx.violation('bounded: URIValue.uri is the exact URL content', f'{src!r}: uri={held!r} want {content!r}', True, {'source': src},
                              known_id=kid)
                if kid is None:
                    continue
            out = pv.cssText
            pv2 = PropertyValue(out)
            if not pv2.wellformed or len(pv2) != 1 or pv2[0].type != 'URI' or pv2[0].uri != held:
                ctx.violation('bounded: URL content survives serialisation', f'{content!r} -> {out!r}', True, {'content': content})
    samples.append({'content': 'a"\'', 'source': css_string('a"\'')})
    ctx.bounded.append({'name': 'strings and urls', 'evaluations': n, 'distinct_nontrivial': len(kinds),
                        'rule': f'all strings of length <= {maxlen} over the critical alphabet {alphabet!r}, in both quote styles and as url("..."), written by an independent CSS string writer; '
                                'distinct = set of characters used',
                        'samples': samples, 'bound': f'length <= {maxlen}'})


def css21_unescape(src):
    """independent decoder of the escapes inside a CSS 2.1 string / URL / identifier (4.1.3): backslash + 1-6 hex digits + at most one white
    space character out of space, tab, LF, CR, FF (CR LF counts as one); backslash + line break = nothing (strings); backslash + other = that char"""
    out, i = [], 0
    while i < len(src):
        c = src[i]
        if c != '\\':
            out.append(c)
            i += 1
            continue
        j = i + 1
        k = j
        while k < len(src) and k - j < 6 and src[k] in '0123456789abcdefABCDEF':
            k += 1
        if k > j:
            if not 0 < int(src[j:k], 16) <= 0x10FFFF:
                return None  # no Unicode code point (or zero): CSS 2.1 leaves the meaning open - out of the domain
            out.append(chr(int(src[j:k], 16)))
            if src[k:k + 2] == '\r\n':
                k += 2
            elif k < len(src) and src[k] in ' \t\n\r\f':
                k += 1
            i = k
        elif src[j:j + 2] == '\r\n':
            i = j + 2
        elif j < len(src) and src[j] in '\n\r\f':
            i = j + 1
        else:
            out.append(src[j:j + 1])
            i = j + 1
    return ''.join(out)


def hex_escapes(ctx):
    """hex escapes with every kind of character behind them (the terminator is ONE CSS white space character; other Unicode spaces, control
    characters, hex digits and letters are content) inside strings and quoted URLs"""
    _quiet()
    escs = ['\\41', '\\2014', '\\e9', '\\000041', '\\00e9', '\\1F600']
    followers = ['', ' ', '  ', '\t', '\n', '\r\n', '\f', '\xa0', '\u2003', '\u3000', '\u2028', '\x0b', '\x1c', '\x1f', '\x85', 'a', 'g', '1', '-', '\\41']
    n, kinds = 0, set()
    for e, f, tail in itertools.product(escs, followers, ['', 'x']):
        body = 'a' + e + f + tail
        if '\n' in f or '\f' in f or '\r' in f:
            pass  # a raw line break right behind a hex escape is its terminator, legal inside a string
        want = css21_unescape(body)
        if want is None:
            continue
        for kind, src in (('STRING', '"' + body + '"'), ('URI', 'url("' + body + '")')):
            n += 1
            kinds.add((len(e), f, kind))
            pv = PV(src)
            if not pv.wellformed or len(pv) != 1 or pv[0].type != kind:
                ctx.violation('bounded: a string / URL with a hex escape parses to one component', f'{src!r}', True, {'source': src})
                continue
            held = pv[0].value if kind == 'STRING' else pv[0].uri
            if held != want:
                ctx.violation('bounded: a hex escape ends after its digits and at most one CSS white space character', f'{src!r}: content {held!r}, denotes {want!r}', True, {'source': src})
    ctx.bounded.append({'name': 'hex escapes x following character', 'evaluations': n, 'distinct_nontrivial': len(kinds),
                        'rule': f'{len(escs)} hex escapes (1-6 digits) x {len(followers)} following characters (CSS white space, other Unicode spaces, controls, hex digit, letter, escape) x end / more '
                                'text, in a string and in a quoted URL; content compared with an independent CSS 2.1 decoder; distinct = (digits, follower, kind)',
                        'samples': [{'source': '"a\\2014\xa0x"'}], 'bound': f'{len(escs)}x{len(followers)}x2x2', 'exhaustive': True})


def separators(ctx):
    cssutils = _quiet()
    PropertyValue = PV
    comps = ['a', '1px', '50%', '#abc', '"s"', 'url(x)', 'rgb(1, 2, 3)', '-2.5em', 'f(1)']
    seps = [' ', ', ', ' / ', ',', '/']
    n = 0
    kinds = set()
    for k in (2, 3):
        for cs in itertools.product(comps[:6] if k == 3 else comps, repeat=k):
            for ss in itertools.product(seps, repeat=k - 1):
                text = cs[0] + ''.join(s + c for s, c in zip(ss, cs[1:]))
                n += 1
                pv = PropertyValue(text)
                if not pv.wellformed:
                    ctx.violation('bounded: a component list parses', f'{text!r}', True, {'text': text})
                    continue
                out = pv.cssText
                want_seps = [s.strip() for s in ss]
                got_seps = _separators_of(out, k)
                if got_seps != want_seps or len(pv) != k:
                    ctx.violation('bounded: order and separators of components are preserved', f'{text!r} -> {out!r}', True, {'text': text})
                elif PropertyValue(out).cssText != out:
                    ctx.violation('bounded: serialised value is a fixpoint', f'{text!r} -> {out!r}', True, {'text': text})
                kinds.add(tuple(want_seps))
    ctx.bounded.append({'name': 'separators', 'evaluations': n, 'distinct_nontrivial': len(kinds),
                        'rule': 'all lists of 2 (9 component kinds) and 3 (6 kinds) components with every separator among space, comma, slash (with/without spaces)',
                        'samples': [{'text': 'a, 1px / #abc'}], 'bound': 'lists of <= 3 components'})


def _separators_of(text, k):
    from cssutils.tokenize2 import Tokenizer
    depth = 0
    seps = []
    pending = None
    first = True
    for typ, val, _, _ in Tokenizer().tokenize(text):
        if typ == 'S':
            if depth == 0 and pending is None and not first:
                pending = ''
            continue
        if depth == 0 and typ == 'CHAR' and val in ',/':
            pending = val
            continue
        if not first and depth == 0:
            seps.append(pending if pending is not None else '?')
        pending = None
        first = False
        if typ in ('FUNCTION',) or (typ == 'CHAR' and val == '('):
            depth += 1
        elif typ == 'CHAR' and val == ')':
            depth -= 1
    return seps
