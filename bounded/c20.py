"""C20 bounded/finite stand-in: the full decision table on the real getEncodingInfo with stub responses, documents built
so that the declared/meta/BOM encodings are known by construction; extractor functions against native oracles."""
import io
import itertools
from email.message import Message

from contracts.encutils import (XML_APP, XML_TEXT, HTML, TEXT, OTHER, TEXT_UTF8, chain_spec, mismatch_spec, default_encoding)

MEDIA = [(None, None), ('application/xml', XML_APP), ('application/xml-dtd', XML_APP), ('application/xml-external-parsed-entity', XML_APP),
         ('application/xhtml+xml', XML_APP), ('Application/RSS+XML', XML_APP), ('text/xml', XML_TEXT), ('text/xml-external-parsed-entity', XML_TEXT),
         ('text/foo+xml', XML_TEXT), ('text/html', HTML), (' TEXT/HTML ', HTML), ('text/css', TEXT_UTF8), ('text/plain', TEXT), ('text/x-foo', TEXT),
         ('image/png', OTHER), ('application/octet-stream', OTHER), ('application/json', OTHER)]
CHARSETS = [None, 'iso-h', 'ISO-H', 'utf-8']
XML = ['none', 'decl:iso-h', 'decl:iso-x', 'decl:ISO-X', 'nodeclenc', 'bom8', 'bom16le', 'bom16be', 'short']
META = ['none', 'meta:iso-h', 'meta:iso-m', 'meta:ISO-M']
BOMS = {'bom8': ('\xef\xbb\xbf', 'utf-8'), 'bom16le': ('\xff\xfe', 'utf_16_le'), 'bom16be': ('\xfe\xff', 'utf_16_be')}


import logging
NULLLOG = logging.getLogger('verif-c20-null')
NULLLOG.addHandler(logging.NullHandler())
NULLLOG.propagate = False


class Resp:
    def __init__(self, media, charset):
        self.m = Message()
        ct = media
        if charset:
            ct += ';charset=' + charset
        self.m['Content-Type'] = ct

    def info(self):
        return self.m


def build(xml, meta):
    """(document text, sniffable xml encoding or None, has_xml_default_basis, meta charset or None)"""
    metael = ''
    mcs = None
    if meta != 'none':
        mcs = meta.split(':')[1]
        metael = f'<meta http-equiv="Content-Type" content="text/html;charset={mcs}"/>'
    body = f'<html><head>{metael}</head><body>x</body></html>'
    if xml == 'none':
        return body, None, mcs
    if xml == 'short':
        return '<a>', 'SHORT', None
    if xml.startswith('decl:'):
        e = xml.split(':')[1]
        return f'<?xml version="1.0" encoding="{e}" ?>' + body, e.lower(), mcs
    if xml == 'nodeclenc':
        return '<?xml version="1.0" ?>' + body, None, mcs
    bom, name = BOMS[xml]
    return bom + body, name, mcs


def table(ctx):
    import encutils as E
    n = 0
    distinct = set()
    samples = []
    for (media, tt), cs, xml, meta in itertools.product(MEDIA, CHARSETS, XML, META):
        if media is None and cs:
            continue
        for as_bytes in (False, True):
            doc, xenc, mcs = build(xml, meta)
            short = xenc == 'SHORT'
            resp = Resp(media, cs) if media is not None else None
            if media is None:
                tt_eff = XML_APP if '<?xml version=' in doc[:30] else OTHER
                http_enc = None
            else:
                tt_eff = tt
                http_enc = cs.lower() if cs else None
            # what the sniffers are documented to give
            xml_enc = None
            if tt_eff in (XML_APP, HTML):
                if short:
                    xml_enc = None  # recorded finding C20-xml-short-input: ValueError swallowed, no default
                elif xenc is not None:
                    xml_enc = xenc
                else:
                    xml_enc = 'utf-8' if tt_eff == XML_APP else None
            meta_enc = (mcs.lower() if mcs else None) if tt_eff in (HTML, TEXT) else None
            want_enc = chain_spec(tt_eff, http_enc, xml_enc, meta_enc, default_encoding(tt_eff), None)
            want_mis = mismatch_spec(http_enc, xml_enc, meta_enc)
            text = doc.encode('latin-1') if as_bytes else doc
            n += 1
            try:
                info = E.getEncodingInfo(resp, text, log=NULLLOG)
                got = (info.encoding, info.mismatch)
            except Exception as e:
                got = (f'<{type(e).__name__}: {e}>', None)
            distinct.add((tt_eff, bool(http_enc), xml, meta != 'none', want_mis))
            if got != (want_enc, want_mis):
                ctx.violation('bounded: getEncodingInfo follows the documented decision table',
                              f'media={media!r} charset={cs!r} xml={xml} meta={meta} bytes={as_bytes}: got {got!r}, documented {(want_enc, want_mis)!r}', True,
                              {'media_type': media, 'charset': cs, 'xml': xml, 'meta': meta, 'bytes': as_bytes, 'document': doc[:120]})
            elif got[0] is not None and got[0] != got[0].lower():
                ctx.violation('bounded: reported encoding is lower-case', f'{got!r} for media={media!r} charset={cs!r} xml={xml} meta={meta}', True,
                              {'media_type': media, 'charset': cs, 'xml': xml, 'meta': meta})
            if len(samples) < 3 and want_mis:
                samples.append({'media': media, 'charset': cs, 'xml': xml, 'meta': meta, 'expected': [want_enc, want_mis]})
    ctx.bounded.append({'name': 'decision table', 'evaluations': n, 'distinct_nontrivial': len(distinct), 'exhaustive': True,
                        'rule': f'{len(MEDIA)} media types (every class, case/space variants) x {len(CHARSETS)} transport charsets x {len(XML)} XML prolog variants x '
                                f'{len(META)} meta variants x text/bytes, expected value from the statement; distinct = (class, http?, xml variant, meta?, mismatch)',
                        'samples': samples, 'bound': 'finite table, enumerated completely'})


def sniffers(ctx):
    import encutils as E
    n = 0
    kinds = set()
    samples = []
    heads = ['', '<', '<?x', '<?xml', '\xef\xbb\xbf', '\xff\xfe', '\xfe\xff', '\xff\xfe\x00\x00', '\x00\x00\xfe\xff', '\xef\xbb', 'abcd', '\xff\xfeab', '\xfe\xffab',
             '<?xml version="1.0" encoding="X-1"?>', "<?xml version='1.0' encoding='x-2' standalone='yes'?>", ' <?xml version="1.0" encoding="x"?>',
             '<?xml version="1.0"?>', '<?xml encoding=""?>', '<?xml version="1.0" encoding="a\'b"?>', '<?xml version="1.0"\nencoding="nl"?>']
    for h in heads:
        # (the declaration only counts at the very start of the document: look-alikes at the start of a LATER line or inside the body do not)
        for tail in ('', '<doc/>', 'x' * 3000, '\n<?xml version="1.0" encoding="koi8-r"?>\n<a/>', '<a>\n<?xml-stylesheet href="x" encoding="iso-8859-15"?>\n</a>',
                     '\r\n<?xml encoding="cp1251"?>'):
            doc = h + tail
            for pos in sorted({0, 1, len(doc) // 2, len(doc)}):
                if pos > len(doc):
                    continue
                for inc in (True, False):
                    f = io.StringIO(doc)
                    f.seek(pos)
                    n += 1
                    try:
                        r = E.detectXMLEncoding(f, None, inc)
                    except ValueError:
                        r = 'ValueError'
                    if f.tell() != pos:
                        ctx.violation('bounded: detectXMLEncoding leaves the stream position untouched', f'doc {doc[:40]!r} pos {pos} -> {f.tell()}', True,
                                      {'document': doc[:60], 'pos': pos})
                    # oracle
                    if len(doc) < 4:
                        want = 'ValueError'  # recorded finding C20-xml-short-input
                    else:
                        want = None
                        for bom, name in (('\x00\x00\xfe\xff', 'utf_32_be'), ('\xff\xfe\x00\x00', 'utf_32_le'), ('\xfe\xff', 'utf_16_be'), ('\xff\xfe', 'utf_16_le'),
                                          ('\xef\xbb\xbf', 'utf-8')):
                            if doc.startswith(bom):
                                want = name
                                break
                        if want is None:
                            import re
                            m = re.match(r'<\?xml[^\n]+?encoding=["\']([^"\']+)["\'][^\n]*?\?>', doc[:2048])
                            want = m.group(1).lower() if m else ('utf-8' if inc else None)
                    kinds.add((want if want in (None, 'ValueError', 'utf-8') else 'enc', pos == 0))
                    if r != want:
                        ctx.violation('bounded: detectXMLEncoding = BOM, else declared encoding (lower-case), else utf-8/None', f'doc {doc[:50]!r} includeDefault={inc}: {r!r} != {want!r}',
                                      True, {'document': doc[:60], 'includeDefault': inc})
            if len(samples) < 2 and 'encoding' in h:
                samples.append({'document': doc[:60]})
    # getMetaInfo
    metas = [('<meta http-equiv="Content-Type" content="text/html;charset=ISO-8859-5">', ('text/html', 'iso-8859-5')),
             ('<META HTTP-EQUIV="content-type" CONTENT="application/xhtml+xml; charset=UTF-8"/>', ('application/xhtml+xml', 'utf-8')),
             ('<meta http-equiv="Content-Type" content="text/html">', ('text/html', None)),
             ('<meta name="x" content="text/html;charset=a">', (None, None)), ('<p>no meta</p>', (None, None)),
             ('<meta http-equiv="Content-Type" content="text/html;charset=first"><meta http-equiv="Content-Type" content="text/html;charset=second">', ('text/html', 'first'))]
    # every meta document also behind a long preamble (comments, a title, white space, other head elements): where the element stands in the
    # document makes no difference - the statement speaks of the first content-type meta element, not of the first so many characters
    preambles = ['', '<!DOCTYPE html>\n<html><head><title>' + 't' * 600 + '</title>\n', '<!-- ' + 'c' * 1100 + ' -->', ' ' * 1024, '\n' * 1500 + '<html><head><link rel="x" href="' + 'u' * 300 + '">',
                 '<html><head><script>/* ' + 's' * 4100 + ' */</script>']
    for (doc0, want), pre in itertools.product(metas, preambles):
        doc = pre + doc0
        n += 1
        got = E.getMetaInfo(doc)
        kinds.add(('meta', want[1] is None, len(pre) > 1000))
        if got != want:
            ctx.violation('bounded: getMetaInfo returns (media type, lower-case charset) of the first content-type meta element', f'{doc[:40]!r}...{doc0!r} (element at offset {len(pre)}): {got!r} != {want!r}', True, {'document': doc})
    # the answer for one document is a function of THAT document: whatever was examined before (a page cut off inside <style>, <script>, a
    # comment, an attribute value, a tag; a complete page) leaves nothing behind
    earlier = ['<html><head><style>a{', '<script>var x = "', '<!-- open comment', '<meta http-equiv="Content-Type" content="text/html;charset=', '<title>t', '<html><head><meta http-equiv="Content-Type" content="text/html;charset=earlier"></head></html>',
               '<textarea>', '<![CDATA[ x', '<?php ']
    for first in earlier:
        for doc0, want in metas:
            try:
                E.getMetaInfo(first)
            except Exception:  # noqa: BLE001  (what the first call does with a damaged page is not this clause)
                pass
            n += 1
            got = E.getMetaInfo(doc0)
            kinds.add(('meta after', first[:12], want[1] is None))
            if got != want:
                ctx.violation('bounded: getMetaInfo of a document does not depend on the documents examined before', f'after getMetaInfo({first!r}): getMetaInfo({doc0!r}) = {got!r} != {want!r}', True, {'history': [first, doc0]})
    # encodingByMediaType over the class table
    from bounded.c20 import MEDIA as _M
    for media, tt in _M:
        n += 1
        got = E.encodingByMediaType(media)
        if got != default_encoding(tt if media is not None else OTHER):
            ctx.violation('bounded: encodingByMediaType = documented default of the media-type class', f'{media!r}: {got!r}', True, {'media_type': media})
    ctx.bounded.append({'name': 'sniffers', 'evaluations': n, 'distinct_nontrivial': len(kinds),
                        'rule': 'detectXMLEncoding on 20 heads x 6 tails (incl. declaration look-alikes on later lines) x 4 stream positions x includeDefault against a native oracle; getMetaInfo on 6 meta documents x 6 preambles of up to 4 100 characters and after each of 9 earlier documents (cut-off pages), encodingByMediaType on the class table',
                        'samples': samples, 'bound': 'fixed document list'})
