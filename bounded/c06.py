"""C06 bounded stand-in: serializer preferences do exactly what they document, in every combination.

For every DOM d of the domain (abstract sheets of bounded/gen.py in several spellings + hand-written sheets with @variables, unknown at-rules holding bare
'-' '#' '@', calc(), !important, :not(), namespaces, duplicate / invalid / empty declarations + the token-adjacency family `adjacency_sources`: every ordered pair of
31 token classes (+ a block) as neighbours in an unknown at-rule, 6 compounds x 4 combinators x 11 compounds in selectors, 23 media lists on @media / nested @media /
@import, functions next to and inside each other in values + the URL-character family `urlchar_sources`: every character class that decides between url(x) and url("x")
(CSS white space literal and escaped, parentheses, ; , quotes, backslash, control characters, harmless ones) at the start / middle / end of an @import href (string and url() form)
and of url() values + the number grid `number_sources`: every number spelling sign x integer part x fraction x unit around the
thresholds -1, 0, 1 as list component, function argument and calc() operand) and every preference assignment P of the tier
(every preference alone with each non-default value, all pairs, the minified preset, the minified preset with each one of its preferences put back to the default,
a pairwise covering array over the full value domains, seeded random full assignments):

  CL_SER     d.cssText under P raises nothing
  CL_LINENO  lineNumbers=True only prefixes every line with its number: stripping the prefixes gives the output without the preference
  CL_WELL    the output is well-formed CSS: an independent token-level reading (`view`) finds balanced blocks, rules and 'name: value [!priority]' declarations
  CL_EFFECT  project(parse(output)) == projection(effects_P(x(d)))  - x(d) is the DOM read through public accessors, effects_P applies the documented effect of
             every content preference (`expected`): keepComments, keepUnknownAtRules, keepAllProperties, validOnly, resolveVariables, keepEmptyRules,
             keepUsedNamespaceRulesOnly; the spelling preferences leave the projection unchanged
  CL_SPELL   the spelling preferences show in the text exactly as documented (`spelling_faults`): literal vs normalised at-keyword / property name / priority,
             @import href as string or url(), hash shortening, leading zero (and nothing but a zero goes: the written numbers, read as decimal literals, are those of the
             source), last semicolon, variable names
  CL_LAYOUT  the layout preferences change white space only: the S-free token sequence equals that of the same assignment with the layout preferences reset
             (tokens read by the CSS grammar: an identifier glued to '(' is a FUNCTION token, also 'and(' which cssutils' own tokenizer forgives)
  CL_RESTORE prefs.useDefaults() restores the default output byte for byte (checked after every assignment)
  CL_FRAME   the documented preferences are exactly the attributes useDefaults() assigns; useMinified() assigns documented names only

The expected effect of each preference is written from the docstring of cssutils.serialize.Preferences (quoted next to each effect below).
DOMs whose DEFAULT round trip is not clean are C02/C03's business and are left out (counted as skipped).
"""
import json
import logging
import multiprocessing
import random
import re
import time

from bounded import gen

CL_SER = 'bounded: serialising under a preference assignment raises nothing'
CL_LINENO = 'bounded: lineNumbers only prefixes each line with its number'
CL_WELL = 'bounded: the output under a preference assignment is well-formed CSS'
CL_EFFECT = 'bounded: the reparsed output equals the DOM after the documented effects of the switched preferences'
CL_SPELL = 'bounded: the spelling preferences show in the output exactly as documented'
CL_LAYOUT = 'bounded: layout preferences change white space only (S-free token sequence unchanged)'
CL_RESTORE = 'bounded: useDefaults() restores the default output byte for byte'
CL_FRAME = 'bounded: the documented preferences are exactly the attributes of Preferences'

# ------------------------------------------------------------------------------------------------------------------ preferences
# name: (default, kind, non-default values)      kinds: filter (changes which nodes are written), spelling (how a node is written), layout, lineno
PREFS = {
    'defaultAtKeyword': (True, 'spelling', [False]),
    'defaultPropertyName': (True, 'spelling', [False]),
    'defaultPropertyPriority': (True, 'spelling', [False]),
    'importHrefFormat': (None, 'spelling', ['string', 'uri']),
    'indent': (4 * ' ', 'layout', ['', '  ', '\t']),
    'indentClosingBrace': (True, 'layout', [False]),
    'indentSpecificities': (False, 'layout', [True]),
    'keepAllProperties': (True, 'filter', [False]),
    'keepComments': (True, 'filter', [False]),
    'keepEmptyRules': (False, 'filter', [True]),
    'keepUnknownAtRules': (True, 'filter', [False]),
    'keepUsedNamespaceRulesOnly': (False, 'filter', [True]),
    'lineNumbers': (False, 'lineno', [True]),
    'lineSeparator': ('\n', 'layout', ['', '\r\n']),
    'listItemSpacer': (' ', 'layout', ['', '  ']),
    'minimizeColorHash': (True, 'spelling', [False]),
    'normalizedVarNames': (True, 'spelling', [False]),
    'omitLastSemicolon': (True, 'spelling', [False]),
    'omitLeadingZero': (False, 'spelling', [True]),
    'paranthesisSpacer': (' ', 'layout', ['', '\t']),
    'propertyNameSpacer': (' ', 'layout', ['', '  ']),
    'resolveVariables': (True, 'filter', [False]),
    'selectorCombinatorSpacer': (' ', 'layout', ['', '  ']),
    'spacer': (' ', 'layout', ['', '  ']),
    'validOnly': (False, 'filter', [True]),
}
NAMES = sorted(PREFS)
LAYOUT = [n for n in NAMES if PREFS[n][1] in ('layout', 'lineno')]
DEFAULTS = {n: PREFS[n][0] for n in NAMES}


def full(assign):
    d = dict(DEFAULTS)
    d.update(assign)
    return d


def key(assign):
    return tuple(sorted((k, repr(v)) for k, v in assign.items() if v != DEFAULTS[k]))


def assignments(tier, seed):
    """[(label, partial assignment)] - deterministic"""
    out = [('defaults', {})]
    for n in NAMES:
        for v in PREFS[n][2]:
            out.append(('single', {n: v}))
    out.append(('minified', 'MINIFIED'))
    # the minified preset with ONE of its preferences put back to the default: the preset switches 12 preferences at once, among them filters (comments, unknown at-rules) that
    # hide what the empty spacers do to the constructs they drop
    from cssutils.serialize import Preferences
    q = Preferences()
    q.useMinified()
    for n in NAMES:
        if getattr(q, n, DEFAULTS[n]) != DEFAULTS[n]:
            out.append(('minified-but-one', ('MINIFIED', n)))
    domains = [[PREFS[n][0]] + PREFS[n][2] for n in NAMES]
    for row in gen.pairwise_rows(domains, seed):
        out.append(('pairwise-row', dict(zip(NAMES, row))))
    rnd = random.Random(seed + 6)
    for i in range(8 if tier != 'thorough' else 40):
        out.append(('random', {n: rnd.choice([PREFS[n][0]] + PREFS[n][2]) for n in NAMES}))
    if tier == 'thorough':
        for i, a in enumerate(NAMES):
            for b in NAMES[i + 1:]:
                for va in PREFS[a][2]:
                    for vb in PREFS[b][2]:
                        out.append(('pair', {a: va, b: vb}))
    seen = set()
    res = []
    for label, a in out:
        k = a if isinstance(a, (str, tuple)) else key(a)
        if k in seen and label != 'defaults':
            continue
        seen.add(k)
        res.append((label, a))
    return res


def apply(prefs, assign):
    prefs.useDefaults()
    if assign == 'MINIFIED':
        prefs.useMinified()
        return {n: getattr(prefs, n) for n in NAMES}
    if isinstance(assign, tuple) and assign[0] == 'MINIFIED':
        prefs.useMinified()
        setattr(prefs, assign[1], DEFAULTS[assign[1]])
        return {n: getattr(prefs, n) for n in NAMES}
    for k, v in assign.items():
        setattr(prefs, k, v)
    return full(assign)


# ---------------------------------------------------------------------------------------------- an independent token-level reading

class Malformed(Exception):
    pass


ATTYPES = ('ATKEYWORD', 'IMPORT_SYM', 'MEDIA_SYM', 'PAGE_SYM', 'FONT_FACE_SYM', 'NAMESPACE_SYM', 'VARIABLES_SYM', 'CHARSET_SYM')
_TOKENIZER = [None]


def tokens(text, comments=True):
    """(type, value) of every token of text but S (and COMMENT).
    Read by the CSS grammar, not by the forgiving one of cssutils: an identifier IMMEDIATELY followed by '(' is one FUNCTION token (CSS 2.1 4.1.1 `FUNCTION {ident}\\(`).
    cssutils' tokenizer exempts the identifier 'and' from that rule so that the malformed media query 'screen and(color)' (Media Queries 3, section 3.1: "having no space
    between 'and' and the expression is not allowed") is still read; for a well-formed output the blank must be there, so here 'and(' is the FUNCTION token it is."""
    if _TOKENIZER[0] is None:
        from cssutils.tokenize2 import Tokenizer
        _TOKENIZER[0] = Tokenizer
    out = []
    glued = False   # the previous raw token is an IDENT and nothing stands between it and this token
    for t in _TOKENIZER[0]().tokenize(text):
        ty, v = t[0], t[1]
        if glued and ty == 'CHAR' and v == '(':
            out[-1] = ('FUNCTION', out[-1][1] + '(')
            glued = False
            continue
        glued = ty == 'IDENT'
        if ty != 'S' and (comments or ty != 'COMMENT'):
            out.append((ty, v))
    return out


def view(text):
    """well-formedness + spelling view of a style sheet text: [node]
    node: {'k': 'style', 'prelude': toks, 'items': [...]} | {'k': 'at', 'type': token type, 'kw': text, 'prelude': toks, 'end': ';' | '{', + 'rules' | 'items' | 'opaque'}
    item: {'k': 'decl', 'name': text, 'value': toks, 'prio': toks, 'semi': bool} | nested 'at' node
    raises Malformed when the text is not a sequence of rules with balanced blocks and well-formed declarations"""
    t = tokens(text, comments=False)
    n = len(t)

    def is_char(i, c):
        return i < n and t[i][0] == 'CHAR' and t[i][1] == c

    def prelude(i, stops):
        depth = []
        out = []
        while i < n:
            ty, v = t[i]
            if ty == 'CHAR' and not depth and v in stops:
                return out, i
            if ty == 'FUNCTION' or (ty == 'CHAR' and v in '(['):
                depth.append(')' if ty == 'FUNCTION' or v == '(' else ']')
            elif ty == 'CHAR' and v in ')]':
                if not depth or depth[-1] != v:
                    raise Malformed('unbalanced %r in %r' % (v, [x[1] for x in out[-6:]]))
                depth.pop()
            elif ty == 'CHAR' and v in '{}' and depth:
                raise Malformed('brace inside parentheses')
            elif ty == 'INVALID':
                raise Malformed('unterminated string %r' % v)
            out.append(t[i])
            i += 1
        return out, i

    def skip_block(i):
        # i at '{' -> index behind the matching '}'
        depth = 0
        while i < n:
            if is_char(i, '{'):
                depth += 1
            elif is_char(i, '}'):
                depth -= 1
                if depth == 0:
                    return i + 1
            elif t[i][0] == 'INVALID':
                raise Malformed('unterminated string %r' % (t[i][1],))
            i += 1
        raise Malformed('unbalanced { in an unknown at-rule')

    def at_rule(i, in_page=False, in_decls=False):
        ty, kw = t[i]
        pre, j = prelude(i + 1, ';{}')
        node = {'k': 'at', 'type': ty, 'kw': kw, 'prelude': pre}
        if j >= n or is_char(j, '}'):
            if ty == 'ATKEYWORD':
                # an unknown at-rule may be ended by the end of its block / of the sheet
                node['end'] = ''
                return node, j
            raise Malformed('%s without ; or block' % kw)
        if is_char(j, ';'):
            node['end'] = ';'
            if ty in ('MEDIA_SYM', 'PAGE_SYM', 'FONT_FACE_SYM', 'VARIABLES_SYM'):
                raise Malformed('%s without block' % kw)
            return node, j + 1
        node['end'] = '{'
        if ty in ('IMPORT_SYM', 'NAMESPACE_SYM', 'CHARSET_SYM'):
            raise Malformed('%s with a block' % kw)
        if ty == 'MEDIA_SYM':
            node['rules'], j = rule_list(j + 1, True)
            return node, j
        if ty in ('PAGE_SYM', 'FONT_FACE_SYM', 'VARIABLES_SYM') or (ty == 'ATKEYWORD' and in_page):
            node['items'], j = decl_block(j + 1, ty == 'PAGE_SYM')
            return node, j
        node['opaque'] = True
        end = skip_block(j)
        node['block'] = t[j:end]
        return node, end

    def decl_block(i, page=False):
        items = []
        while True:
            if i >= n:
                raise Malformed('declaration block not closed')
            if is_char(i, '}'):
                return items, i + 1
            if is_char(i, ';'):
                if not items or items[-1]['k'] != 'decl' or items[-1]['semi']:
                    raise Malformed('empty declaration (stray ;)')
                items[-1]['semi'] = True
                i += 1
                continue
            if items and items[-1]['k'] == 'decl' and not items[-1]['semi']:
                raise Malformed('declaration %r not separated from the next by ;' % items[-1]['name'])
            if t[i][0] in ATTYPES:
                node, i = at_rule(i, in_page=page, in_decls=True)
                items.append(node)
                continue
            body, j = prelude(i, ';}')
            if len(body) < 2 or body[0][0] != 'IDENT' or body[1] != ('CHAR', ':'):
                raise Malformed('not a declaration: %r' % ([x[1] for x in body[:6]],))
            value, prio = body[2:], []
            for k, tok in enumerate(body[2:]):
                if tok == ('CHAR', '!'):
                    value, prio = body[2:2 + k], body[3 + k:]
                    break
            if not value:
                raise Malformed('declaration %r without value' % body[0][1])
            if prio and (len(prio) != 1 or prio[0][0] != 'IDENT'):
                raise Malformed('priority %r' % ([x[1] for x in prio],))
            items.append({'k': 'decl', 'name': body[0][1], 'value': value, 'prio': prio, 'semi': False})
            i = j

    def rule_list(i, nested):
        nodes = []
        while i < n:
            ty, v = t[i]
            if ty in ('CDO', 'CDC') and not nested:
                i += 1
                continue
            if ty == 'CHAR' and v == '}':
                if nested:
                    return nodes, i + 1
                raise Malformed('stray }')
            if ty in ATTYPES:
                node, i = at_rule(i)
                nodes.append(node)
                continue
            pre, j = prelude(i, '{};')
            if not is_char(j, '{') or not pre:
                raise Malformed('rule without block: %r' % ([x[1] for x in pre[:8]],))
            items, i = decl_block(j + 1)
            nodes.append({'k': 'style', 'prelude': pre, 'items': items})
        if nested:
            raise Malformed('@media block not closed')
        return nodes, i

    nodes, _ = rule_list(0, False)
    return nodes


def walk(nodes):
    """pre-order over rules and nested at-rules of a view"""
    for nd in nodes:
        yield nd
        for sub in nd.get('rules', ()):
            yield from walk([sub])
        for it in nd.get('items', ()):
            if it['k'] == 'at':
                yield from walk([it])


# ------------------------------------------------------------------------------------------------ x(d): the DOM with its literals

class Skip(Exception):
    """the DOM is outside the domain of this check (the source is not read as written: C02's business)"""


def _norm(s):
    return re.sub(r'\\(?![0-9a-fA-F])', '', s).lower()


_KIND_OF_TYPE = {'CHARSET_SYM': 'charset', 'IMPORT_SYM': 'import', 'NAMESPACE_SYM': 'namespace', 'MEDIA_SYM': 'media', 'PAGE_SYM': 'page', 'FONT_FACE_SYM': 'fontface',
                 'VARIABLES_SYM': 'variables', 'ATKEYWORD': 'unknown'}


def xsheet(dom, src):
    """the parsed sheet through public accessors + the literal spellings of the source: list of x-nodes (dicts)"""
    return _xrules(list(dom.cssRules), view(src))


def _xrules(rules, vnodes):
    out = []
    vi = iter(vnodes)
    for r in rules:
        p = gen.project_rule(r)
        k = p[0]
        if k == 'comment':
            out.append({'k': 'comment', 'text': p[1]})
            continue
        v = next(vi, None)
        if v is None:
            raise Skip('source has fewer rules than the DOM')
        if k == 'style':
            if v['k'] != 'style':
                raise Skip('rule kinds differ')
            out.append({'k': 'style', 'selectors': p[1], 'items': _xitems(r.style, v['items'])})
            continue
        if v['k'] != 'at' or _KIND_OF_TYPE.get(v['type']) != k:
            raise Skip('rule kinds differ')
        node = {'k': k, 'kw': v['kw'], 'p': p}
        if k == 'import':
            node['hreftype'] = r.hreftype
        elif k == 'media':
            node['rules'] = _xrules(list(r.cssRules), v['rules'])
        elif k == 'page':
            props = [it for it in v['items'] if it['k'] == 'decl']
            margins = [it for it in v['items'] if it['k'] == 'at']
            node['items'] = _xitems(r.style, props)
            node['margins'] = []
            if len(margins) != len(r.cssRules):
                raise Skip('margin rules differ')
            for m, mv in zip(r.cssRules, margins):
                node['margins'].append({'k': 'margin', 'name': m.margin, 'kw': mv['kw'], 'items': _xitems(m.style, mv['items'])})
        elif k == 'fontface':
            node['items'] = _xitems(r.style, v['items'])
        elif k == 'variables':
            names = [it['name'] for it in v['items'] if it['k'] == 'decl']
            keys = list(r.variables.keys())
            if [_norm(x) for x in names] != keys:
                raise Skip('variable names differ')
            node['vars'] = [(lit, key_, r.variables.getVariableValue(key_)) for lit, key_ in zip(names, keys)]
        out.append(node)
    if next(vi, None) is not None:
        raise Skip('source has more rules than the DOM')
    return out


def _xitems(style, vitems):
    out = []
    vi = iter([it for it in vitems if it['k'] == 'decl'])
    for ch in style.children():
        if hasattr(ch, 'propertyValue'):
            v = next(vi, None)
            if v is None:
                raise Skip('source has fewer declarations than the DOM')
            if _norm(v['name']) != ch.name:
                raise Skip('declaration names differ')
            if ch.priority not in ('', 'important'):
                raise Skip('priority')
            out.append({'k': 'decl', 'name': ch.name, 'value': gen.project_value(ch.propertyValue), 'important': ch.priority == 'important', 'litname': ch.literalname,
                        'litprio': ch.literalpriority, 'valid': bool(ch.valid), 'src': v})
        elif ch.__class__.__name__ == 'CSSComment':
            out.append({'k': 'comment', 'text': gen._comment_text(ch.cssText)})
        else:
            raise Skip('declaration block item %s' % ch.__class__.__name__)
    if next(vi, None) is not None:
        raise Skip('source has more declarations than the DOM')
    return out


# ------------------------------------------------------------------------------------------- the documented effects (expected DOM)

def _effective(items):
    """keepAllProperties=False: "If True all properties set in the original CSSStylesheet are kept meaning even properties set twice with the exact same
    same name are kept" - so False keeps, per name, only the declaration that takes effect: the last important one, else the last one"""
    best = {}
    for i, it in enumerate(items):
        if it['k'] != 'decl':
            continue
        cur = best.get(it['name'])
        if cur is None or it['important'] >= items[cur]['important']:
            best[it['name']] = i
    keep = set(best.values())
    return [it for i, it in enumerate(items) if it['k'] != 'decl' or i in keep]


def _resolve_value(value, variables):
    """resolveVariables=True: "all variable references are tried to resolved ... Any variable reference not resolvable is simply kept untouched" """
    out = []
    for sep, comp in value:
        if comp[0] == 'var' and comp[1].lower() in variables:
            repl = variables[comp[1].lower()]
            for j, (s2, c2) in enumerate(repl):
                out.append((sep if j == 0 else s2, c2))
        elif comp[0] == 'function':
            out.append((sep, ('function', comp[1], _resolve_value(comp[2], variables))))
        else:
            out.append((sep, comp))
    return tuple(out)


def _has_var(value):
    return any(c[0] == 'var' or (c[0] == 'function' and _has_var(c[2])) for _, c in value)


def _items_effect(items, P, variables, quirks=()):
    if items:
        # remember which item is the last one of the DOM block (the recorded last-semicolon finding is about items dropped behind the last written declaration)
        items = [dict(it, dom_last=(i == len(items) - 1)) for i, it in enumerate(items)]
    if not P['keepAllProperties']:
        items = _effective(items)
    out = []
    for it in items:
        if it['k'] == 'comment':
            # keepComments=False: "If False removes all CSSComments"
            if P['keepComments']:
                out.append(it)
            continue
        # validOnly=True: "if True only valid (Properties) are output. A Property is valid if it is a known Property with a valid value."
        if P['validOnly'] and not it['valid']:
            continue
        if 'validvar' in quirks and P['validOnly'] and not P['resolveVariables'] and _has_var(it['value']):
            continue   # model of the recorded finding C06-validonly-unresolved-variable
        if P['resolveVariables'] and variables:
            it = dict(it, value=_resolve_value(it['value'], variables))
        out.append(it)
    return out


def _variables_of(x, cssutils):
    """name -> projected value of every variable of the sheet (later rules win)"""
    out = {}
    for nd in x:
        if nd['k'] == 'variables':
            for lit, key_, text in nd['vars']:
                out[key_] = gen.project_value(cssutils.css.PropertyValue(text))
    return out


def _rules_effect(x, P, variables, quirks=()):
    out = []
    for nd in x:
        k = nd['k']
        if k == 'comment':
            if P['keepComments']:
                out.append(nd)
            continue
        if k == 'unknown':
            # keepUnknownAtRules=False: "defines if unknown @rules like e.g. @three-dee {} are kept in the serialized sheet"
            if P['keepUnknownAtRules']:
                out.append(nd)
            continue
        if k == 'variables':
            # resolveVariables=True: "... and all CSSVariablesRules are removed from the output"
            if not P['resolveVariables']:
                out.append(nd)
            continue
        if k == 'style':
            nd = dict(nd, items=_items_effect(nd['items'], P, variables, quirks))
            # keepEmptyRules=False: "defines if empty rules like e.g. a {} are kept in the resulting serialized sheet"
            if nd['items'] or P['keepEmptyRules']:
                out.append(nd)
            continue
        if k == 'media':
            nd = dict(nd, rules=_rules_effect(nd['rules'], P, variables, quirks))
            if nd['rules'] or P['keepEmptyRules']:
                out.append(nd)
            continue
        if k == 'page':
            margins = []
            for m in nd['margins']:
                m = dict(m, items=_items_effect(m['items'], P, variables, quirks))
                if m['items'] or (P['keepEmptyRules'] and 'emptyblock' not in quirks):
                    margins.append(m)
            nd = dict(nd, items=_items_effect(nd['items'], P, variables, quirks), margins=margins)
            if nd['items'] or nd['margins'] or (P['keepEmptyRules'] and 'emptyblock' not in quirks):   # quirk: model of C06-keepemptyrules-page-fontface
                out.append(nd)
            continue
        if k == 'fontface':
            nd = dict(nd, items=_items_effect(nd['items'], P, variables, quirks))
            if nd['items'] or (P['keepEmptyRules'] and 'emptyblock' not in quirks):
                out.append(nd)
            continue
        out.append(nd)   # charset, import, namespace
    return out


def _uris(x, acc, depth=99):
    """the namespace URIs the selectors of the written style rules refer to (selector projection form of gen.py: typesel = (uri, name), ('attr', uri, ...),
    ('not', ('type', typesel) | simple))"""
    def real(u):
        return isinstance(u, str) and u not in ('', gen.ANY)

    def simple(s):
        if s[0] == 'attr' and real(s[1]):
            acc.add(s[1])
        elif s[0] == 'not':
            inner = s[1]
            if inner[0] == 'type':
                if real(inner[1][0]):
                    acc.add(inner[1][0])
            else:
                simple(inner)

    for nd in x:
        if nd['k'] == 'style':
            for sel in nd['selectors']:
                if not (isinstance(sel, tuple) and sel and sel[0] != 'raw'):
                    continue
                for _comb, (ts, simples) in sel:
                    if ts is not None and real(ts[0]):
                        acc.add(ts[0])
                    for sm in simples:
                        simple(sm)
        elif nd['k'] == 'media' and depth > 0:
            _uris(nd['rules'], acc, depth - 1)
    return acc


def _without_default_ns(x, uri):
    def comp(cp):
        ts, simples = cp
        if ts is not None and ts[0] == uri:
            ts = (None, ts[1])
        return (ts, tuple(('not', ('type', (None, sm[1][1][1]))) if sm[0] == 'not' and sm[1][0] == 'type' and sm[1][1][0] == uri else sm for sm in simples))
    out = []
    for nd in x:
        if nd['k'] == 'style':
            nd = dict(nd, selectors=tuple(tuple((c, comp(cp)) for c, cp in sel) if isinstance(sel, tuple) and sel and sel[0] != 'raw' else sel for sel in nd['selectors']))
        elif nd['k'] == 'media':
            nd = dict(nd, rules=_without_default_ns(nd['rules'], uri))
        out.append(nd)
    return out


def expected(x, P, cssutils, quirks=()):
    """-> list of admissible expected x-trees (more than one only where the documentation leaves a choice)"""
    variables = _variables_of(x, cssutils) if P['resolveVariables'] else {}
    y = _rules_effect(x, P, variables, quirks)
    if not P['keepUsedNamespaceRulesOnly']:
        return [y]
    # keepUsedNamespaceRulesOnly=True: "if True only namespace rules which are actually used are kept"; a namespace used only by rules that are not written may go or stay
    before, after = _uris(x, set()), _uris(y, set())
    if 'nsnested' in quirks:
        # model of the recorded finding C06-used-namespace-nested-media: selectors below the first @media level are not looked at
        before, after = _uris(x, set(), 1), _uris(y, set(), 1)
    must_drop = [nd for nd in y if nd['k'] == 'namespace' and nd['p'][2] not in before]
    if 'nsnested' in quirks:
        # ... and with the default namespace rule gone the type selectors it applied to are read without namespace
        for m in must_drop:
            if not m['p'][1]:
                y = _without_default_ns(y, m['p'][2])
    may_drop = [nd for nd in y if nd['k'] == 'namespace' and nd['p'][2] in before and nd['p'][2] not in after]
    base = [nd for nd in y if not any(nd is m for m in must_drop)]
    if not may_drop:
        return [base]
    return [base, [nd for nd in base if not any(nd is m for m in may_drop)]]


def projection(x):
    """x-tree -> the projection form of bounded/gen.py"""
    out = []
    for nd in x:
        k = nd['k']
        if k == 'comment':
            out.append(('comment', nd['text']))
        elif k == 'style':
            out.append(('style', nd['selectors'], _pitems(nd['items'])))
        elif k == 'media':
            out.append(('media', nd['p'][1], projection(nd['rules'])))
        elif k == 'page':
            out.append(('page', nd['p'][1], _pitems(nd['items']), tuple(('margin', m['name'], _pitems(m['items'])) for m in nd['margins'])))
        elif k == 'fontface':
            out.append(('fontface', _pitems(nd['items'])))
        else:
            out.append(nd['p'])
    return tuple(out)


def _pitems(items):
    return tuple(('comment', it['text']) if it['k'] == 'comment' else ('decl', it['name'], it['value'], it['important']) for it in items)


_LENGTH_UNITS = ('cm', 'mm', 'in', 'px', 'pc', 'pt', 'em', 'ex')


def norm_zero(p):
    """a zero length and the number 0 denote the same value (the serializer writes 0px as 0 on purpose, C18)"""
    if isinstance(p, tuple):
        if len(p) == 3 and p[0] == 'dimension' and p[1] == 0 and p[2] in _LENGTH_UNITS:
            return ('number', 0.0)
        return tuple(norm_zero(x) for x in p)
    return p


# ------------------------------------------------------------------------------------------------ the spelling clauses on the text

_RESERVED = {'charset': '@charset', 'import': '@import', 'namespace': '@namespace', 'media': '@media', 'page': '@page', 'fontface': '@font-face', 'variables': '@variables'}
_NUMTOK = re.compile(r'^([+-]?)(\d*)(?:\.(\d+))?')


def _decl_pairs(xitems, vitems):
    xd = [it for it in xitems if it['k'] == 'decl']
    vd = [it for it in vitems if it['k'] == 'decl']
    if len(xd) != len(vd):
        raise Malformed('%d declarations written, %d expected' % (len(vd), len(xd)))
    return list(zip(xd, vd))


def spelling_faults(y, v, P):
    """y: expected x-tree, v: view of the output -> [detail]"""
    out = []
    yn = [nd for nd in y if nd['k'] != 'comment']
    if len(yn) != len(v):
        return ['%d rules written, %d expected' % (len(v), len(yn))]
    for nd, vn in zip(yn, v):
        k = nd['k']
        if k == 'style':
            if vn['k'] != 'style':
                return ['rule kinds differ']
            out += _decl_faults(nd['items'], vn['items'], P, False)
            continue
        if vn['k'] != 'at':
            return ['rule kinds differ']
        # defaultAtKeyword: "Should the literal @keyword from src CSS be used or the default form, e.g. if True: @import else: @i\\mport"
        if k == 'unknown':
            want = [nd['p'][1]]
        elif k == 'charset':
            want = ['@charset ']
        else:
            want = [_RESERVED[k]] if P['defaultAtKeyword'] else [nd['kw']]
        if vn['kw'] not in want:
            out.append('at-keyword %r written, documented: %r (defaultAtKeyword=%r, source %r)' % (vn['kw'], want[0], P['defaultAtKeyword'], nd.get('kw')))
        if k == 'import':
            # importHrefFormat: "Uses hreftype if None or format "URI" if 'string' or format url(URI) if 'uri'"
            fmt = P['importHrefFormat']
            wt = 'STRING' if fmt == 'string' or (fmt is None and nd['hreftype'] == 'string') else 'URI'
            got = vn['prelude'][0][0] if vn['prelude'] else None
            if got != wt:
                out.append('@import href written as %s, documented: %s (importHrefFormat=%r, hreftype %r)' % (got, wt, fmt, nd['hreftype']))
        elif k == 'media':
            out += spelling_faults(nd['rules'], vn['rules'], P)
        elif k == 'page':
            props = [it for it in vn['items'] if it['k'] == 'decl']
            margins = [it for it in vn['items'] if it['k'] == 'at']
            out += _decl_faults(nd['items'], props, P, bool(nd['margins']))
            if len(margins) != len(nd['margins']):
                out.append('%d margin rules written, %d expected' % (len(margins), len(nd['margins'])))
            else:
                for m, mv in zip(nd['margins'], margins):
                    want = m['name'] if P['defaultAtKeyword'] else m['kw']
                    if mv['kw'] != want:
                        out.append('margin at-keyword %r written, documented: %r (defaultAtKeyword=%r)' % (mv['kw'], want, P['defaultAtKeyword']))
                    out += _decl_faults(m['items'], mv['items'], P, False)
        elif k == 'fontface':
            out += _decl_faults(nd['items'], vn['items'], P, False)
        elif k == 'variables':
            names = [it['name'] for it in vn['items'] if it['k'] == 'decl']
            # normalizedVarNames: "defines if variable names should be serialized normalized (they are used as being normalized anyway)"
            want = [key_ if P['normalizedVarNames'] else lit for lit, key_, _ in nd['vars']]
            if names != want:
                out.append('variable names %r written, documented: %r (normalizedVarNames=%r)' % (names, want, P['normalizedVarNames']))
            out += _semicolon_faults([it for it in vn['items'] if it['k'] == 'decl'], P, True, False)
    return out


def _decl_faults(xitems, vitems, P, page_with_margins):
    out = []
    try:
        pairs = _decl_pairs(xitems, vitems)
    except Malformed as e:
        return [str(e)]
    for xd, vd in pairs:
        # defaultPropertyName: "Should the normalized propertyname be used or the one given in the src file ... Only used if keepAllProperties==False."
        if not P['keepAllProperties']:
            want = xd['name'] if P['defaultPropertyName'] else xd['litname']
            if vd['name'] != want:
                out.append('property name %r written, documented: %r (defaultPropertyName=%r, keepAllProperties=False)' % (vd['name'], want, P['defaultPropertyName']))
        elif vd['name'] not in (xd['name'], xd['litname']):
            out.append('property name %r written, source has %r' % (vd['name'], xd['litname']))
        # defaultPropertyPriority: "Should the normalized or literal priority be used, e.g. !important or !Im\\portant"
        if xd['important']:
            want = 'important' if P['defaultPropertyPriority'] else xd['litprio']
            got = vd['prio'][0][1] if vd['prio'] else None
            if got != want:
                out.append('priority %r written, documented: %r (defaultPropertyPriority=%r)' % (got, want, P['defaultPropertyPriority']))
        elif vd['prio']:
            out.append('priority %r written for a declaration without priority' % (vd['prio'],))
        out += _value_faults(xd, vd, P)
    last_is_decl = bool(xitems) and xitems[-1]['k'] == 'decl'
    sf = _semicolon_faults([it for it in vitems if it['k'] == 'decl'], P, last_is_decl, page_with_margins)
    if sf and last_is_decl and P['omitLastSemicolon'] and not xitems[-1].get('dom_last', True):
        sf = [d + ' [an item that is not written follows it in the DOM]' for d in sf]
    out += sf
    return out


def _semicolon_faults(vdecls, P, last_is_decl, page_with_margins):
    """omitLastSemicolon: "If True omits ; after last property of CSSStyleDeclaration" """
    if not vdecls:
        return []
    out = []
    if not P['omitLastSemicolon'] and not vdecls[-1]['semi']:
        out.append('no ; after the last declaration %r although omitLastSemicolon=False' % vdecls[-1]['name'])
    if P['omitLastSemicolon'] and vdecls[-1]['semi'] and last_is_decl and not page_with_margins:
        out.append('; after the last declaration %r although omitLastSemicolon=True' % vdecls[-1]['name'])
    return out


def _hashes(toks):
    return [v for ty, v in toks if ty == 'HASH']


def _numbers(toks):
    return [v for ty, v in toks if ty in ('NUMBER', 'DIMENSION', 'PERCENTAGE')]


def _decimal(tok):
    """the decimal number a NUMBER / DIMENSION / PERCENTAGE token text starts with (exact, up to six fractional digits - beyond that C18 has the say), else None"""
    import decimal
    m = _NUMTOK.match(tok)
    if not m or not (m.group(2) or m.group(3)) or len(m.group(3) or '') > 6:
        return None
    return decimal.Decimal(m.group(1) + (m.group(2) or '0') + '.' + (m.group(3) or '0'))


def _value_faults(xd, vd, P):
    out = []
    # minimizeColorHash: "defines if colorhash should be minimized from full size to shorthand e.g minimize #FFFFFF to #FFF"
    src, got = _hashes(xd['src']['value']), _hashes(vd['value'])
    if len(src) == len(got) and not any(c[0] == 'var' for _, c in xd['value']):
        for s, g in zip(src, got):
            short = len(s) == 7 and s[1] == s[2] and s[3] == s[4] and s[5] == s[6]
            want = ('#' + s[1] + s[3] + s[5]) if (short and P['minimizeColorHash']) else s
            if g.lower() != want.lower():
                out.append('hash %r written for the source %r, documented: %r (minimizeColorHash=%r)' % (g, s, want, P['minimizeColorHash']))
    # omitLeadingZero: "defines if values between -1 and 1 should omit the 0, like .5px" - a zero is all that may go: read as decimal literals (independently of cssutils'
    # number handling) the written numbers are the numbers of the source, under every assignment
    srcn, gotn = _numbers(xd['src']['value']), _numbers(vd['value'])
    if len(srcn) == len(gotn) and not _has_var(xd['value']):
        for s, g in zip(srcn, gotn):
            ds, dg = _decimal(s), _decimal(g)
            if ds is not None and dg is not None and ds != dg:
                out.append('number %r written for the source %r: a different number (omitLeadingZero=%r)' % (g, s, P['omitLeadingZero']))
    for g in _numbers(vd['value']):
        m = _NUMTOK.match(g)
        if not m or m.group(3) is None:
            continue
        intpart = m.group(2)
        if int(intpart or '0') == 0 and int(m.group(3)) != 0:
            if P['omitLeadingZero'] and intpart != '':
                out.append('number %r keeps its leading zero although omitLeadingZero=True' % g)
            if not P['omitLeadingZero'] and intpart == '':
                out.append('number %r has no leading zero although omitLeadingZero=False' % g)
    return out


# -------------------------------------------------------------------------------------------------------------- line numbers

def strip_linenumbers(text, sep):
    """-> text without the 'n: ' prefixes, or raises Malformed"""
    lines = text.split(sep) if sep else [text]
    pad = len(str(len(lines)))
    out = []
    for i, ln in enumerate(lines):
        prefix = '%*d: ' % (pad, i + 1)
        if not ln.startswith(prefix):
            raise Malformed('line %d does not start with %r: %r' % (i + 1, prefix, ln[:20]))
        out.append(ln[len(prefix):])
    return sep.join(out)


# ------------------------------------------------------------------------------------------------------------------ the DOMs

EXTRA = [
    ('variables', '@variables { c1: red; L: 1px; Mixed: 2em } a { color: var(c1); margin: var(L) 2px var(mixed); x: var(undef) } b { color: var(C1) }'),
    ('variables-media', '@variables { w: 10px } @media print { a { width: var(w) } } @page { margin: var(w) }'),
    ('variables-only', '@variables { c1: red }'),
    ('variables-function', '@variables { n: 3 } a { x: f(var(n), 1) }'),
    ('unknown-bare', '@foo - # @ ; a { color: red }'),
    ('unknown-bare-block', '@foo a - b { c # d @ e ; - } a { color: red }'),
    ('unknown-minus-ident', '@foo -a -1 - 1 a-b ; @bar +1 + 1 ;'),
    ('unknown-in-media', '@media print { @foo - # @ ; a { color: red } }'),
    ('calc', 'a { width: calc(1px + 2em * 3 - 4% / 5); height: calc( 100% - 10px ); margin: calc(1px + -2px) 0.5em -0.25px .75% }'),
    ('important', 'a { color: red !important; COLOR: blue ! IMPORTANT ; c\\olor: green !Im\\portant; top: 1px }'),
    ('not', '*:not(.a):not(b) > c:not([x=y]) + d:not(:hover) ~ e:not(#i) f { color: red }'),
    ('namespaces', '@namespace p "http://example.org/p"; @namespace q "http://example.org/q"; @namespace "http://example.org/d"; p|a, *|b, |c, d, [p|x=y] { color: red }'),
    ('namespaces-unused', '@namespace p "http://example.org/p"; @namespace q "http://example.org/q"; a { color: red }'),
    ('namespaces-used-in-empty', '@namespace p "http://example.org/p"; p|a { } b { color: red }'),
    ('namespaces-used-in-media', '@namespace p "http://example.org/p"; @media print { p|a { color: red } }'),
    ('namespaces-nested-media', '@namespace "http://example.org/d"; @media screen { @media print { a { color: red } } b { top: 0 } }'),
    ('namespaces-nested-media-prefix', '@namespace p "http://example.org/p"; @media screen { @media print { p|a { color: red } } }'),
    ('namespace-default-only', '@namespace "http://example.org/d"; a { color: red } .c { top: 0 }'),
    ('duplicates', 'a { color: red; color: blue; COLOR: green; top: 1px; top: 2px !important; top: 3px; left: 0 }'),
    ('duplicates-comments', 'a { color: red; /*1*/ color: blue /*2*/ ; /*3*/ }'),
    ('invalid', 'a { color: 1px; top: red; left: 1px; unknown-prop: x; display: block }'),
    ('invalid-only', 'a { color: 1px } b { top: 1px }'),
    ('invalid-fontface', '@font-face { font-family: x; src: url(y); color: 1px; bogus: 1 }'),
    ('invalid-page', '@page { margin: 1cm; color: 1px; @top-left { content: "x"; bogus: 1 } }'),
    ('empty', 'a { } b { /*c*/ } @media print { } @media screen { c { } } @page { } @font-face { } d { top: 1px }'),
    ('comments', '/*0*/ a /*1*/ , /*2*/ b { /*3*/ color /*4*/ : /*5*/ red /*6*/ ; /*7*/ } /*8*/ @media /*9*/ print /*10*/ { /*11*/ a { top: 1px } /*12*/ }'),
    ('comments-semicolon', 'a { color: red; /*last*/ } b { /*first*/ color: red } c { color: red /*in*/ }'),
    ('hash', 'a { color: #aabbcc; background: #AABBCC #abc #aabbcd #112233 #FFF; border-color: #a1b2c3 }'),
    ('hash-id', '#aabbcc, #abc { color: #ffffff }'),
    ('zeros', 'a { opacity: 0.5; margin: -0.5px .5em 0.0 00.50% 1.50 10.0px -.25em +0.5px 0.05 }'),
    ('import', '@import "a.css"; @import url(b.css); @import url("c d.css") print, screen; @import \'e.css\' "name";'),
    ('import-case', '@IMPORT "a.css"; @i\\mport url(b.css); @NAMESPACE p "u"; @MEDIA print { a { top: 1px } } @Page { margin: 1cm } @FONT-FACE { font-family: x }'),
    ('charset', '@charset "utf-8"; a { content: "\xe9" }'),
    ('charset-latin', '@charset "iso-8859-1"; a { content: "\xe9€" }'),
    ('strings', 'a { content: "a" "b" \'c\'; font-family: "A B", serif, "x"; quotes: "\\"" "\'" }'),
    ('adjacent', 'a { font: 12px/1.5 "A B",serif; margin: -1px -2px; x: a b "c" d url(e) f }'),
    ('selectors', 'a b > c + d ~ e, f.g#h[i="j k"]:hover::after , * { top: 1px }'),
    ('media-queries', '@media screen and (min-width: 100px) and (max-width: 200px), not print, only tv and (color) { a { top: 1px } }'),
    ('media-nested', '@media screen { a { top: 1px } @media print { b { top: 2px } @page { margin: 0 } } c { top: 3px } }'),
    ('page', '@page :first { margin: 1cm; @top-left { content: "x" } @bottom-right { content: "y"; color: red } } @page nm:left { size: a4 }'),
    ('page-margin-only', '@page { @top-left { content: "x" } }'),
    ('fontface', '@font-face { font-family: "F"; src: url(f.woff) format("woff"), local(F); unicode-range: U+0-7F, u+4?? }'),
    ('functions', 'a { x: f(1,2) g( a b ) rgb(1, 2, 3) rgba(1,2,3,.5) hsl(120, 50%, 50%) counter(a, b) attr(x) url( y ) }'),
    ('keyframes', '@keyframes k { from { left: 0 } 50% { left: 1px } to { left: 2px } } @-x-y "s" 1px { a : 1 ; { b } }'),
    ('specificity', 'a { top: 1px } a b { top: 2px } a b c { top: 3px } a { left: 0 } .x a { top: 4px }'),
    ('all', '@charset "utf-8"; /*c*/ @import "i.css" print; @namespace p "u"; @variables { v: 1px } p|a:not(.b) { top: var(v) !important; color: #aabbcc; color: 1px; x: calc(1px + 2px) } '
            '@media print { a { } b { opacity: 0.5 } } @page { margin: 0.5cm } @font-face { font-family: f } @foo - # @ ; /*end*/'),
]


def gen_spellings():
    import dataclasses
    D = gen.DEFAULT
    lit = ('atkeyword', 'atkeyword-nested', 'atkeyword-margin', 'property', 'important', 'hex')
    return [D,
            dataclasses.replace(D, case='upper', case_parts=lit, importurl=True, lastsemi=True, num='padded', quote="'", urlquote='"'),
            dataclasses.replace(D, escape='simple', escape_parts=('atkeyword', 'atkeyword-nested', 'property', 'important'), ws='none', num='bare')]


# Token adjacency: every spacing decision of the serializer goes through one append routine that looks at the token it appends and at the blank before it. Whether a blank
# may go decides the NEIGHBOURS of the token, so the domain is pairs of neighbours, in every construct whose tokens are written one by one:
#   - the content of an unknown at-rule (opaque tokens: every token class next to every token class, a blank between them in the source),
#   - selectors (every combinator, the descendant blank among them, before every kind of compound selector - with and without a type selector in front),
#   - media queries (expressions in parentheses behind a media type, behind 'and', at the start) on @media, nested @media and @import,
#   - functions next to identifiers, to each other and inside each other in values.
TOKEN_POOL = [
    ('ident', 'y'), ('ident-dash', '-y'), ('number', '1'), ('number-plus', '+1'), ('number-minus', '-1'), ('dimension', '1px'), ('percentage', '1%'), ('string', '"s"'),
    ('uri', 'url(u)'), ('hash', '#h'), ('function', 'f(a)'), ('parens', '(a)'), ('brackets', '[a]'), ('urange', 'U+1-2'), ('important', '!important'),
    ('minus', '-'), ('plus', '+'), ('star', '*'), ('slash', '/'), ('comma', ','), ('colon', ':'), ('equals', '='), ('dot', '.'), ('greater', '>'), ('tilde', '~'), ('bar', '|'),
    ('bang', '!'), ('number-sign', '#'), ('at', '@'), ('includes', '~='), ('dashmatch', '|='),
]
TOKEN_LAST_ONLY = [('block', '{a}')]


def adjacency_sources(tier):
    import itertools
    out = []
    info = {'core': True, 'family': 'adjacency'}
    for (kx, x), (ky, y) in itertools.product(TOKEN_POOL, TOKEN_POOL + TOKEN_LAST_ONLY):
        end = '' if ky == 'block' else ';'
        out.append(('adjacent/unknown-prelude:%s %s' % (kx, ky), '@u %s %s%s' % (x, y, end), info))
        if tier == 'thorough':
            out.append(('adjacent/unknown-block:%s %s' % (kx, ky), '@u p { %s %s }' % (x, y), info))
            out.append(('adjacent/unknown-in-media:%s %s' % (kx, ky), '@media print { @u %s %s%s }' % (x, y, end), info))
    # selectors: compound x combinator x compound, the second one with every kind of simple selector standing alone
    reps = gen._rep(gen.SIMPLES)
    C = gen.C
    firsts = [('type', C('a')), ('class', C(None, reps['class'])), ('attr', C(None, reps['attr'])), ('pclass', C('a', reps['pclass'])), ('not', C('*', reps['not'])), ('universal', C('*'))]
    seconds = [('type', C('b')), ('universal', C('*')), ('ns-type', C(('p', 'b'))), ('any-ns-type', C(('*', 'b')))] + [(k, C(None, reps[k])) for k in gen.SIMPLE_KINDS]
    for (k1, c1), comb, (k2, c2) in itertools.product(firsts, gen.COMBINATORS, seconds):
        out.append(('adjacent/selector:%s%s%s' % (k1, comb, k2), gen.render(gen._wrap_selector(gen.Sel(c1, comb, c2)), gen.DEFAULT), info))
    # media queries: [not|only] [type] [and] (expression)* on every holder
    exprs = ['(color)', '(min-width: 100px)']
    queries = []
    for q in ('', 'not ', 'only '):
        for t in ('screen', 'all'):
            queries.append(q + t)
            queries.append(q + t + ' and ' + exprs[0])
            queries.append(q + t + ' and ' + exprs[1] + ' and ' + exprs[0])
    queries += [exprs[0], exprs[1] + ' and ' + exprs[0]]
    lists = queries + ['%s, %s' % (a, b) for a, b in (('print', exprs[0]), (exprs[1], 'print'), ('screen and (color)', 'print and (color)'))]
    for i, m in enumerate(lists):
        out.append(('adjacent/media:%d' % i, '@media %s { a { top: 0 } }' % m, info))
        out.append(('adjacent/media-nested:%d' % i, '@media print { @media %s { a { top: 0 } } }' % m, info))
        out.append(('adjacent/import-media:%d' % i, '@import "a.css" %s;' % m, info))
        out.append(('adjacent/import-url-media:%d' % i, '@import url(a.css) %s "nm";' % m, info))
    # values: an identifier / a closing parenthesis next to a function, functions in functions (bare parentheses are not accepted in values by the parser)
    for i, v in enumerate(['y f(a) z', 'f(a) g(b)', 'f(g(a) h(b))', 'calc(1px + 2px) calc(3px - 1px)', 'calc(1px + calc(2px * 3))', 'y calc(1px + 2px) z', 'y url(u) f(url(u) y)']):
        out.append(('adjacent/value-functions:%d' % i, 'a { x: 1px %s 2px }' % v, info))
    return out


# Numbers: the serializer rewrites every number (integral -> no fraction, trailing zeros cut, zero -> '0', omitLeadingZero for "values between -1 and 1") and decides by the
# VALUE of the number, so the domain is the grid of number spellings around the thresholds -1, 0 and 1 and beyond: sign x integer part x fraction x unit, in every place a
# number can stand in a value (component of a list, argument of a function, operand of calc()).
NUM_SIGNS = ['', '-', '+']
NUM_INTS = ['', '0', '00', '1', '2', '10', '999']
NUM_FRACS = [None, '0', '5', '05', '50', '25', '125', '000001']
NUM_UNITS = ['', 'px', 'em', '%', 's', 'x']


def number_spellings(sign, ip, unit):
    return [sign + ip + ('' if fr is None else '.' + fr) + unit for fr in NUM_FRACS if ip or fr is not None]


def number_sources(tier):
    """one sheet per (sign, integer part, unit) with the spellings of all fractions as components of one value / arguments of one function; calc() operands per (sign, integer
    part) for the length unit; thorough: also every spelling alone in a valid declaration (so that validOnly does not hide it)"""
    out = []
    info = {'core': True, 'family': 'numbers'}
    for sign in NUM_SIGNS:
        for ip in NUM_INTS:
            for unit in NUM_UNITS:
                nums = number_spellings(sign, ip, unit)
                tag = '%s|%s|%s' % (sign, ip, unit)
                out.append(('numbers/list:' + tag, 'a { x: %s }' % ' '.join(nums), info))
                out.append(('numbers/function:' + tag, 'a { x: f(%s) }' % ', '.join(nums), info))
                if unit == 'px':
                    out.append(('numbers/calc:' + tag, 'a { x: %s }' % ' '.join('calc(1px + %s)' % n_ for n_ in nums), info))
                if tier == 'thorough' and unit in ('', 'px', 'em', '%'):
                    for n_ in nums:
                        out.append(('numbers/single:' + tag, 'a { margin-left: %s }' % n_, info))
    return out


# URL characters: whether a URL is written bare - url(x) - or quoted - url("x") - is decided by the CHARACTERS of the URL, and importHrefFormat moves an href between the string
# form (where every character but the quote is harmless) and the url() form (where white space, parentheses, quotes, backslash, ... end or break the token). So the domain is
# every character class that matters for that decision, at the start / in the middle / at the end of the URL, in every place a URL is written: @import href given as string
# (both quotes) and as url() (quoted and bare), url() as property value and in @font-face. Characters that cannot stand literally in the source are written as escapes.
URL_CHARS = [
    # (class, spelling inside a double-quoted string, spelling inside a bare url(), the character)
    ('space', ' ', '\\20 ', ' '), ('space-escaped', '\\20 ', '\\20 ', ' '), ('tab', '\t', '\\9 ', '\t'), ('tab-escaped', '\\9 ', '\\9 ', '\t'),
    ('line-feed', '\\a ', '\\a ', '\n'), ('carriage-return', '\\d ', '\\d ', '\r'), ('form-feed', '\\c ', '\\c ', '\f'),
    ('lparen', '(', '\\(', '('), ('rparen', ')', '\\)', ')'), ('semicolon', ';', '\\;', ';'), ('comma', ',', '\\,', ','), ('apostrophe', "'", "\\'", "'"),
    ('quote', '\\"', '\\"', '"'), ('backslash', '\\\\', '\\\\', '\\'), ('brace', '{', '{', '{'), ('rbrace', '}', '}', '}'),
    # characters around the decision that need no quotes, and white space that is not CSS white space
    ('plain', '-', '-', '-'), ('hash', '#', '#', '#'), ('query', '?', '?', '?'), ('star', '*', '*', '*'), ('slash-star', '/*', '/*', '/*'), ('percent', '%20', '%20', '%20'),
    ('nbsp', '\xa0', '\xa0', '\xa0'), ('em-space', ' ', ' ', ' '), ('vertical-tab', '\\b ', '\\b ', '\x0b'),
    # control characters that are not white space (not URL characters of the URI token either)
    ('control', '\\1 ', '\\1 ', '\x01'), ('delete', '\\7f ', '\\7f ', '\x7f'),
]
URL_POSITIONS = [('middle', 'a%sb.css'), ('start', '%sb.css'), ('end', 'a%s')]


def urlchar_sources(tier):
    out = []
    info = {'core': True, 'family': 'urlchars'}
    for cls, instr, inuri, ch in URL_CHARS:
        for pos, pat in URL_POSITIONS:
            tag = '%s@%s' % (cls, pos)
            s, u = pat % instr, pat % inuri
            s1 = s.replace('\\"', '"').replace("'", "\\'") if "'" in s or '\\"' in s else s     # the same string content in apostrophes
            out.append(('urlchars/import-string:' + tag, '@import "%s" print;' % s, info))
            out.append(('urlchars/import-url-quoted:' + tag, '@import url("%s");' % s, info))
            out.append(('urlchars/value-url-quoted:' + tag, 'a { background: url("%s") no-repeat; x: f(url("%s"), 1) }' % (s, s), info))
            if pos == 'middle' or tier == 'thorough':
                out.append(('urlchars/import-string-apos:' + tag, "@import '%s' \"nm\";" % s1, info))
                out.append(('urlchars/import-url-bare:' + tag, '@import url(%s) print;' % u, info))
                out.append(('urlchars/value-url-bare:' + tag, 'a { background: url(%s) }' % u, info))
                out.append(('urlchars/fontface-url:' + tag, '@font-face { font-family: x; src: url("%s") format("woff"), url(%s) }' % (s, u), info))
    return out


def dom_sources(tier, seed):
    """[(label, source text, info)] - deterministic.
    core (info['core'], both tiers): of the QUICK enumeration of the generator the rule-level sheets (every rule variant, every ordered pair of rule kinds) in 3 spellings,
    one sheet per construct kind of the others, and the hand-written sheets - they get every assignment of the tier (thorough: all pairs);
    thorough only: every third further sheet of the thorough enumeration in the default spelling - they get the defaults, the minified preset and the covering array"""
    out = []
    sps = gen_spellings()
    seen_kinds = set()
    core_sheets = set()
    for label, a in gen.enumerate_sheets('quick', seed):
        kind = label.split(':')[0]
        if not (label.startswith(('rule/', 'rules2/', 'full', 'decl', 'value/single')) or kind not in seen_kinds):
            continue
        seen_kinds.add(kind)
        core_sheets.add(a)
        texts = set()
        for si, sp in enumerate(sps):
            if si and not label.startswith(('rule/', 'full', 'decl', 'value/single', 'media/', 'import')):
                continue
            text = gen.render(a, sp)
            if text in texts:
                continue
            texts.add(text)
            out.append((label, text, {'sheet': gen.to_json(a), 'spelling': sp.describe(), 'core': True}))
    for label, text in EXTRA:
        out.append(('extra/' + label, text, {'core': True}))
    out += adjacency_sources(tier)
    out += number_sources(tier)
    out += urlchar_sources(tier)
    if tier == 'thorough':
        k = 0
        for label, a in gen.enumerate_sheets('thorough', seed):
            if a in core_sheets:
                continue
            k += 1
            if k % 3:
                continue
            out.append((label, gen.render(a, sps[0]), {'sheet': gen.to_json(a), 'spelling': {}, 'core': False}))
    return out


# ------------------------------------------------------------------------------------------------------------------ evaluation

def _quiet():
    import cssutils
    cssutils.log.setLevel(logging.FATAL)
    cssutils.ser.prefs.useDefaults()
    cssutils.log.raiseExceptions = True
    return cssutils


def _decode(sheet, out):
    if isinstance(out, bytes):
        enc = 'utf-8'
        try:
            r0 = sheet.cssRules[0]
            if r0.type == r0.CHARSET_RULE and r0.encoding:
                enc = r0.encoding
        except (IndexError, AttributeError):
            pass
        return out.decode(enc)
    return out


def _parse(cssutils, text):
    try:
        return cssutils.parseString(text)
    finally:
        cssutils.log.raiseExceptions = True


def evaluate(cssutils, label, src, assigns):
    """-> {'n': evaluations, 'skipped': reason|None, 'fails': [(clause, assignment, detail)]}"""
    fails = []
    prefs = cssutils.ser.prefs
    res = {'n': 0, 'skipped': None, 'fails': fails}
    try:
        prefs.useDefaults()
        dom = _parse(cssutils, src)
        try:
            x = xsheet(dom, src)
            out0 = dom.cssText
            t0 = _decode(dom, out0)
            p0 = norm_zero(gen.project(_parse(cssutils, t0)))
        except (Skip, Malformed, gen.ProjectionError) as e:
            res['skipped'] = '%s: %s' % (type(e).__name__, e)
            return res
        except Exception as e:
            res['skipped'] = 'default round trip raises %s' % type(e).__name__
            return res
        if p0 not in [norm_zero(projection(y)) for y in expected(x, DEFAULTS, cssutils)]:
            res['skipped'] = 'the default round trip is not clean (C03)'
            return res
        cache = {}
        reparsed = {}
        for alabel, assign in assigns:
            res['n'] += 1
            try:
                P = apply(prefs, assign)
                out = None
                for _attempt in range(3):
                    try:
                        out = dom.cssText
                        break
                    except Exception as e:
                        msg = '%s: %s' % (type(e).__name__, str(e)[:200])
                        fails.append((CL_SER, assign, P, msg))
                        # the two recorded crashes would hide the rest of the assignment: go on without the preference that crashes (the crash itself stays reported)
                        if _classify(label, src, CL_SER, P, msg) == K_ATKW:
                            P = dict(P, defaultAtKeyword=True)
                        elif _classify(label, src, CL_SER, P, msg) == K_LINENO:
                            P = dict(P, lineNumbers=False)
                        else:
                            break
                        assign = {k: v for k, v in P.items() if v != DEFAULTS[k]}
                        apply(prefs, assign)
                text = _decode(dom, out) if out is not None else None
                # the same assignment without layout preferences
                Q = dict(P)
                for n_ in LAYOUT:
                    Q[n_] = DEFAULTS[n_]
                qk = key(Q)
                if out is not None and qk not in cache:
                    apply(prefs, {k: v for k, v in Q.items() if v != DEFAULTS[k]})
                    try:
                        cache[qk] = tokens(_decode(dom, dom.cssText))
                    except Exception:
                        cache[qk] = None
            finally:
                prefs.useDefaults()
            # restore
            try:
                again = dom.cssText
            except Exception as e:
                again = 'raises %s' % type(e).__name__
            if again != out0:
                fails.append((CL_RESTORE, assign, P, 'after the assignment and useDefaults() the output differs: %r vs %r' % (_first_diff(_s(again), _s(out0)))))
                # a fresh serializer, so that the following assignments are judged on their own (public API)
                cssutils.setSerializer(cssutils.serialize.CSSSerializer())
                prefs = cssutils.ser.prefs
            if out is None:
                continue
            # line numbers
            if P['lineNumbers']:
                try:
                    text = strip_linenumbers(text, P['lineSeparator'])
                except Malformed as e:
                    fails.append((CL_LINENO, assign, P, str(e)))
                    continue
            # layout: S-free tokens identical
            tq = cache[qk]
            tp = tokens(text)
            if tq is not None and tp != tq:
                i = next((k for k in range(min(len(tp), len(tq))) if tp[k] != tq[k]), min(len(tp), len(tq)))
                fails.append((CL_LAYOUT, assign, P, 'token %d: %r with the layout preferences, %r without | %r' % (i, tp[max(0, i - 2):i + 3], tq[max(0, i - 2):i + 3], text[:200])))
            # well-formed + effect on the DOM (both are functions of the text: cached per text)
            if text not in reparsed:
                try:
                    v = view(text)
                    try:
                        reparsed[text] = (v, norm_zero(gen.project(_parse(cssutils, text))), None)
                    except Exception as e:
                        reparsed[text] = (v, None, 'reparse: %s: %s' % (type(e).__name__, str(e)[:150]))
                except Malformed as e:
                    reparsed[text] = (None, None, str(e))
            v, p2, err = reparsed[text]
            if err:
                fails.append((CL_WELL, assign, P, '%s | %r' % (err, text[:300])))
                continue
            ys = expected(x, P, cssutils)
            want = [norm_zero(projection(y)) for y in ys]
            if p2 not in want:
                # the models of the recorded findings: the observed DOM must equal one of them EXACTLY to count as that finding
                for quirks in (('validvar',), ('emptyblock',), ('validvar', 'emptyblock'), ('nsnested',), ('nsnested', 'emptyblock'), ('nsnested', 'validvar')):
                    qs = expected(x, P, cssutils, quirks)
                    qw = [norm_zero(projection(y)) for y in qs]
                    if p2 in qw:
                        fails.append((CL_EFFECT, assign, P, '[model:%s] %s | %r' % ('+'.join(quirks), gen.diff(p2, want[0]), text[:300])))
                        ys, want = qs, qw
                        break
                else:
                    fails.append((CL_EFFECT, assign, P, '%s | %r' % (gen.diff(p2, want[0]), text[:300])))
                    continue
            y = ys[want.index(p2)]
            sf = spelling_faults(y, v, P)
            for d in sf[:3]:
                fails.append((CL_SPELL, assign, P, '%s | %r' % (d, text[:300])))
    finally:
        prefs.useDefaults()
    return res


def _s(x):
    return x.decode('utf-8', 'replace') if isinstance(x, bytes) else x


def _first_diff(a, b):
    n = min(len(a), len(b))
    i = next((k for k in range(n) if a[k] != b[k]), n)
    return a[max(0, i - 30):i + 30], b[max(0, i - 30):i + 30]


# known classes: (id, predicate(label, src, clause, assignment(full dict), detail))
def _classify(label, src, clause, P, detail):
    for fid, pred in KNOWN:
        try:
            if pred(label, src, clause, P, detail):
                return fid
        except Exception:
            continue
    return None


def _plus_number(src):
    """the prelude of a rule of the source (selector, unknown at-rule) or the opaque block of an unknown at-rule holds a '+' that stands before a number: the an+b of a
    functional pseudo-class, '+1 + 1' in an unknown at-rule - a '+' that is not a selector combinator"""
    try:
        for nd in walk(view(src)):
            t = nd['prelude'] + nd.get('block', [])
            if any(a == ('CHAR', '+') and b[0] in ('NUMBER', 'DIMENSION', 'PERCENTAGE') for a, b in zip(t, t[1:])):
                return True
    except Malformed:
        pass
    return False


K_ATKW = 'C06-defaultatkeyword-crash'
K_LINENO = 'C06-linenumbers-empty-separator'
K_SPECIF = 'C06-indentspecificities-state'
K_SEMI = 'C06-last-semicolon-after-dropped-item'
K_COMB = 'C06-combinator-spacer-glues-plus'
K_EMPTY = 'C06-keepemptyrules-page-fontface'
K_VALIDVAR = 'C06-validonly-unresolved-variable'
K_NSNEST = 'C06-used-namespace-nested-media'
K_URLCTRL = 'C06-url-control-character-unquoted'
_BARE_URL_CONTROL = re.compile(r'''url\([^)"']*\\x(?:0[1-8e-f]|1[0-9a-f]|7f)''')   # in the repr of the output: a bare url( ... with a C0 control character that is not white space, or DEL


def _nested_media_uses_prefix(src):
    """a style rule inside an @media inside an @media writes a namespace prefix (its selector cannot be read again once the @namespace rule is gone)"""
    try:
        for nd in view(src):
            if nd['k'] == 'at' and nd['type'] == 'MEDIA_SYM':
                for sub in nd.get('rules', ()):
                    if sub['k'] == 'at' and sub['type'] == 'MEDIA_SYM':
                        for r in walk(sub.get('rules', ())):
                            if r['k'] == 'style' and any(t == ('CHAR', '|') for t in r['prelude']):
                                return True
    except Malformed:
        pass
    return False


KNOWN = [
    (K_ATKW, lambda label, src, cl, P, d: cl == CL_SER and not P['defaultAtKeyword'] and "has no attribute '_keyword'" in d),
    (K_LINENO, lambda label, src, cl, P, d: cl == CL_SER and P['lineNumbers'] and P['lineSeparator'] == '' and 'empty separator' in d),
    (K_SPECIF, lambda label, src, cl, P, d: cl == CL_RESTORE and P['indentSpecificities']),
    (K_SEMI, lambda label, src, cl, P, d: cl == CL_SPELL and P['omitLastSemicolon'] and (P['validOnly'] or not P['keepComments']) and d.startswith('; after the last declaration')
     and '[an item that is not written follows it in the DOM]' in d),
    (K_COMB, lambda label, src, cl, P, d: cl in (CL_LAYOUT, CL_EFFECT) and P['selectorCombinatorSpacer'] == '' and _plus_number(src) and ("'+" in d)),
    (K_EMPTY, lambda label, src, cl, P, d: cl == CL_EFFECT and P['keepEmptyRules'] and d.startswith('[model:') and 'emptyblock' in d.split(']')[0]),
    (K_VALIDVAR, lambda label, src, cl, P, d: cl == CL_EFFECT and P['validOnly'] and not P['resolveVariables'] and d.startswith('[model:') and 'validvar' in d.split(']')[0]),
    (K_NSNEST, lambda label, src, cl, P, d: cl == CL_EFFECT and P['keepUsedNamespaceRulesOnly'] and ((d.startswith('[model:') and 'nsnested' in d.split(']')[0])
                                                                                                  or (_nested_media_uses_prefix(src) and "('namespace'," in d and '@namespace' not in d.split(' | ')[-1]))),
    (K_URLCTRL, lambda label, src, cl, P, d: cl in (CL_EFFECT, CL_WELL) and P['importHrefFormat'] == 'uri' and bool(_BARE_URL_CONTROL.search(d.split(' | ')[-1]))),
]


_PLAN = {}


def _plan(tier, seed):
    """(sources, assignments) - computed once per process (the pool is forked after the parent has computed it)"""
    if (tier, seed) not in _PLAN:
        _PLAN[(tier, seed)] = (dom_sources(tier, seed), assignments(tier, seed))
    return _PLAN[(tier, seed)]


def _worker(args):
    tier, seed, lo, hi = args
    cssutils = _quiet()
    srcs, assigns = _plan(tier, seed)
    assigns_rest = [a for a in assigns if a[0] in ('defaults', 'minified', 'pairwise-row')]
    # the token-adjacency sheets are about spacing: of the pairs (thorough tier) they get those of two layout preferences
    assigns_adj = [a for a in assigns if a[0] != 'pair' or all(k in LAYOUT for k in a[1])]
    # the number grid is about how a number is written: of the pairs it gets those with omitLeadingZero
    assigns_num = [a for a in assigns if a[0] != 'pair' or 'omitLeadingZero' in a[1]]
    # the URL-character sheets are about how a URL is written: of the pairs they get those with importHrefFormat
    assigns_url = [a for a in assigns if a[0] != 'pair' or 'importHrefFormat' in a[1]]
    by_family = {'adjacency': assigns_adj, 'numbers': assigns_num, 'urlchars': assigns_url}
    res = {'n': 0, 'doms': 0, 'skipped': {}, 'fails': [], 'known': {}, 'kinds': set(), 'nfail': {}}
    try:
        for label, src, info in srcs[lo:hi]:
            r = evaluate(cssutils, label, src, by_family[info['family']] if info.get('family') in by_family else assigns if info.get('core') else assigns_rest)
            res['n'] += r['n']
            if r['skipped']:
                key_ = r['skipped'].split(':')[0]
                res['skipped'][key_] = res['skipped'].get(key_, 0) + 1
                continue
            res['doms'] += 1
            res['kinds'].add(label.split(':')[0])
            for clause, assign, P, detail in r['fails']:
                nd = {k: v for k, v in P.items() if v != DEFAULTS[k]}
                fid = _classify(label, src, clause, P, detail)
                rec = {'clause': clause, 'detail': detail, 'label': label, 'source': src, 'assignment': 'useMinified()' if assign == 'MINIFIED' else nd}
                if fid:
                    h = res['known'].setdefault(fid, {'count': 0, 'witness': rec})
                    h['count'] += 1
                    if (len(nd), len(src)) < (len(h['witness']['assignment']) if isinstance(h['witness']['assignment'], dict) else 99, len(h['witness']['source'])):
                        h['witness'] = rec
                else:
                    res['nfail'][clause] = res['nfail'].get(clause, 0) + 1
                    if sum(1 for f in res['fails'] if f['clause'] == clause) < 6:
                        res['fails'].append(rec)
    finally:
        cssutils.ser.prefs.useDefaults()
        cssutils.log.raiseExceptions = True
    res['kinds'] = sorted(res['kinds'])
    return res


def matrix(ctx):
    """preference assignments x DOMs"""
    t0 = time.time()
    srcs, assigns = _plan(ctx.tier, ctx.seed)
    n = len(srcs)
    step = max(1, min(12, n // (max(1, ctx.jobs) * 8) or 1))
    tasks = [(ctx.tier, ctx.seed, lo, min(n, lo + step)) for lo in range(0, n, step)]
    jobs = max(1, ctx.jobs)
    if jobs > 1 and len(tasks) > 1:
        with multiprocessing.get_context('fork').Pool(jobs) as pool:
            results = pool.map(_worker, tasks, chunksize=1)
    else:
        results = [_worker(t) for t in tasks]
    evals = sum(r['n'] for r in results)
    doms = sum(r['doms'] for r in results)
    kinds = set()
    skipped = {}
    known = {}
    nfail = {}
    for r in results:
        kinds.update(r['kinds'])
        for k, v in r['skipped'].items():
            skipped[k] = skipped.get(k, 0) + v
        for k, v in r['nfail'].items():
            nfail[k] = nfail.get(k, 0) + v
        for f in r['fails']:
            ctx.violation(f['clause'], 'preferences %s on %s %r: %s' % (json.dumps(f['assignment'], sort_keys=True), f['label'], f['source'][:200], f['detail']), True,
                          {'assignment': f['assignment'], 'source': f['source'], 'label': f['label']})
        for fid, h in r['known'].items():
            g = known.setdefault(fid, {'count': 0, 'witness': h['witness']})
            g['count'] += h['count']
            if len(h['witness']['source']) < len(g['witness']['source']):
                g['witness'] = h['witness']
    for fid, h in sorted(known.items()):
        f = h['witness']
        ctx.violation(f['clause'], 'recorded finding %s: preferences %s on %r: %s (%d evaluations of the class in this run)' % (fid, json.dumps(f['assignment'], sort_keys=True), f['source'][:200], f['detail'], h['count']),
                      True, {'assignment': f['assignment'], 'source': f['source']}, known_id=fid)
    by = {}
    for label, a in assigns:
        by[label] = by.get(label, 0) + 1
    ctx.bounded.append({'name': 'preference assignments x DOMs', 'evaluations': evals, 'distinct_nontrivial': len(assigns) * len(kinds),
                        'rule': 'every DOM (parsed from a generator sheet in up to 3 spellings or from a hand-written sheet) is serialised under every assignment: no exception, line numbers strip cleanly, '
                                'S-free tokens equal those without the layout preferences, an independent token-level reading finds well-formed rules and declarations, the reparse projects to the DOM '
                                'with the documented effects applied, the spelling preferences show as documented, useDefaults() restores the default bytes; distinct = assignments x construct kinds of the DOMs',
                        'bound': '%d assignments (%s; the pairs only on the %d core sources, on the token-adjacency sheets only pairs of layout preferences) x %d DOM sources (%d used, skipped %s): %s; %d hand-written sheets; %d token-adjacency sheets '
                                 '(unknown at-rule: ordered pairs of %d token classes (+ block) separated by a blank%s; selectors: 6 compounds x 4 combinators x 11 compounds; 23 media lists x 4 holders; '
                                 '7 values of neighbouring / nested functions); %d number-grid sheets (every spelling sign %s x integer part %s x fraction %s x unit %s - %d spellings - as component of a '
                                 'value list, as function argument, px also as calc() operand%s; under every assignment but the pairs without omitLeadingZero); every single-component value sheet of the '
                                 'generator (%d) is a core source; %d URL-character sheets (%d character classes - each CSS white-space character literal and as escape, ( ) ; , quotes, backslash, braces, '
                                 'harmless punctuation, non-CSS white space, control characters - at %s of the URL, as @import href in string form (both quotes) and url() form (quoted, bare), as url() '
                                 'value (also inside a function) and in @font-face src%s; under every assignment but the pairs without importHrefFormat)' % (
                            len(assigns), ', '.join('%d %s' % (v, k) for k, v in sorted(by.items())), sum(1 for x in srcs if x[2].get('core')), n, doms, json.dumps(skipped, sort_keys=True),
                            gen.ENUMERATION[ctx.tier][:160], len(EXTRA), sum(1 for x in srcs if x[2].get('family') == 'adjacency'), len(TOKEN_POOL),
                            ', also inside the block and inside @media' if ctx.tier == 'thorough' else '',
                            sum(1 for x in srcs if x[2].get('family') == 'numbers'), NUM_SIGNS, NUM_INTS, ['none'] + NUM_FRACS[1:], NUM_UNITS,
                            sum(len(number_spellings(s_, i_, u_)) for s_ in NUM_SIGNS for i_ in NUM_INTS for u_ in NUM_UNITS),
                            ', each spelling alone in a valid declaration' if ctx.tier == 'thorough' else '', sum(1 for x in srcs if x[0].startswith('value/single')),
                            sum(1 for x in srcs if x[2].get('family') == 'urlchars'), len(URL_CHARS), ' / '.join(p_ for p_, _ in URL_POSITIONS),
                            '' if ctx.tier == 'thorough' else ' (apostrophe, bare and @font-face forms for the middle position only)'),
                        'samples': [{'assignment': {'keepComments': False, 'omitLastSemicolon': False}, 'source': 'a { color: red; /*last*/ }'}],
                        'exhaustive': False, 'wall_s': round(time.time() - t0, 1), 'known_class_evaluations': {k: v['count'] for k, v in sorted(known.items())}, 'failures': nfail})


# ---------------------------------------------------------------------------------------------------------------------- frame

_DOC = re.compile(r'^    (\w+) = ', re.M)


def frame(ctx):
    """the documented preferences == the attributes useDefaults() assigns == the ones this check covers; useMinified() assigns documented names only and
    the documented defaults are the values of a fresh object"""
    from cssutils.serialize import Preferences
    doc = set(_DOC.findall(Preferences.__doc__))
    p = Preferences()
    attrs = set(vars(p))
    n = 0
    for what, a, b in (('documented', doc, attrs), ('covered by this check', set(NAMES), attrs)):
        n += 1
        if a != b:
            ctx.violation(CL_FRAME, '%s preferences and the attributes of Preferences() differ: only %s: %s; only attributes: %s' % (what, what, sorted(a - b), sorted(b - a)), True, {})
    for name in NAMES:
        n += 1
        if getattr(p, name, None) != DEFAULTS[name]:
            ctx.violation(CL_FRAME, 'default of %s is %r, documented %r' % (name, getattr(p, name, None), DEFAULTS[name]), True, {'name': name})
    q = Preferences()
    q.useMinified()
    n += 1
    if set(vars(q)) != attrs:
        ctx.violation(CL_FRAME, 'useMinified() creates attributes that are not documented: %s' % sorted(set(vars(q)) - attrs), True, {})
    for name in NAMES:
        setattr(q, name, 'x')
    q.useDefaults()
    n += 1
    if vars(q) != vars(Preferences()):
        ctx.violation(CL_FRAME, 'useDefaults() does not reset every preference: %r' % {k: v for k, v in vars(q).items() if v != vars(p).get(k)}, True, {})
    ctx.bounded.append({'name': 'preference frame', 'evaluations': n, 'distinct_nontrivial': len(NAMES), 'rule': 'documented names == attributes == covered names; documented defaults; useMinified within the frame; useDefaults resets all',
                        'samples': [{'documented': sorted(doc)[:5]}], 'bound': '%d preferences' % len(NAMES), 'exhaustive': True})


# ------------------------------------------------------------------------------------------------------------------ witnesses

WITNESSES = [
    (K_ATKW, '@media print{a{top:0}}', {'defaultAtKeyword': False}),
    (K_LINENO, 'a{top:0}', {'lineNumbers': True, 'lineSeparator': ''}),
    (K_SPECIF, 'a{top:0} a.b{top:1px}', {'indentSpecificities': True}),
    (K_SEMI, 'a{top:0;/*c*/}', {'keepComments': False}),
    (K_COMB, '@bar 1 + 1; a:nth-child(2n + 1){top:0}', {'selectorCombinatorSpacer': ''}),
    (K_EMPTY, '@page{} @font-face{} a{}', {'keepEmptyRules': True}),
    (K_VALIDVAR, '@variables{c:red} a{color:var(c)}', {'validOnly': True, 'resolveVariables': False}),
    (K_NSNEST, '@namespace "d"; @media screen{@media print{a{top:0}}}', {'keepUsedNamespaceRulesOnly': True}),
    (K_URLCTRL, '@import "a\\1 b.css";', {'importHrefFormat': 'uri'}),
]


def witnesses(ctx):
    """one minimal witness per recorded finding: KNOWN-FINDING while it still fails (a witness that passes means the entry must be flipped to status fixed)"""
    cssutils = _quiet()
    n = 0
    try:
        for kid, src, assign in WITNESSES:
            n += 1
            cssutils.setSerializer(cssutils.serialize.CSSSerializer())
            r = evaluate(cssutils, 'witness/' + kid, src, [('witness', assign)])
            hit = any(_classify('witness', src, cl, P, d) == kid for cl, a, P, d in r['fails'])
            ctx.known_finding(kid, hit)
            for cl, a, P, d in r['fails']:
                if _classify('witness', src, cl, P, d) is None:
                    ctx.violation(cl, 'witness %r under %r: %s' % (src, assign, d), True, {'source': src, 'assignment': assign})
    finally:
        cssutils.setSerializer(cssutils.serialize.CSSSerializer())
        cssutils.log.raiseExceptions = True
    ctx.bounded.append({'name': 'witnesses of the recorded findings', 'evaluations': n, 'distinct_nontrivial': n, 'rule': 'one minimal (sheet, assignment) per recorded finding',
                        'samples': [{'source': WITNESSES[0][1], 'assignment': WITNESSES[0][2]}], 'bound': '%d witnesses' % n, 'exhaustive': True})
