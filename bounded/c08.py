"""C08 bounded stand-in: sheet / import encoding precedence and lossless, decodable serialisation on the real parser.

Oracle (from the statement): the encoding that decodes a sheet is  override > transport charset > BOM/@charset in the
content > encoding of the referring sheet > UTF-8;  an explicit override governs every nested import;  sheet.encoding is
the @charset rule (UTF-8 if none);  sheet.cssText is bytes decodable in sheet.encoding and decoding + reparsing gives the
same DOM, unencodable characters written as CSS escapes.

Encodings: four 8-bit-compatible, mutually distinguishable ones.  The payload is the byte pair D0 B6, which every one of
them decodes, each to a different text, so the decoded text names the encoding that was really used.  UTF-16 (not ASCII
compatible) is covered by dedicated rows whose content is encoded in UTF-16 as a whole.

What follows the encoding signature is an axis of its own (BODIES): two style rules with the payload, NOTHING (with neither BOM nor
@charset the fetcher then delivers b'' / '' - zero-length DATA, which is not the same as no answer: the ladder still fixes the
reported encoding), or a comment only.  Without payload the reported encoding, the @charset mirror, the rule list and the
decodability of the serialisation are still observed.

Imports are also resolved AFTER the parse (`late_imports`): histories parse ; change the encoding the sheet reports ; load a new import, over every way a sheet gets its first
encoding, every mutator of the encoding and every form of triggering a load: "the referring sheet's encoding" is the one it reports when the import is resolved.
"""
import codecs
import itertools
import logging
import multiprocessing
import re
import xml.dom

ENC8 = ['utf-8', 'iso-8859-1', 'koi8-r', 'iso8859_5']  # (one label with an underscore: legal encoding names are not only alphanumerics and hyphens)
PAYLOAD = b'\xd0\xb6'
TEXT_PAYLOAD = '\u0436'
DECODED = {e: PAYLOAD.decode(e) for e in ENC8}
assert len(set(DECODED.values())) == len(ENC8)
BOM8 = b'\xef\xbb\xbf'


def _quiet():
    import cssutils
    cssutils.log.setLevel(logging.FATAL)
    cssutils.log.raiseExceptions = True
    cssutils.ser.prefs.useDefaults()
    return cssutils


def norm(enc):
    """canonical codec name; BOM-signature variants are the same encoding"""
    if enc is None:
        return None
    try:
        n = codecs.lookup(enc).name
    except LookupError:
        return '?' + str(enc)
    return {'utf-8-sig': 'utf-8', 'utf-16-le': 'utf-16', 'utf-16-be': 'utf-16'}.get(n, n)


def ladder(override, transport, content, parent):
    """the statement's precedence"""
    return override or transport or content or parent or 'utf-8'


class Rec:
    """recording fetcher"""

    def __init__(self, table):
        self.table = table
        self.calls = []

    def __call__(self, url):
        self.calls.append(url)
        return self.table.get(url)


# what follows the encoding signature (and the @import of a chain level): two style rules, the second holding the payload | nothing at all - with 'none' the content is
# b'' / '', DATA of length zero, not a missing answer | a comment only (no rule)
BODIES = ['rules', 'empty', 'comment']
BODY_BYTES = {'rules': b'f{left:0}a{content:"' + PAYLOAD + b'"}', 'empty': b'', 'comment': b'/*c*/'}
BODY_TEXT = {'rules': 'f{left:0}a{content:"' + TEXT_PAYLOAD + '"}', 'empty': '', 'comment': '/*c*/'}


def make_content(kind, charset, form, tail=b'', body='rules'):
    """(content for the fetcher, encoding declared by the content or None).  kind: 'charset' | 'bom' | 'none';
    form 'bytes' | 'text'; body: see BODIES.  In text form a leading U+FEFF is not a byte signature: the row counts as 'neither'."""
    tbody = tail.decode('ascii') + BODY_TEXT[body]
    body = tail + BODY_BYTES[body]
    if form == 'bytes':
        if kind == 'charset':
            return b'@charset "' + charset.encode('ascii') + b'";' + body, charset
        if kind == 'bom':
            return BOM8 + body, 'utf-8'
        return body, None
    if kind == 'charset':
        return '@charset "' + charset + '";' + tbody, charset
    if kind == 'bom':
        return '\ufeff' + tbody, None
    return tbody, None


def payload_of(sheet):
    """the text of the content string of the last style rule, or None"""
    try:
        rules = [r for r in sheet.cssRules if r.type == r.STYLE_RULE]
        v = rules[-1].style.getPropertyValue('content')
        return v[1:-1] if len(v) >= 2 and v[0] == '"' else v
    except Exception:  # noqa: BLE001
        return None


def first_statement(kind, form, override, transport):
    """what to expect of the FIRST statement of the decoded content: 'clean' | 'known-bom' | 'garbage'.
    A UTF-8 BOM that is detected (no override / transport) is consumed by the decoder.  Decoded under an explicit utf-8 it stays
    in the text as U+FEFF, and so does U+FEFF at the start of text content: CSS says a leading U+FEFF is not part of the
    style sheet, cssutils glues it to the first token (recorded finding C08-bom-char-not-skipped).  Decoded under another
    explicit 8-bit encoding the signature is mojibake in front of the first statement - garbage in, garbage out."""
    if kind != 'bom':
        return 'clean'
    if form == 'text':
        return 'known-bom'
    win = override or transport
    if not win:
        return 'clean'
    return 'known-bom' if norm(win) == 'utf-8' else 'garbage'


def first_rule_ok(sheet):
    rules = [r for r in sheet.cssRules if r.type == r.STYLE_RULE]
    return len(rules) == 2 and rules[0].selectorText == 'f'


def body_ok(sheet, body):
    """the rules of the decoded content are the ones written: 'rules' -> the style rules f, a; 'empty' -> nothing but the @charset / @import in front; 'comment' -> these and one comment"""
    if body == 'rules':
        return first_rule_ok(sheet)
    rest = [r.cssText for r in sheet.cssRules if r.type not in (r.CHARSET_RULE, r.IMPORT_RULE)]
    return rest == ([] if body == 'empty' else ['/*c*/'])


def charset_consistent(sheet):
    """sheet.encoding equals its @charset rule, UTF-8 if there is none; at most one such rule, in front"""
    rules = list(sheet.cssRules)
    cs = [i for i, r in enumerate(rules) if r.type == r.CHARSET_RULE]
    if not cs:
        return sheet.encoding == 'utf-8'
    return cs == [0] and rules[0].encoding == sheet.encoding


def check_sheet(ctx, sheet, want_enc, want_payload, where, inputs, known=None, first='skip', body='rules'):
    """the reported encoding, the decoded text, the @charset mirror and the decodability of the serialisation"""
    ok = True
    if sheet is None:
        ctx.violation('bounded: a fetched sheet is parsed', f'{where}: no sheet', True, inputs, known_id=known)
        return False
    got = sheet.encoding
    if norm(got) != norm(want_enc):
        ctx.violation('bounded: reported encoding follows override > transport > BOM/@charset > parent > utf-8', f'{where}: encoding {got!r} expected {want_enc!r}', True, inputs, known_id=known)
        ok = False
    pl = payload_of(sheet)
    if want_payload is not None and pl != want_payload:
        ctx.violation('bounded: the content is decoded with the encoding chosen by the precedence', f'{where}: decoded text {pl!r} expected {want_payload!r} (encoding {want_enc})', True, inputs,
                      known_id=known)
        ok = False
    if first != 'garbage' and first != 'skip' and not body_ok(sheet, body):
        ctx.violation('bounded: the decoded text is the content (no byte-order mark left in front of the first statement)',
                      f'{where}: rules {[r.cssText for r in sheet.cssRules]!r}, expected those of the body {BODY_TEXT[body]!r}', True, inputs,
                      known_id='C08-bom-char-not-skipped' if first == 'known-bom' else known)
        ok = False
    if not charset_consistent(sheet):
        ctx.violation('bounded: sheet.encoding equals its @charset rule (utf-8 if none)', f'{where}: encoding {got!r}, rules {[r.cssText for r in sheet.cssRules][:2]!r}', True, inputs)
        ok = False
    try:
        b = sheet.cssText
        if not isinstance(b, bytes):
            raise TypeError('cssText is %s' % type(b).__name__)
        t = b.decode(got)
        if pl is not None and pl not in unescape(t):
            ctx.violation('bounded: serialised sheet holds the decoded text', f'{where}: {t!r} lacks {pl!r}', True, inputs)
            ok = False
    except Exception as e:  # noqa: BLE001
        ctx.violation('bounded: sheet.cssText is a byte string decodable in sheet.encoding', f'{where}: {type(e).__name__}: {e}', True, inputs)
        ok = False
    return ok


ESC = re.compile(r'\\([0-9a-fA-F]{1,6})(\r\n|[ \t\r\n\f])?')


def unescape(text):
    """reference: CSS 2.1 4.1.3 hex escapes decoded (one white space after the digits belongs to the escape)"""
    def sub(m):
        cp = int(m.group(1), 16)
        return chr(cp) if 0 < cp <= 0x10FFFF else '\ufffd'
    return ESC.sub(sub, text)


def assignments(slots, bom):
    """injective assignments of the four encodings to the present slots (with a UTF-8 BOM the content slot is utf-8)"""
    pool = ENC8[1:] if bom else ENC8
    for perm in itertools.permutations(pool, len(slots)):
        yield dict(zip(slots, perm))


# ----------------------------------------------------------------------------- 1. one import: the full matrix

TOP_HREF = 'http://h.example/dir/top.css'
CHILD_URL = 'http://h.example/dir/sub/a.css'
FETCH_RESULTS = ['data', 'none', 'pair-none', 'charset-but-no-content']


def imports_matrix(ctx):
    cssutils = _quiet()
    n = 0
    kinds = set()
    samples = []
    for has_o, has_t, ckind, has_p, form, fres in itertools.product((False, True), (False, True), ('charset', 'bom', 'none'), (False, True), ('bytes', 'text'), FETCH_RESULTS):
        slots = [s for s, on in (('o', has_o), ('t', has_t), ('c', ckind == 'charset'), ('p', has_p)) if on]
        assigns = list(assignments(slots, ckind == 'bom'))
        if fres != 'data':
            assigns = assigns[:1]
        for a, body in itertools.product(assigns, BODIES if fres == 'data' else BODIES[:1]):
            o, t, p = a.get('o'), a.get('t'), a.get('p')
            content, declared = make_content(ckind, a.get('c'), form, body=body)
            first = first_statement(ckind, form, o, t)
            if body != 'rules' and first == 'garbage':
                continue   # a byte-order mark read as 8-bit text with nothing behind it is not a style sheet: nothing to expect
            if fres == 'data':
                result = (t, content)
            elif fres == 'none':
                result = None
            elif fres == 'pair-none':
                result = (None, None)
            else:
                result = (t, None)
            rec = Rec({CHILD_URL: result})
            top = ('@charset "%s";' % p if p else '') + '@import "sub/a.css";\nz{left:0}'
            inputs = {'entry': 'parseString', 'override': o, 'transport': t, 'content': ckind, 'content_charset': a.get('c'), 'parent_charset': p, 'form': form, 'fetcher_result': fres,
                      'body': body, 'fetched': repr(result)}
            n += 1
            kinds.add((has_o, has_t, ckind, has_p, form, fres, body))
            try:
                sheet = cssutils.CSSParser(fetcher=rec).parseString(top, encoding=o, href=TOP_HREF)
            except Exception as e:  # noqa: BLE001
                ctx.violation('bounded: parsing a sheet with an @import raises nothing', f'{inputs!r}: {type(e).__name__}: {e}', True, inputs)
                continue
            where = f'import row {inputs!r}'
            # (a failed fetch is retried once when the rule is inserted: the number of calls is not part of the statement)
            if not rec.calls or set(rec.calls) != {CHILD_URL} or (fres == 'data' and len(rec.calls) != 1):
                ctx.violation('bounded: the fetcher is asked for the absolute URL of the import (once if it delivers)', f'{where}: asked {rec.calls!r}', True, inputs)
            parent_enc = o or p or 'utf-8'
            if norm(sheet.encoding) != norm(parent_enc) or not charset_consistent(sheet):
                ctx.violation('bounded: the importing sheet reports override, else its @charset, else utf-8', f'{where}: {sheet.encoding!r} expected {parent_enc!r}', True, inputs)
            irs = [r for r in sheet.cssRules if r.type == r.IMPORT_RULE]
            if len(irs) != 1 or [r.selectorText for r in sheet.cssRules if r.type == r.STYLE_RULE] != ['z']:
                ctx.violation('bounded: the import rule and its neighbours are kept whatever the fetcher answers', f'{where}: {sheet.cssText!r}', True, inputs)
                continue
            child = irs[0].styleSheet
            if fres != 'data':
                if child is not None and (len(child.cssRules) != 0 or child.encoding != 'utf-8'):
                    ctx.violation('bounded: an import the fetcher cannot deliver has an empty sheet (encoding utf-8)', f'{where}: {child.cssText!r} {child.encoding!r}', True, inputs)
                continue
            want = ladder(o, t, declared, o or p)
            want_pl = None if body != 'rules' else TEXT_PAYLOAD if form == 'text' else DECODED[want]
            check_sheet(ctx, child, want, want_pl, where, inputs, first=first, body=body)
            if len(samples) < 2 and body == 'rules' and has_t and has_p and ckind == 'charset' and not has_o:
                samples.append({'row': inputs, 'expected_encoding': want, 'decoded': want_pl})
    ctx.bounded.append({'name': 'C08 one import: precedence matrix', 'evaluations': n, 'distinct_nontrivial': len(kinds), 'exhaustive': True,
                        'rule': '(override given/not) x (transport charset given/not) x (content with UTF-8 BOM / @charset / neither) x (parent @charset known/not) x (content bytes/text) x '
                                '(fetcher result data / None / (None, None) / (charset, None)) x for data: (what follows the signature: two style rules with the payload / NOTHING - empty bytes or '
                                'text are data, not a missing answer / a comment only; a BOM read as 8-bit text is only tried with rules behind it), every injective assignment of utf-8, iso-8859-1, koi8-r, iso8859_5 to the slots present; '
                                'CSSParser(fetcher=recording).parseString(top, encoding=override, href=...); observed: importRule.styleSheet.encoding, decoded payload D0 B6, @charset mirror, cssText '
                                'decodable, URL asked; distinct = matrix cell',
                        'samples': samples, 'bound': 'one import below a parseString sheet'})


# ----------------------------------------------------------------------------- 2. top level: parseUrl, parseString, _readUrl

def toplevel(ctx):
    cssutils = _quiet()
    from cssutils.util import _readUrl
    n = 0
    kinds = set()
    url = 'http://h.example/t.css'
    # parseUrl
    for has_o, has_t, ckind, form, fres in itertools.product((False, True), (False, True), ('charset', 'bom', 'none'), ('bytes', 'text'), FETCH_RESULTS):
        slots = [s for s, on in (('o', has_o), ('t', has_t), ('c', ckind == 'charset')) if on]
        assigns = list(assignments(slots, ckind == 'bom'))
        if fres != 'data':
            assigns = assigns[:1]
        for a, body in itertools.product(assigns, BODIES if fres == 'data' else BODIES[:1]):
            o, t = a.get('o'), a.get('t')
            content, declared = make_content(ckind, a.get('c'), form, body=body)
            first = first_statement(ckind, form, o, t)
            if body != 'rules' and first == 'garbage':
                continue
            result = {'data': (t, content), 'none': None, 'pair-none': (None, None), 'charset-but-no-content': (t, None)}[fres]
            rec = Rec({url: result})
            inputs = {'entry': 'parseUrl', 'override': o, 'transport': t, 'content': ckind, 'content_charset': a.get('c'), 'form': form, 'fetcher_result': fres, 'body': body,
                      'fetched': repr(result)}
            n += 1
            kinds.add(('parseUrl', has_o, has_t, ckind, form, fres, body))
            try:
                sheet = cssutils.CSSParser(fetcher=rec).parseUrl(url, encoding=o)
            except Exception as e:  # noqa: BLE001
                ctx.violation('bounded: parseUrl raises nothing for any fetcher answer', f'{inputs!r}: {type(e).__name__}: {e}', True, inputs)
                continue
            if rec.calls != [url]:
                ctx.violation('bounded: the fetcher is asked once for the URL', f'parseUrl {inputs!r}: asked {rec.calls!r}', True, inputs)
            if fres != 'data':
                if sheet is not None:
                    ctx.violation('bounded: parseUrl gives None when the fetcher delivers nothing', f'{inputs!r}: {sheet!r}', True, inputs)
                continue
            want = ladder(o, t, declared, None)
            check_sheet(ctx, sheet, want, None if body != 'rules' else TEXT_PAYLOAD if form == 'text' else DECODED[want], f'parseUrl row {inputs!r}', inputs, first=first, body=body)
            if sheet is not None and sheet.href != url:
                ctx.violation('bounded: parseUrl sets href', f'{inputs!r}: {sheet.href!r}', True, inputs)
    # parseString
    for has_o, ckind, form in itertools.product((False, True), ('charset', 'bom', 'none'), ('bytes', 'text')):
        slots = [s for s, on in (('o', has_o), ('c', ckind == 'charset')) if on]
        for a, body in itertools.product(list(assignments(slots, ckind == 'bom')), BODIES):
            o = a.get('o')
            content, declared = make_content(ckind, a.get('c'), form, body=body)
            first = first_statement(ckind, form, o, None)
            if body != 'rules' and first == 'garbage':
                continue
            inputs = {'entry': 'parseString', 'override': o, 'content': ckind, 'content_charset': a.get('c'), 'form': form, 'body': body, 'text': repr(content)}
            n += 1
            kinds.add(('parseString', has_o, ckind, form, body))
            try:
                sheet = cssutils.CSSParser(fetcher=Rec({})).parseString(content, encoding=o)
            except Exception as e:  # noqa: BLE001
                ctx.violation('bounded: parseString raises nothing on decodable input', f'{inputs!r}: {type(e).__name__}: {e}', True, inputs)
                continue
            want = ladder(o, None, declared, None)
            check_sheet(ctx, sheet, want, None if body != 'rules' else TEXT_PAYLOAD if form == 'text' else DECODED[want], f'parseString row {inputs!r}', inputs, first=first, body=body)
    # the ladder function itself, with the parent slot
    for has_o, has_t, ckind, has_p, form, fres in itertools.product((False, True), (False, True), ('charset', 'bom', 'none'), (False, True), ('bytes', 'text'), FETCH_RESULTS):
        slots = [s for s, on in (('o', has_o), ('t', has_t), ('c', ckind == 'charset'), ('p', has_p)) if on]
        assigns = list(assignments(slots, ckind == 'bom'))
        if fres != 'data':
            assigns = assigns[:1]
        for a, body in itertools.product(assigns, BODIES if fres == 'data' else BODIES[:1]):
            o, t, p = a.get('o'), a.get('t'), a.get('p')
            content, declared = make_content(ckind, a.get('c'), form, body=body)
            result = {'data': (t, content), 'none': None, 'pair-none': (None, None), 'charset-but-no-content': (t, None)}[fres]
            inputs = {'entry': '_readUrl', 'override': o, 'transport': t, 'content': ckind, 'content_charset': a.get('c'), 'parent': p, 'form': form, 'fetcher_result': fres, 'body': body,
                      'fetched': repr(result)}
            n += 1
            kinds.add(('_readUrl', has_o, has_t, ckind, has_p, form, fres, body))
            try:
                enc, _enctype, text = _readUrl(url, fetcher=Rec({url: result}), overrideEncoding=o, parentEncoding=p)
            except Exception as e:  # noqa: BLE001
                ctx.violation('bounded: _readUrl raises nothing', f'{inputs!r}: {type(e).__name__}: {e}', True, inputs)
                continue
            if fres != 'data':
                if (enc, text) != (None, None):
                    ctx.violation('bounded: _readUrl answers nothing when the fetcher delivers nothing', f'{inputs!r}: {(enc, text)!r}', True, inputs)
                continue
            want = ladder(o, t, declared, p)
            want_text = content if form == 'text' else None
            if norm(enc) != norm(want):
                ctx.violation('bounded: reported encoding follows override > transport > BOM/@charset > parent > utf-8', f'_readUrl {inputs!r}: {enc!r} expected {want!r}', True, inputs)
            elif form == 'text' and text != want_text and text != want_text.lstrip('\ufeff'):  # (a leading U+FEFF may be dropped: it is not part of the sheet)
                ctx.violation('bounded: text content is passed through undecoded', f'_readUrl {inputs!r}: {text!r}', True, inputs)
            elif form == 'bytes' and (text is None or (DECODED[want] if body == 'rules' else BODY_TEXT[body]) not in text):
                ctx.violation('bounded: the content is decoded with the encoding chosen by the precedence', f'_readUrl {inputs!r}: {text!r} expected to hold {DECODED[want]!r}', True, inputs)
    ctx.bounded.append({'name': 'C08 top level: parseUrl / parseString / _readUrl', 'evaluations': n, 'distinct_nontrivial': len(kinds), 'exhaustive': True,
                        'rule': 'parseUrl: (override) x (transport) x (BOM/@charset/neither) x (bytes/text) x (4 fetcher answers); parseString: (override) x (BOM/@charset/neither) x (bytes/text); '
                                '_readUrl with the parent slot: the full 2x2x3x2x2x4 matrix; data rows with each body behind the signature (two style rules / nothing: empty bytes or text / a comment only); every injective assignment of the four encodings to the slots present; distinct = matrix cell',
                        'samples': [{'entry': 'parseUrl', 'override': None, 'transport': 'koi8-r', 'content_charset': 'cp1251', 'expected': 'koi8-r', 'decoded': DECODED['koi8-r']}],
                        'bound': 'single sheet'})


# ----------------------------------------------------------------------------- 3. import chains of depth <= 3

LEVEL_CONFIGS = list(itertools.product((False, True), ('charset', 'bom', 'none')))  # (transport given, content kind)
BASE = 'http://h.example/c/'


def _pick(exclude, k, rot):
    pool = [e for e in ENC8 if norm(e) not in {norm(x) for x in exclude if x}]
    pool = pool[rot % len(pool):] + pool[:rot % len(pool)]
    return pool[:k]


def chain_model(entry, override, top, levels):
    """expected encodings, expectation for the first statement and reachable depth of a chain under a given override"""
    t0, decl0, top_ckind = top
    expected = [ladder(override, t0, decl0, None)]
    firsts = ['skip' if entry == 'parseString' else first_statement(top_ckind, 'bytes', override, t0)]
    # a sheet whose first statement is damaged (see first_statement) loses its @import: nothing is expected below it
    reach = 3 if firsts[0] in ('skip', 'clean') else 0
    for k, lv in enumerate(levels, start=1):
        expected.append(ladder(override, lv['transport'], lv['declared'], expected[-1]))
        firsts.append(first_statement(lv['content'], lv['form'], override, lv['transport']))
        if firsts[-1] != 'clean' and reach > k:
            reach = k
    return expected, firsts, reach


class _Sink:
    def __init__(self):
        self.out = []

    def violation(self, what, detail, replayed=True, inputs=None, known_id=None):
        self.out.append((what, detail, inputs, known_id))


def chain_check(entry, model, levels, sheets, calls, inputs):
    """violations of one observed chain against a model"""
    expected, firsts, reach = model
    sink = _Sink()
    want_calls = ([BASE + 'top.css'] if entry == 'parseUrl' else []) + [BASE + 'l%d.css' % k for k in (1, 2, 3) if k <= reach]
    if calls[:len(want_calls)] != want_calls or (reach == 3 and len(calls) != len(want_calls)):
        sink.out.append(('bounded: every sheet of an import chain is fetched once, in order, by absolute URL', f'{inputs!r}: asked {calls!r}', inputs, None))
    observed = [s.encoding if s is not None else None for s in sheets]
    for k, s in enumerate(sheets):
        if k > reach:
            break
        if k == 0:
            form = 'text' if entry == 'parseString' else 'bytes'
        else:
            form = levels[k - 1]['form']
        body = levels[k - 1].get('body', 'rules') if k > 0 else 'rules'
        want_pl = None
        if s is not None and (k > 0 or entry == 'parseUrl') and body == 'rules':
            want_pl = TEXT_PAYLOAD if form == 'text' else DECODED[expected[k]]
        check_sheet(sink, s, expected[k], want_pl, f'chain level {k} of {inputs!r} (observed encodings {observed!r})', inputs, first=firsts[k], body=body)
    return sink.out


def run_chain(job):
    """worker: one top configuration, all 6^3 level configurations -> (evaluations, kinds, [(what, detail, inputs, known_id)])"""
    entry, has_o, top_t, top_ckind, rot, forms, bodies = job
    cssutils = _quiet()
    out = []
    n = 0
    kinds = set()
    for cfg in itertools.product(LEVEL_CONFIGS, repeat=3):
        o = ENC8[(rot + 1) % 4] if has_o else None
        # level 0 (the top sheet)
        if entry == 'parseString':
            t0 = None
            c0 = _pick([o], 1, rot)[0] if top_ckind == 'charset' else None
            decl0 = c0
        else:
            t0 = _pick([o], 1, rot)[0] if top_t else None
            c0 = _pick([o, t0], 1, rot + 1)[0] if top_ckind == 'charset' else None
            decl0 = c0 if top_ckind == 'charset' else ('utf-8' if top_ckind == 'bom' else None)
        prev = ladder(o, t0, decl0, None)
        table = {}
        levels = []
        for k, (has_t, ckind) in enumerate(cfg, start=1):
            picks = _pick([o, prev], 2, rot + k)
            t = picks[0] if has_t else None
            c = picks[1] if ckind == 'charset' else None
            form = forms[(k - 1) % len(forms)]
            tail = (b'@import "l%d.css";' % (k + 1)) if k < 3 else b''
            body = bodies[k - 1]
            if first_statement(ckind, form, o, t) == 'garbage':
                body = 'rules'   # a byte-order mark read as 8-bit text is only tried with rules behind it
            content, declared = make_content(ckind, c, form, tail, body=body)
            table[BASE + 'l%d.css' % k] = (t, content)
            prev = ladder(o, t, declared, prev)
            levels.append({'transport': t, 'content': ckind, 'content_charset': c, 'form': form, 'declared': declared, 'body': body})
        top = (t0, decl0, top_ckind)
        model = chain_model(entry, o, top, levels)
        rec = Rec(table)
        inputs = {'entry': entry, 'override': o, 'top_transport': t0, 'top_content': top_ckind, 'top_charset': c0, 'levels': levels, 'expected': model[0], 'reachable_depth': model[2]}
        n += 1
        kinds.add((entry, has_o, top_t, top_ckind, cfg, bodies))
        try:
            if entry == 'parseString':
                text = ('@charset "%s";' % c0 if c0 else '') + '@import "l1.css";'
                sheet = cssutils.CSSParser(fetcher=rec).parseString(text, encoding=o, href=BASE + 'top.css')
            else:
                content, _d = make_content(top_ckind, c0, 'bytes', b'@import "l1.css";')
                table[BASE + 'top.css'] = (t0, content)
                sheet = cssutils.CSSParser(fetcher=rec).parseUrl(BASE + 'top.css', encoding=o)
        except Exception as e:  # noqa: BLE001
            out.append(('bounded: parsing an import chain raises nothing', f'{inputs!r}: {type(e).__name__}: {e}', inputs, None))
            continue
        sheets = [sheet]
        cur = sheet
        for k in (1, 2, 3):
            irs = [r for r in cur.cssRules if r.type == r.IMPORT_RULE] if cur is not None else []
            cur = irs[0].styleSheet if irs else None
            sheets.append(cur)
        fails = chain_check(entry, model, levels, sheets, rec.calls, inputs)
        if [f for f in fails if f[3] is None] and entry == 'parseUrl' and o is None and (t0 or decl0):
            # recorded finding: parseUrl hands the *detected* encoding of the top sheet down as if it were an explicit override.
            # Its class: the observed chain is exactly the chain the statement prescribes for override := that encoding.
            defect = chain_model(entry, model[0][0], top, levels)
            dfails = chain_check(entry, defect, levels, sheets, rec.calls, inputs)
            if not [f for f in dfails if f[3] is None]:
                fails = [(w, d, i, kid or 'C08-parseurl-detected-as-override') for w, d, i, kid in fails]
        out.extend(fails)
    return n, kinds, out


def chains(ctx):
    _quiet()
    jobs = []
    rots = (0, 1) if ctx.tier == 'quick' else (0, 1, 2, 3)
    form_sets = [('bytes', 'bytes', 'bytes'), ('bytes', 'text', 'bytes')] if ctx.tier == 'quick' else [('bytes',) * 3, ('bytes', 'text', 'bytes'), ('text', 'bytes', 'text')]
    # what stands behind the signature and the @import of the levels l1, l2, l3 (see BODIES): style rules everywhere | l2 a comment only, the leaf NOTHING (for 'neither' content
    # the leaf is zero-length data) | nothing anywhere (every sheet is just its @import, the leaf is empty)
    body_sets = [('rules',) * 3, ('rules', 'comment', 'empty')] + ([('empty',) * 3] if ctx.tier != 'quick' else [])
    for rot in rots:
        for forms in form_sets:
            for bodies in body_sets:
                if bodies != body_sets[0] and (forms != form_sets[0] or (ctx.tier == 'quick' and rot != rots[0])):
                    continue
                for has_o in (False, True):
                    for top_ckind in ('charset', 'none'):
                        jobs.append(('parseString', has_o, False, top_ckind, rot, forms, bodies))
                if forms == form_sets[0]:
                    for has_o in (False, True):
                        for top_t in (False, True):
                            for top_ckind in ('charset', 'bom', 'none'):
                                jobs.append(('parseUrl', has_o, top_t, top_ckind, rot, forms, bodies))
    if ctx.jobs > 1:
        with multiprocessing.get_context('fork').Pool(ctx.jobs) as pool:
            results = list(pool.imap(run_chain, jobs))
    else:
        results = [run_chain(j) for j in jobs]
    n = 0
    kinds = set()
    for k, kk, viol in results:
        n += k
        kinds |= kk
        for what, detail, inputs, known in viol:
            ctx.violation(what, detail, True, inputs, known_id=known)
    # witnesses of the recorded findings
    ctx.known_finding('C08-parseurl-detected-as-override', _parseurl_witness())
    ctx.known_finding('C08-bom-char-not-skipped', _bom_witness())
    ctx.bounded.append({'name': 'C08 import chains', 'evaluations': n, 'distinct_nontrivial': len(kinds), 'exhaustive': True,
                        'rule': 'chains top -> l1 -> l2 -> l3; every level independently (transport given/not) x (BOM/@charset/neither) = 6^3 configurations, under parseString tops '
                                '(override given/not x top @charset known/not) and parseUrl tops (override x transport x BOM/@charset/neither); encodings chosen per level distinct from the '
                                f'override and from the referring sheet\'s encoding, {len(rots)} rotations, level contents as bytes and (alternately) text, behind the signature and the @import of a level: style rules '
                                f'at every level, and (all-bytes chains{", first rotation" if ctx.tier == "quick" else ""}) {" / ".join(",".join(b) for b in body_sets[1:])} for l1,l2,l3 - an empty leaf is zero-length DATA; expected encoding of level k = '
                                'override, else transport_k, else content_k, else expected encoding of level k-1, else utf-8; observed at every level: encoding, decoded payload, @charset mirror, '
                                'fetch order; distinct = (entry, top configuration, level configurations)',
                        'samples': [{'entry': 'parseString', 'override': None, 'levels': ['transport koi8-r', 'neither', '@charset cp1251'], 'expected': ['utf-8', 'koi8-r', 'koi8-r', 'cp1251']}],
                        'bound': 'depth <= 3'})


def _parseurl_witness():
    cssutils = _quiet()
    rec = Rec({'http://h/a.css': ('koi8-r', b'@import "b.css";'), 'http://h/b.css': ('cp1251', b'a{content:"' + PAYLOAD + b'"}')})
    try:
        s = cssutils.CSSParser(fetcher=rec).parseUrl('http://h/a.css')
        child = [r for r in s.cssRules if r.type == r.IMPORT_RULE][0].styleSheet
        return norm(child.encoding) != 'cp1251'
    except Exception:  # noqa: BLE001
        return False


def _bom_witness():
    cssutils = _quiet()
    try:
        s = cssutils.CSSParser(fetcher=Rec({})).parseString(BOM8 + b'a{left:0}', encoding='utf-8')
        return [r.selectorText for r in s.cssRules if r.type == r.STYLE_RULE] != ['a']
    except Exception:  # noqa: BLE001
        return False


# ----------------------------------------------------------------------------- 3b. imports resolved AFTER the parse: parse / change the encoding / load a new import

# "the referring sheet's encoding" is the encoding the referring sheet reports WHEN the import is resolved.  An import is not only resolved while its sheet is parsed: setting
# importRule.href, assigning importRule.cssText, inserting an @import rule (as text, as a rule object built with or without its parent sheet) or sheet.add() load a sheet later, when
# the encoding the sheet was parsed with may have been replaced.  Histories:  parse (every way a sheet gets its first encoding) ; change the sheet's encoding (every mutator that
# does it, or none) ; trigger a new import load (every form) ; the loaded sheet must follow  transport > BOM/@charset > encoding the referring sheet reports NOW > utf-8
# (the override of a parse call is an argument of THAT call: what it leaves behind is the sheet's @charset rule, i.e. the parent slot).
LATE_BASE = 'http://h.example/late/'
LATE_CHANGES = ['keep', 'attr', 'attr-none', 'rule-attr', 'rule-csstext', 'delete-rule', 'insert-rule-text', 'attr-twice']
LATE_TRIGGERS = ['href-set', 'rule-csstext', 'insert-text', 'insert-text-end', 'add-text', 'insert-rule-with-parent', 'insert-rule-orphan', 'insert-rule-built-href']


def _late_targets():
    """(entry, override?, top transport?, top content kind, level of the target sheet, l1 (transport?, kind) or None)"""
    out = []
    for has_o, top_ckind in itertools.product((False, True), ('charset', 'none')):
        out.append(('parseString', has_o, False, top_ckind, 0, None))
    for has_o, top_t, top_ckind in itertools.product((False, True), (False, True), ('charset', 'bom', 'none')):
        out.append(('parseUrl', has_o, top_t, top_ckind, 0, None))
    # the target is the imported sheet l1 (it got its encoding from its own transport / content / from the referring sheet / from the override)
    for entry, has_o, top_t, top_ckind in (('parseString', False, False, 'none'), ('parseString', False, False, 'charset'), ('parseString', True, False, 'none'), ('parseUrl', False, True, 'none')):
        for cfg in LEVEL_CONFIGS:
            out.append((entry, has_o, top_t, top_ckind, 1, cfg))
    return out


def _late_change(cssutils, sheet, change, e2, e3, before):
    """apply one way of changing the encoding a sheet reports -> the encoding the sheet must report afterwards (None: no @charset rule), or 'n/a' when the way does not apply"""
    has_rule = bool(sheet.cssRules.length) and sheet.cssRules[0].type == sheet.cssRules[0].CHARSET_RULE
    if change == 'keep':
        return before if has_rule else None
    if change == 'attr':
        sheet.encoding = e2
        return e2
    if change == 'attr-twice':
        sheet.encoding = e3
        sheet.encoding = e2
        return e2
    if change == 'attr-none':
        sheet.encoding = None
        return None
    if change == 'rule-attr':
        if not has_rule:
            return 'n/a'
        sheet.cssRules[0].encoding = e2
        return e2
    if change == 'rule-csstext':
        if not has_rule:
            return 'n/a'
        sheet.cssRules[0].cssText = '@charset "%s";' % e2
        return e2
    if change == 'delete-rule':
        if not has_rule:
            return 'n/a'
        sheet.deleteRule(0)
        return None
    if change == 'insert-rule-text':
        if has_rule:
            return 'n/a'
        sheet.insertRule('@charset "%s";' % e2, 0)
        return e2
    raise ValueError(change)


def _late_trigger(cssutils, sheet, trigger, href):
    """load a new import below sheet -> the import rule"""
    irs = [r for r in sheet.cssRules if r.type == r.IMPORT_RULE]
    first = 1 if sheet.cssRules.length and sheet.cssRules[0].type == sheet.cssRules[0].CHARSET_RULE else 0
    if trigger == 'href-set':
        if not irs:
            return 'n/a'
        irs[0].href = href
        return irs[0]
    if trigger == 'rule-csstext':
        if not irs:
            return 'n/a'
        irs[0].cssText = '@import "%s";' % href
        return irs[0]
    if trigger == 'insert-text':
        sheet.insertRule('@import "%s";' % href, first)
    elif trigger == 'insert-text-end':
        # behind the last @import / @charset rule
        idx = max([i for i, r in enumerate(sheet.cssRules) if r.type in (r.IMPORT_RULE, r.CHARSET_RULE)] + [-1]) + 1
        sheet.insertRule('@import url(%s) print;' % href, idx)
        return sheet.cssRules[idx]
    elif trigger == 'add-text':
        sheet.add('@import "%s";' % href)
        return [r for r in sheet.cssRules if r.type == r.IMPORT_RULE and r.href == href][-1]
    elif trigger == 'insert-rule-with-parent':
        sheet.insertRule(cssutils.css.CSSImportRule(href=href, parentStyleSheet=sheet), first)
    elif trigger == 'insert-rule-orphan':
        sheet.insertRule(cssutils.css.CSSImportRule(href=href), first)
    elif trigger == 'insert-rule-built-href':
        r = cssutils.css.CSSImportRule()
        r.href = href
        sheet.insertRule(r, first)
    else:
        raise ValueError(trigger)
    return sheet.cssRules[first]


def run_late(job):
    """worker: one target sheet configuration x rotation -> (evaluations, kinds, [(what, detail, inputs, known_id)])"""
    (entry, has_o, top_t, top_ckind, level, l1cfg), rot = job
    cssutils = _quiet()
    sink = _Sink()
    n = 0
    kinds = set()
    for change, trigger, (late_t, late_ckind), form in itertools.product(LATE_CHANGES, LATE_TRIGGERS, LEVEL_CONFIGS, ('bytes', 'text')):
        if form == 'text' and (late_t or late_ckind != 'none' or trigger not in ('href-set', 'insert-rule-with-parent')):
            continue   # text content is decoded already: one row per direct trigger shows it is passed through
        # ---- the parse
        o = ENC8[(rot + 1) % 4] if has_o else None
        if entry == 'parseString':
            t0 = None
            c0 = _pick([o], 1, rot)[0] if top_ckind == 'charset' else None
            decl0 = c0
        else:
            t0 = _pick([o], 1, rot)[0] if top_t else None
            c0 = _pick([o, t0], 1, rot + 1)[0] if top_ckind == 'charset' else None
            decl0 = c0 if top_ckind == 'charset' else ('utf-8' if top_ckind == 'bom' else None)
        enc0 = ladder(o, t0, decl0, None)
        if entry == 'parseUrl' and first_statement(top_ckind, 'bytes', o, t0) != 'clean':
            continue   # the top sheet itself is damaged (see first_statement): chains() has these rows
        table = {}
        enc1 = None
        if level == 1:
            has_t1, ckind1 = l1cfg
            picks = _pick([o, enc0], 2, rot + 1)
            t1 = picks[0] if has_t1 else None
            c1 = picks[1] if ckind1 == 'charset' else None
            if first_statement(ckind1, 'bytes', o, t1) != 'clean':
                continue
            content1, declared1 = make_content(ckind1, c1, 'bytes', b'@import "l2.css";')
            table[LATE_BASE + 'l1.css'] = (t1, content1)
            table[LATE_BASE + 'l2.css'] = (None, b'g{left:0}')
            enc1 = ladder(o, t1, declared1, enc0)
        before = enc1 if level == 1 else enc0
        # ---- the encodings of the change and of the late sheet: different from the one the target sheet has, and from each other
        e2, e3 = _pick([before], 2, rot + 2)
        picks = _pick([before, e2], 2, rot + 3)
        lt = picks[0] if late_t else None
        lc = picks[1] if late_ckind == 'charset' else None
        if first_statement(late_ckind, form, None, lt) != 'clean':
            continue   # (BOM under a transport charset / in text: recorded class of the matrix, not this domain's subject)
        late_content, late_declared = make_content(late_ckind, lc, form)
        table[LATE_BASE + 'late.css'] = (lt, late_content)
        rec = Rec(table)
        inputs = {'entry': entry, 'override': o, 'top_transport': t0, 'top_content': top_ckind, 'top_charset': c0, 'target_level': level,
                  'l1': None if level == 0 else {'transport': t1, 'content': ckind1, 'content_charset': c1}, 'encoding_after_parse': before,
                  'change': change, 'new_encoding': e2, 'trigger': trigger, 'late': {'transport': lt, 'content': late_ckind, 'content_charset': lc, 'form': form}}
        try:
            if entry == 'parseString':
                text = ('@charset "%s";' % c0 if c0 else '') + '@import "l1.css";z{left:0}'
                top = cssutils.CSSParser(fetcher=rec).parseString(text, encoding=o, href=LATE_BASE + 'top.css')
            else:
                content0, _d = make_content(top_ckind, c0, 'bytes', b'@import "l1.css";')
                table[LATE_BASE + 'top.css'] = (t0, content0)
                top = cssutils.CSSParser(fetcher=rec).parseUrl(LATE_BASE + 'top.css', encoding=o)
            target = top
            if level == 1:
                target = [r for r in top.cssRules if r.type == r.IMPORT_RULE][0].styleSheet
            if target is None or norm(target.encoding) != norm(before):
                continue   # the parse itself went wrong: imports_matrix / chains report it
        except Exception as e:  # noqa: BLE001
            sink.out.append(('bounded: parsing a sheet with an @import raises nothing', f'{inputs!r}: {type(e).__name__}: {e}', inputs, None))
            continue
        # ---- the change
        try:
            now = _late_change(cssutils, target, change, e2, e3, before)
        except Exception as e:  # noqa: BLE001
            sink.out.append(('bounded: changing the encoding of a parsed sheet raises nothing', f'{inputs!r}: {type(e).__name__}: {e}', inputs, None))
            continue
        if now == 'n/a':
            continue
        if norm(target.encoding) != norm(now or 'utf-8') or not charset_consistent(target):
            sink.out.append(('bounded: sheet.encoding equals its @charset rule (utf-8 if none)', f'late import {inputs!r}: after the change the sheet reports {target.encoding!r}, expected {now or "utf-8"!r}',
                             inputs, None))
            continue
        # ---- the late load
        calls0 = len(rec.calls)
        try:
            rule = _late_trigger(cssutils, target, trigger, 'late.css')
        except Exception as e:  # noqa: BLE001
            sink.out.append(('bounded: loading an import into a parsed sheet raises nothing', f'{inputs!r}: {type(e).__name__}: {e}', inputs, None))
            continue
        if rule == 'n/a':
            continue
        n += 1
        kinds.add((entry, has_o, top_t, top_ckind, level, l1cfg, change, trigger, late_t, late_ckind, form))
        where = f'late import {inputs!r}'
        if getattr(rule, 'type', None) != 3 or rule.href != 'late.css':
            sink.out.append(('bounded: the import rule of a late load is in the sheet', f'{where}: rules {[r.cssText for r in target.cssRules]!r}', inputs, None))
            continue
        if LATE_BASE + 'late.css' not in rec.calls[calls0:]:
            sink.out.append(('bounded: the fetcher is asked for the absolute URL of the import (once if it delivers)', f'{where}: asked {rec.calls[calls0:]!r}', inputs, None))
        want = ladder(None, lt, late_declared, now)
        check_sheet(sink, rule.styleSheet, want, TEXT_PAYLOAD if form == 'text' else DECODED[want], where, inputs, first='clean', body='rules')
        # the referring sheet still reports what it reported before the load
        if norm(target.encoding) != norm(now or 'utf-8') or not charset_consistent(target):
            sink.out.append(('bounded: sheet.encoding equals its @charset rule (utf-8 if none)', f'{where}: after the load the referring sheet reports {target.encoding!r}, expected {now or "utf-8"!r}',
                             inputs, None))
    return n, kinds, sink.out


def late_imports(ctx):
    _quiet()
    rots = (0,) if ctx.tier == 'quick' else (0, 1, 2, 3)
    targets = _late_targets()
    jobs = [(tg, rot) for tg in targets for rot in rots]
    if ctx.jobs > 1:
        with multiprocessing.get_context('fork').Pool(ctx.jobs) as pool:
            results = list(pool.imap(run_late, jobs))
    else:
        results = [run_late(j) for j in jobs]
    n = 0
    kinds = set()
    for k, kk, viol in results:
        n += k
        kinds |= kk
        for what, detail, inputs, known in viol:
            ctx.violation(what, detail, True, inputs, known_id=known)
    ctx.bounded.append({'name': 'C08 imports resolved after the parse', 'evaluations': n, 'distinct_nontrivial': len(kinds), 'exhaustive': True,
                        'rule': f'histories parse ; change the encoding ; load a new import.  parse: {len(targets)} target sheets - the top sheet of parseString (override given/not x @charset/none) and of parseUrl '
                                '(override x transport x BOM/@charset/neither), and the imported sheet l1 (transport given/not x BOM/@charset/neither) below four of these tops; '
                                f'change: {", ".join(LATE_CHANGES)} (sheet.encoding = e / None / twice, charsetRule.encoding, charsetRule.cssText, deleteRule(0), insertRule of an @charset text - those that apply); '
                                f'load: {", ".join(LATE_TRIGGERS)} (importRule.href = .., importRule.cssText = .., insertRule / add of @import text, insertRule of a CSSImportRule built with its parent, without, '
                                'and empty with href assigned before the insert); late sheet: (transport given/not) x (BOM/@charset/neither) as bytes, neither also as text; encodings pairwise distinct per row, '
                                f'{len(rots)} rotations; expected encoding of the late sheet = transport, else content, else the encoding the referring sheet reports at that moment, else utf-8; observed: encoding, decoded payload, '
                                '@charset mirror and decodable serialisation of the late sheet, URL asked, the referring sheet still reports its encoding; distinct = (target, change, load form, late configuration)',
                        'samples': [{'entry': 'parseUrl', 'top_transport': 'iso-8859-1', 'change': 'attr', 'new_encoding': 'utf-8', 'trigger': 'href-set', 'late': 'neither', 'expected': 'utf-8'}],
                        'bound': 'one change, one late load per history; late load below the top sheet or below a directly imported sheet'})


# ----------------------------------------------------------------------------- 4. UTF-16 rows

def utf16_rows(ctx):
    cssutils = _quiet()
    n = 0
    kinds = set()
    body = 'a{content:"' + TEXT_PAYLOAD + '"}'
    u16 = body.encode('utf-16')  # with BOM
    u16_cs = ('@charset "utf-16";' + body).encode('utf-16')
    u16le_nobom = body.encode('utf-16-le')
    rows = [
        # name, override, top charset, transport, content, expected child encoding
        ('bom-only', None, None, None, u16, 'utf-16'),
        ('bom-beats-parent', None, 'koi8-r', None, u16, 'utf-16'),
        ('bom+charset', None, 'koi8-r', None, u16_cs, 'utf-16'),
        ('transport-utf16', None, 'koi8-r', 'utf-16', u16, 'utf-16'),
        ('transport-utf16-le-no-bom', None, None, 'utf-16-le', u16le_nobom, 'utf-16'),
        ('override-utf16', 'utf-16', None, 'koi8-r', u16, 'utf-16'),
        ('override-utf16-over-charset', 'utf-16', 'cp1251', None, u16_cs, 'utf-16'),
        ('parent-utf16-text-child', None, 'utf-16', None, body, 'utf-16'),
    ]
    for name, o, p, t, content, want in rows:
        rec = Rec({CHILD_URL: (t, content)})
        top = ('@charset "%s";' % p if p else '') + '@import "sub/a.css";'
        inputs = {'row': name, 'override': o, 'parent_charset': p, 'transport': t}
        n += 1
        kinds.add(name)
        try:
            sheet = cssutils.CSSParser(fetcher=rec).parseString(top, encoding=o, href=TOP_HREF)
            child = [r for r in sheet.cssRules if r.type == r.IMPORT_RULE][0].styleSheet
        except Exception as e:  # noqa: BLE001
            ctx.violation('bounded: parsing a sheet with an @import raises nothing', f'utf-16 row {inputs!r}: {type(e).__name__}: {e}', True, inputs)
            continue
        check_sheet(ctx, child, want, TEXT_PAYLOAD, f'utf-16 row {inputs!r}', inputs)
        # top level, bytes
    # (parseString of BOM-only bytes: the text is decoded by the BOM, but no @charset rule exists, so the REPORTED encoding is utf-8 -
    #  sentence 2 of the statement; imports and parseUrl write the detected encoding into the sheet instead)
    for name, o, content, want in [('top-bom', None, u16, 'utf-8'), ('top-bom+charset', None, u16_cs, 'utf-16'), ('top-override', 'utf-16', u16, 'utf-16'),
                                   ('top-override-le', 'utf-16-le', u16le_nobom, 'utf-16')]:
        inputs = {'row': name, 'override': o}
        n += 1
        kinds.add(name)
        try:
            sheet = cssutils.CSSParser(fetcher=Rec({})).parseString(content, encoding=o)
        except Exception as e:  # noqa: BLE001
            ctx.violation('bounded: parseString raises nothing on decodable input', f'utf-16 row {inputs!r}: {type(e).__name__}: {e}', True, inputs)
            continue
        check_sheet(ctx, sheet, want, TEXT_PAYLOAD, f'utf-16 row {inputs!r}', inputs)
    ctx.bounded.append({'name': 'C08 UTF-16 rows', 'evaluations': n, 'distinct_nontrivial': len(kinds), 'exhaustive': False,
                        'rule': 'the fifth, ASCII-incompatible encoding: content encoded in UTF-16 as a whole, winning as BOM, as BOM over a known parent, as transport (with/without BOM), as override '
                                '(over transport, over @charset) and as the parent encoding of a text child; top level with BOM / override',
                        'samples': [{'row': 'bom-beats-parent'}], 'bound': 'hand-listed rows'})


# ----------------------------------------------------------------------------- 5. the encoding attribute

def encoding_attribute(ctx):
    cssutils = _quiet()
    sources = ['', 'a{left:0}', '@charset "koi8-r"; a{left:0}', '/*c*/ @import "x.css"; @namespace "n"; a{left:0} @media print{b{top:0}}', '@charset "ascii";']
    values = [None, 'ascii', 'koi8-r', 'UTF-8', 'iso-8859-1', 'utf-16', '', 'no-such-encoding', '"x"']
    valid = {v for v in values if v and norm(v)[0] != '?' and v != '"x"'}
    kmax = 3 if ctx.tier == 'quick' else 4
    n = 0
    kinds = set()
    what = 'bounded: assigning sheet.encoding creates / updates / deletes the @charset rule and nothing else'
    try:
        for mode in (True, False):
            for src in sources:
                for k in range(1, kmax + 1):
                    for seq in itertools.product(values, repeat=k):
                        cssutils.log.raiseExceptions = mode
                        sheet = cssutils.CSSParser(fetcher=Rec({})).parseString(src)
                        cssutils.log.raiseExceptions = mode
                        model = norm(sheet.encoding) if [r for r in sheet.cssRules if r.type == r.CHARSET_RULE] else None
                        others = [(r.type, r.cssText) for r in sheet.cssRules if r.type != r.CHARSET_RULE]
                        for step, v in enumerate(seq):
                            n += 1
                            raised = None
                            try:
                                sheet.encoding = v
                            except xml.dom.DOMException as e:
                                raised = e
                            except Exception as e:  # noqa: BLE001
                                # recorded finding: log mode, no @charset rule yet, value is not a usable encoding name
                                kid = None
                                if isinstance(e, AttributeError) and "_encoding" in str(e) and not mode and model is None and v and v not in valid:
                                    kid = 'C08-unknown-encoding-attributeerror'
                                ctx.violation('bounded: assigning sheet.encoding raises DOM exceptions only', f'{src!r} {seq[:step + 1]!r} raise={mode}: {type(e).__name__}: {e}', True,
                                              {'source': src, 'values': list(seq[:step + 1]), 'raise': mode}, known_id=kid)
                                break
                            inputs = {'source': src, 'values': list(seq[:step + 1]), 'raise': mode}
                            if v in valid:
                                model = norm(v)
                                bad = raised is not None
                            elif not v:
                                model = None
                                bad = raised is not None
                            else:
                                bad = (raised is None) if mode else (raised is not None)
                            cs = [i for i, r in enumerate(sheet.cssRules) if r.type == r.CHARSET_RULE]
                            now = [(r.type, r.cssText) for r in sheet.cssRules if r.type != r.CHARSET_RULE]
                            enc = sheet.encoding
                            if bad:
                                ctx.violation('bounded: a valid encoding is accepted, an unknown one rejected (DOM exception in raising mode, silently in log mode)',
                                              f'{src!r} {seq[:step + 1]!r} raise={mode}: raised={raised!r}', True, inputs)
                                break
                            if (model is None and (cs or enc != 'utf-8')) or (model is not None and (cs != [0] or norm(enc) != model or norm(sheet.cssRules[0].encoding) != model)) or now != others:
                                ctx.violation(what, f'{src!r} {seq[:step + 1]!r} raise={mode}: encoding {enc!r}, charset rules at {cs!r}, model {model!r}, other rules {"kept" if now == others else now!r}',
                                              True, inputs)
                                break
                            try:
                                t = sheet.cssText.decode(enc)
                                if t.startswith('@charset') != (model is not None):
                                    ctx.violation(what, f'{src!r} {seq[:step + 1]!r}: serialised {t[:40]!r}', True, inputs)
                                    break
                            except Exception as e:  # noqa: BLE001
                                ctx.violation('bounded: sheet.cssText is a byte string decodable in sheet.encoding', f'{src!r} {seq[:step + 1]!r}: {type(e).__name__}: {e}', True, inputs)
                                break
                        else:
                            kinds.add((src, tuple('valid' if v in valid else 'none' if not v else 'bad' for v in seq)))
    finally:
        cssutils.log.raiseExceptions = True
    ctx.bounded.append({'name': 'C08 encoding attribute histories', 'evaluations': n, 'distinct_nontrivial': len(kinds), 'exhaustive': True,
                        'rule': f'all sequences of <= {kmax} assignments sheet.encoding = v, v in {values!r}, on {len(sources)} sheets (empty, no @charset, with @charset, comment/@import/@namespace first, '
                                '@charset only), raising and log mode; after each step: one @charset rule in front holding v (none and utf-8 for None/""), every other rule unchanged, serialisation '
                                'decodable and starting with @charset exactly when the rule exists; unknown names rejected without change; distinct = (sheet, sequence of value kinds)',
                        'samples': [{'source': 'a{left:0}', 'values': ['koi8-r', None], 'expected': 'rule created then deleted'}], 'bound': f'histories of <= {kmax} assignments'})


# ----------------------------------------------------------------------------- 6. serialisation: decodable and lossless

POSITIONS = {
    # name: (template, follower kinds allowed)   X = character + follower
    'comment-top': ('/* {X} */ a {{ left: 0 }}', 'any'),
    'comment-in-declarations': ('a {{ left: 0; /* {X} */ top: 0 }}', 'any'),
    'comment-in-selector': ('a /* {X} */ b {{ left: 0 }}', 'any'),
    'selector-type': ('e{X} {{ left: 0 }}', 'ident'),
    'selector-type-first': ('{X}, b {{ left: 0 }}', 'ident'),
    'selector-class': ('.c{X} {{ left: 0 }}', 'ident'),
    'selector-id': ('#i{X} {{ left: 0 }}', 'ident'),
    'selector-attr-string': ('a[title="{X}"] {{ left: 0 }}', 'any'),
    'selector-attr-ident': ('a[title=v{X}] {{ left: 0 }}', 'ident'),
    'selector-pseudo-arg': ('a:lang(l{X}) {{ left: 0 }}', 'ident'),
    'property-name': ('a {{ b{X}: c }}', 'ident'),
    'value-ident': ('a {{ font-family: f{X} }}', 'ident'),
    'value-ident-first': ('a {{ font-family: {X}, g }}', 'ident'),
    'value-string': ('a {{ content: "{X}" }}', 'any'),
    'value-string-single': ("a {{ content: '{X}' }}", 'any'),
    'value-url': ('a {{ background: url(i{X}.png) }}', 'ident'),
    'value-url-quoted': ('a {{ background: url("i {X}.png") }}', 'any'),
    'value-function-arg': ('a {{ content: attr(d{X}) }}', 'ident'),
    'import-string': ('@import "i{X}.css";', 'any'),
    'import-url': ('@import url(i{X}.css) print;', 'ident'),
    'import-name': ('@import "i.css" print "{X}";', 'any'),
    'namespace-uri': ('@namespace p "u{X}"; p|a {{ left: 0 }}', 'any'),
    'namespace-prefix': ('@namespace p{X} "u"; p{X}|a {{ left: 0 }}', 'ident-nospace'),
    'media-inner-string': ('@media print {{ a {{ content: "{X}" }} }}', 'any'),
    'font-face-string': ('@font-face {{ font-family: "{X}"; src: url(f{X}.ttf) }}', 'ident'),
    'page-declaration': ('@page :first {{ font-family: f{X} }}', 'ident'),
    'unknown-at-rule': ('@foo b{X} "{X}";', 'ident'),
}
CHARS = ['\u00e4', '\u00ff', '\u0100', '\u0436', '\u20ac', '\u4e2d', '\U0001f600', '\U0010ffff']
FOLLOWERS = [('', 'ident'), ('a', 'ident'), ('0', 'ident'), ('g', 'ident'), ('-', 'ident'), (' ', 'any'), (' a', 'any'), ('\u00e4', 'ident')]
# surrogate code points reach the DOM through CSS escapes (the tokenizer decodes \D800 to a lone surrogate); no encoding can
# represent them, so they must come out as escapes again - also when the sheet has NO @charset rule (utf-8 by default)
SURROGATES = ['\ud800', '\udbff', '\udc00', '\udfff', '\ud83d\ude00', '\udc00\ud800']
# None: sheet.encoding = None (rule deleted / never created); 'unset': the attribute is never assigned
TARGETS = ['utf-8', 'ascii', 'iso-8859-1', 'koi8-r', 'cp1251', 'utf-16', 'utf-32', 'utf-16-le', None, 'unset']


def source_spelling(ch):
    """how the character is written in the source: itself, or (surrogates) as CSS escapes ended by one space"""
    if any(0xD800 <= ord(c) <= 0xDFFF for c in ch):
        return ''.join('\\%X' % ord(c) for c in ch) + ' '
    return ch


def project_sheet(sheet):
    """DOM through public accessors (values hold characters, not escapes)"""
    def rule(r):
        t = r.type
        if t == r.STYLE_RULE:
            return ('style', [s.selectorText for s in r.selectorList], [(p.name, p.value, p.priority) for p in r.style.getProperties(all=True)], r.style.cssText)
        if t == r.CHARSET_RULE:
            return ('charset', r.encoding)
        if t == r.IMPORT_RULE:
            return ('import', r.href, r.media.mediaText, r.name)
        if t == r.NAMESPACE_RULE:
            return ('namespace', r.prefix, r.namespaceURI)
        if t == r.MEDIA_RULE:
            return ('media', r.media.mediaText, [rule(x) for x in r.cssRules])
        if t in (r.FONT_FACE_RULE, r.PAGE_RULE):
            return ('block', t, getattr(r, 'selectorText', None), [(p.name, p.value, p.priority) for p in r.style.getProperties(all=True)])
        if t == r.COMMENT:
            return ('comment', r.cssText)
        return ('other', t, r.cssText)
    return [rule(r) for r in sheet.cssRules]


def run_serialise(job):
    """worker: one position -> (evaluations, kinds, violations)"""
    pname, tier = job
    cssutils = _quiet()
    tmpl, fkind = POSITIONS[pname]
    out = []
    n = 0
    kinds = set()
    parser = cssutils.CSSParser(fetcher=Rec({}))
    for ch in CHARS + SURROGATES:
        if pname == 'property-name':
            ch = ch.lower()  # property names are held normalised (lower case)
        for fol, fk in FOLLOWERS:
            if fkind != 'any' and fk == 'any':
                continue
            if fkind == 'ident-nospace' and fk == 'any':
                continue
            x = source_spelling(ch) + fol
            src = tmpl.format(X=x)
            want_count = unescape(src).count(ch)
            try:
                base = parser.parseString(src)
                base_proj = project_sheet(base)
            except Exception as e:  # noqa: BLE001
                out.append(('bounded: generator self-check: the source parses', f'{src!r}: {type(e).__name__}: {e}', {'source': src}))
                continue
            try:
                base_text = base.cssText.decode('utf-8')
            except Exception as e:  # noqa: BLE001
                n += 1
                out.append(('bounded: serialising a sheet without @charset rule never raises and gives utf-8 bytes', f'{src!r}: {type(e).__name__}: {e}', {'source': src, 'target': 'unset'}))
                continue
            if unescape(base_text).count(ch) != want_count:
                out.append(('bounded: generator self-check: the character is held at this position', f'{src!r} -> {base_text!r}', {'source': src}))
                continue
            for target in TARGETS:
                n += 1
                inputs = {'position': pname, 'source': src, 'target': target}
                kinds.add((pname, ch, target))
                try:
                    sheet = parser.parseString(src)
                    if target != 'unset':
                        sheet.encoding = target
                    b = sheet.cssText
                except Exception as e:  # noqa: BLE001
                    out.append(('bounded: serialising under any target encoding never raises', f'{src!r} as {target}: {type(e).__name__}: {e}', inputs))
                    continue
                if not isinstance(b, bytes):
                    out.append(('bounded: sheet.cssText is a byte string decodable in sheet.encoding', f'{src!r} as {target}: {type(b).__name__}', inputs))
                    continue
                try:
                    text = b.decode(sheet.encoding)
                except Exception as e:  # noqa: BLE001
                    out.append(('bounded: sheet.cssText is a byte string decodable in sheet.encoding', f'{src!r} as {target}: {type(e).__name__}: {e}', inputs))
                    continue
                if (target in (None, 'unset')) != (not [r for r in sheet.cssRules if r.type == r.CHARSET_RULE]) or (target in (None, 'unset') and sheet.encoding != 'utf-8'):
                    out.append(('bounded: sheet.encoding equals its @charset rule (utf-8 if none)', f'{src!r} as {target}: encoding {sheet.encoding!r}, text {text[:30]!r}', inputs))
                    continue
                try:
                    ch.encode(target if target not in (None, 'unset') else 'utf-8')
                    encodable = True
                except UnicodeEncodeError:
                    encodable = False
                literal = text.count(ch)
                if unescape(text).count(ch) != want_count:
                    out.append(('bounded: an unencodable character is written as a CSS escape, never dropped', f'{src!r} as {target}: {text!r}', inputs))
                    continue
                if not encodable and (literal or any(len(re.findall(r'\\0*%X(?![0-9a-fA-F])' % ord(c), text, re.I)) != want_count * ch.count(c) for c in set(ch))):
                    out.append(('bounded: an unencodable character is written as a CSS escape, never dropped', f'{src!r} as {target}: {text!r}', inputs))
                    continue
                # reparse the decoded text and the bytes
                proj = project_sheet(sheet)
                for how, data in (('decoded text', text), ('bytes', b)):
                    try:
                        again = parser.parseString(data)
                        p2 = project_sheet(again)
                    except Exception as e:  # noqa: BLE001
                        out.append(('bounded: the serialisation reparses', f'{src!r} as {target} ({how}): {type(e).__name__}: {e}', inputs))
                        continue
                    if p2 != proj:
                        out.append(('bounded: decoding + reparsing the serialisation gives the same DOM', f'{src!r} as {target} ({how}): {text!r}: {p2!r} expected {proj!r}', inputs))
                    elif [x for x in proj if x[0] != 'charset'] != [x for x in base_proj if x[0] != 'charset']:
                        out.append(('bounded: setting the encoding changes nothing but the @charset rule', f'{src!r} as {target}: {proj!r} vs {base_proj!r}', inputs))
    return n, kinds, out


def serialisation(ctx):
    _quiet()
    jobs = [(p, ctx.tier) for p in POSITIONS]
    if ctx.jobs > 1:
        with multiprocessing.get_context('fork').Pool(ctx.jobs) as pool:
            results = list(pool.imap(run_serialise, jobs))
    else:
        results = [run_serialise(j) for j in jobs]
    n = 0
    kinds = set()
    for k, kk, viol in results:
        n += k
        kinds |= kk
        for what, detail, inputs in viol:
            ctx.violation(what, detail, True, inputs)
    ctx.bounded.append({'name': 'C08 serialisation: decodable, lossless, escaped', 'evaluations': n, 'distinct_nontrivial': len(kinds), 'exhaustive': True,
                        'rule': f'{len(POSITIONS)} syntactic positions (comments at 3 places, selector type/class/id/attribute string+ident/pseudo argument, property name, value ident/string/url/quoted '
                                f'url/function argument, @import string/url/name, @namespace uri/prefix, inside @media, @font-face, @page, unknown at-rule) x {len(CHARS)} characters (U+E4, U+FF, U+100, '
                                f'U+436, U+20AC, U+4E2D, U+1F600, U+10FFFF) + {len(SURROGATES)} surrogate cases written as CSS escapes in the source (U+D800, U+DBFF, U+DC00, U+DFFF alone, a high+low pair, '
                                f'a low+high pair) x followers (none, hex digit letter, digit, non-hex letter, hyphen, space, space+hex digit, second non-ASCII) x '
                                f'{len(TARGETS)} targets (8 encodings set through sheet.encoding, sheet.encoding = None, and never assigned - both without @charset rule); each: cssText is bytes, decodes in sheet.encoding, the character count after reference un-escaping is kept, '
                                'an unencodable character appears only as \\HEX, decoded text and bytes both reparse to the same DOM projection, which equals the original one apart from @charset; '
                                'distinct = (position, character, target)',
                        'samples': [{'source': 'a { content: "\u00e4a" }', 'target': 'ascii', 'expected_text': '@charset "ascii";\na {\n    content: "\\E4 a"\n    }'}],
                        'bound': 'one non-ASCII character (+ follower) per sheet'})
