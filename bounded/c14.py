"""C14 bounded stand-in: ALL sequences (up to a length bound) of registry operations on a fresh cssutils.profiles.Profiles() instance.

After every operation the observation (verdict vector of a fixed battery through validate and validateWithProfile, knownNames, profiles,
propertiesByProfile) must be a function of the currently registered profiles (set and order) and the defaultProfiles setting only:

* equal to a hand-written model of the toy profiles (which profile defines what, which macro definition is in force: the last registered one),
* equal to the observation of a reference registry that got the same profiles registered directly (no history),
* equal to the observation made earlier on the same path whenever the same state is reached again (add then remove restores everything),
* validateWithProfile(...)[0] == validate(...) whatever defaultProfiles is; removing an unknown profile raises and changes nothing.

`histories` never touches the global cssutils.profile. `global_registry` runs histories on the process-wide registry cssutils.profile itself (each history in
a forked child process of its own, so the registry and its consumers start as they are after import and the parent's registry is never changed) and asks the CONSUMERS of the registry - Property(name, value).valid and
the declarations of a parsed sheet - at every subset of the points of the history, so that consumer-side state that outlives a registry operation (caches keyed on something
coarser than the registry contents) is seen when the registry changed between two questions.
"""
import itertools
import logging

A = ('toy-new', {'x-one': '{length}|auto', 'x-two': 'a|b|{x-kw}', 'x-five': '{color}'}, {'x-kw': 'foo|bar'})     # new properties, own macro
B = ('toy-redef', {'color': 'ish|{int}', 'x-one': 'only'}, None)                                                 # redefines existing properties
C = ('toy-shadow-token', {'x-three': '{length}|{x-kw2}'}, {'length': 'foo', 'x-kw2': 'k2'})                      # macro shadows the general macro 'length'
D = ('toy-shadow-profile', {'x-four': '{x-kw}'}, {'x-kw': 'baz'})                                                # macro shadows toy-new's macro
# case twins: every pattern of F equals the corresponding pattern of E up to the LETTER CASE of an escape class (backslash-d / backslash-D, backslash-w / backslash-W directly,
# backslash-s / backslash-S through a macro of the same name, so that the later registered twin also shadows the other one's macro)
E = ('toy-esc-lower', {'x-six': r'\d+', 'x-eight': r'{ident}({x-sep}{ident})*', 'x-ten': r'\w+'}, {'x-sep': r'\s+'})
F = ('toy-esc-upper', {'x-seven': r'\D+', 'x-nine': r'{ident}({x-sep}{ident})*', 'x-eleven': r'\W+'}, {'x-sep': r'\S+'})
# second-level shadowers: the shadowed macro is mentioned by NO raw property pattern of a built-in profile, it is reached through other macros only
# (namedcolor through {color}: general macro, redefined by the built-in CSS3 Color profile; int through {integer} / {rgbcolor}: token macro)
G = ('toy-shadow-deep-profile', {'x-twelve': '{color}|none'}, {'namedcolor': 'red|brandblue'})
H = ('toy-shadow-deep-token', {'x-thirteen': '{integer}'}, {'int': r'[-]?\d+|x\d'})
TOYS = {t[0]: t for t in (A, B, C, D, E, F, G, H)}
WIDE = (A[0], B[0], C[0], D[0], E[0], F[0])  # the toys of the wide enumeration of the thorough tier
NARROW = (A[0], B[0], C[0], D[0])  # the toys of the deep (length 4) enumeration of the thorough tier
CSS2 = 'CSS Level 2.1'
CSS3_COLOR = 'CSS Color Module Level 3'

BATTERY = [('width', '1px'), ('width', 'foo'), ('width', 'auto'), ('color', 'red'), ('color', '7'), ('color', 'ish'), ('color', 'rgba(1,2,3,.5)'),
           ('opacity', '.5'), ('x-one', '1px'), ('x-one', 'foo'), ('x-one', 'auto'), ('x-one', 'only'), ('x-two', 'a'), ('x-two', 'foo'), ('x-two', 'bar'),
           ('x-two', 'baz'), ('x-three', 'foo'), ('x-three', '1px'), ('x-three', 'k2'), ('x-four', 'baz'), ('x-four', 'foo'), ('x-five', 'red'),
           ('x-five', 'rgba(1,2,3,.5)'), ('nope', '1'),
           ('x-six', '12'), ('x-six', 'ab'), ('x-seven', '12'), ('x-seven', 'ab'), ('x-eight', 'a b'), ('x-eight', 'a,b'), ('x-eight', 'a'),
           ('x-nine', 'a b'), ('x-nine', 'a,b'), ('x-nine', 'a'), ('x-ten', 'ab'), ('x-ten', '::'), ('x-eleven', 'ab'), ('x-eleven', '::'),
           ('color', 'brandblue'), ('background-color', 'brandblue'), ('x-five', 'brandblue'), ('x-twelve', 'brandblue'), ('x-twelve', 'red'), ('x-twelve', 'none'),
           ('z-index', '1'), ('z-index', 'x1'), ('color', 'x7'), ('x-thirteen', '1'), ('x-thirteen', 'x1')]


def model(names):
    """expected validity of the battery for the ordered list of registered profile names — from the statement: valid iff some registered
    profile that defines the property accepts the value, every macro having the definition of the last registered profile that defines it"""
    reg = set(names)
    kw = None
    sep = None  # 's': items separated by white space, 'S': by a run of non-space characters (last registered twin decides)
    for n in names:
        if n == A[0]:
            kw = {'foo', 'bar'}
        elif n == D[0]:
            kw = {'baz'}
        elif n == E[0]:
            sep = 's'
        elif n == F[0]:
            sep = 'S'
    length_foo = C[0] in reg
    css2 = CSS2 in reg
    css3c = CSS3_COLOR in reg

    def is_length(v):
        return v == 'foo' if length_foo else v == '1px'

    brand = G[0] in reg  # namedcolor in force is G's (a toy is always registered after the built-in profiles)
    xint = H[0] in reg  # int in force also takes x<digit>

    def colour(v):
        return v == 'red' or (brand and v == 'brandblue') or (css3c and v.startswith('rgba('))

    def is_int(v):
        return v in ('1', '7') or (xint and v in ('x1', 'x7'))

    out = {}
    for name, v in BATTERY:
        if name == 'width':
            ok = css2 and (is_length(v) or v == 'auto')
        elif name == 'color':
            ok = (css2 and colour(v)) or (B[0] in reg and (v == 'ish' or is_int(v)))
        elif name == 'background-color':
            ok = css2 and colour(v)
        elif name == 'z-index':
            ok = css2 and is_int(v)
        elif name == 'x-twelve':
            ok = G[0] in reg and (colour(v) or v == 'none')
        elif name == 'x-thirteen':
            ok = H[0] in reg and is_int(v)
        elif name == 'opacity':
            ok = css3c and v == '.5'
        elif name == 'x-one':
            ok = (A[0] in reg and (is_length(v) or v == 'auto')) or (B[0] in reg and v == 'only')
        elif name == 'x-two':
            ok = A[0] in reg and (v in ('a', 'b') or v in kw)
        elif name == 'x-three':
            ok = C[0] in reg and (is_length(v) or v == 'k2')
        elif name == 'x-four':
            ok = D[0] in reg and v in kw
        elif name == 'x-five':
            ok = A[0] in reg and colour(v)
        elif name == 'x-six':
            ok = E[0] in reg and v == '12'
        elif name == 'x-seven':
            ok = F[0] in reg and v == 'ab'
        elif name in ('x-eight', 'x-nine'):
            ok = (E[0] if name == 'x-eight' else F[0]) in reg and (v == 'a' or v == {'s': 'a b', 'S': 'a,b'}[sep])
        elif name == 'x-ten':
            ok = E[0] in reg and v == 'ab'
        elif name == 'x-eleven':
            ok = F[0] in reg and v == '::'
        else:
            ok = False
        out[(name, v)] = bool(ok)
    return out


# ------------------------------------------------------------------------------------------------------------- operations
def _ops(tier, family=None):
    """operation alphabet of one family of histories.

    quick tier, length <= 3 each:
      core:  the four toys A-D, addProfiles with EVERY ordered pair of them (so: a profile shadowing a macro in force before / after one that brings
             only new macro names, before / after one without macros, the two profiles defining the same macro in both orders);
      twins: the case twins E, F and the token-macro shadower C (whose registration and removal re-expand everything), every ordered pair as a list;
      deep:  the second-level shadowers G, H (the shadowed macro is used by the built-in property patterns only THROUGH other macros) and A, every ordered pair as a list.
    thorough tier:
      wide (length <= 3): all six toys, every ordered pair of them and three triples as lists - contains core and twins;
      narrow (length <= 4): the four toys A-D with three pairs and one triple;
      deep4 (length <= 3): deep plus B (whose raw pattern mentions the token macro int directly)."""
    if family is None:
        family = 'core' if tier == 'quick' else 'wide'
    dflt = [A[0]]
    if family == 'narrow':
        toys = list(NARROW)
        bulks = [(A[0], D[0]), (C[0], B[0]), (D[0], A[0]), (B[0], C[0], D[0])]
    elif family == 'core':
        toys = list(NARROW)
        bulks = list(itertools.permutations(toys, 2))
    elif family == 'twins':
        toys = [C[0], E[0], F[0]]
        bulks = list(itertools.permutations(toys, 2))
        dflt = [E[0]]
    elif family in ('deep', 'deep4'):
        # second-level shadowers G (a macro of the general table AND of a built-in profile, reached through {color}) and H (a token macro reached through {integer}),
        # with A (uses {color}, brings an unrelated macro) and, in deep4, B (the only pattern that mentions {int} directly)
        toys = [A[0], G[0], H[0]] + ([B[0]] if family == 'deep4' else [])
        bulks = list(itertools.permutations(toys, 2))
        dflt = [G[0]]
    else:
        toys = list(WIDE)
        bulks = list(itertools.permutations(toys, 2)) + [(B[0], C[0], D[0]), (C[0], B[0], A[0]), (D[0], F[0], E[0])]
        dflt = [A[0], E[0]]
    ops = [('add', n) for n in toys]
    ops += [('bulk', b) for b in bulks]
    ops += [('remove', n) for n in toys] + [('remove', 'toy-unknown'), ('remove', CSS3_COLOR), ('removeall', None)]
    ops += [('default', (CSS2,))] + [('default', (d,)) for d in dflt] + [('default', None)]
    return ops


def _fresh():
    import cssutils
    from cssutils.profiles import Profiles
    return Profiles(log=cssutils.log)


def _copy_toy(t):
    return t[0], dict(t[1]), (dict(t[2]) if t[2] else None)


def applicable(op, names, defaults):
    kind, arg = op
    if kind == 'add':
        return arg not in names  # precondition: the name is not registered yet
    if kind == 'bulk':
        return all(a not in names for a in arg)
    if kind == 'default':
        return arg is None or all(a in names for a in arg)  # precondition: defaults name registered profiles
    return True


def apply(reg, op):
    """returns 'raised' when the operation was rejected with NoSuchProfileException"""
    from cssutils.profiles import NoSuchProfileException
    kind, arg = op
    try:
        if kind == 'add':
            reg.addProfile(*_copy_toy(TOYS[arg]))
        elif kind == 'bulk':
            reg.addProfiles([_copy_toy(TOYS[a]) for a in arg])
        elif kind == 'remove':
            try:
                reg.removeProfile(arg)
            except NoSuchProfileException:
                return 'raised'
        elif kind == 'removeall':
            reg.removeProfile(all=True)
        elif kind == 'default':
            reg.defaultProfiles = list(arg) if arg else None
    except Exception as e:  # noqa: BLE001  (no registry operation of the pool may raise anything else: reported by _check_node)
        return f'error: {type(e).__name__}: {e}'
    return None


def next_state(op, names, defaults):
    kind, arg = op
    names = list(names)
    if kind == 'add':
        names.append(arg)
    elif kind == 'bulk':
        names.extend(arg)
    elif kind == 'remove':
        if arg in names:
            names.remove(arg)
            # a removed profile is no default profile any more (no defaults left = all profiles); the abstract state follows, so that a
            # later re-registration of the same name is compared with a registry whose defaults were dropped too
            # (corrected false alarm of the thorough tier: the stale default used to stay in the abstract state)
            if defaults is not None:
                defaults = tuple(d for d in defaults if d != arg) or None
    elif kind == 'removeall':
        names = []
        defaults = None
    elif kind == 'default':
        defaults = tuple(arg) if arg else None
    return tuple(names), defaults


def observe(reg):
    """everything the statement lists as observable"""
    obs = {}
    for name, v in BATTERY:
        try:
            a = reg.validate(name, v)
        except Exception as e:
            a = ('EXC', type(e).__name__)
        try:
            b = reg.validateWithProfile(name, v)
            b = (b[0], b[1], tuple(b[2]))
        except Exception as e:
            b = ('EXC', type(e).__name__)
        obs[(name, v)] = (a, b)
    obs['knownNames'] = tuple(reg.knownNames)
    obs['profiles'] = tuple(reg.profiles)
    try:
        obs['propertiesByProfile'] = tuple(reg.propertiesByProfile())
    except Exception as e:
        obs['propertiesByProfile'] = ('EXC', type(e).__name__)
    per = []
    for p in reg.profiles:
        try:
            per.append((p, tuple(reg.propertiesByProfile(p))))
        except Exception as e:
            per.append((p, ('EXC', type(e).__name__)))
    obs['propertiesByProfile(p)'] = tuple(per)
    try:
        obs['defaultProfiles'] = tuple(reg.defaultProfiles)
    except Exception as e:
        obs['defaultProfiles'] = ('EXC', type(e).__name__)
    return obs


_REF = {}
_BUILTINS = None


class ReferenceFailure(Exception):
    """a registry operation that the statement says succeeds (removing a registered profile, adding a new one) raised while the
    history-free reference registry was being built"""


def reference(names, defaults):
    """observation of a registry that got exactly these profiles, in this order, without history: a fresh instance, the absent built-in
    profiles removed one by one (the re-expanding path, not removeProfile(all=True)), the toys added one by one, defaults assigned"""
    global _BUILTINS
    key = (names, defaults)
    if key not in _REF:
        reg = _fresh()
        if _BUILTINS is None:
            _BUILTINS = tuple(reg.profiles)
        for b in _BUILTINS:
            if b not in names:
                try:
                    reg.removeProfile(b)
                except Exception as e:  # noqa: BLE001  (removing a REGISTERED profile must succeed; the caller reports it)
                    raise ReferenceFailure(f'removeProfile({b!r}) on a fresh registry (after removing {[x for x in _BUILTINS if x not in names and _BUILTINS.index(x) < _BUILTINS.index(b)]!r}) raised {type(e).__name__}: {e}')
        for n in names:
            if n in TOYS:
                try:
                    reg.addProfile(*_copy_toy(TOYS[n]))
                except Exception as e:  # noqa: BLE001
                    raise ReferenceFailure(f'addProfile({n!r}) raised {type(e).__name__}: {e}')
        assert tuple(reg.profiles) == names, (reg.profiles, names)
        if defaults is not None:
            reg.defaultProfiles = list(defaults)
        _REF[key] = observe(reg)
    return _REF[key]


# ------------------------------------------------------------------------------------- ghost state for the recorded classes
class Ghost:
    """what the recorded defects do to the macro environment (used only to decide whether a disagreement lies in a recorded class)"""

    def __init__(self):
        from cssutils.profiles import Profiles, macros
        self.base = dict(Profiles._TOKEN_MACROS)
        self.base.update(Profiles._MACROS)
        self.pm = {n: dict(m) for n, m in macros.items()}
        self.pm['CSS Fonts Module Level 3 @font-face properties'] = dict(macros['CSS Fonts Module Level 3'])
        for t in TOYS.values():
            self.pm[t[0]] = dict(t[2] or {})
        self.env = None  # environment in force (with the defects)
        self.stale_all = False
        self.stale_bulk = False

    def want(self, names):
        env = dict(self.base)
        for n in names:
            env.update(self.pm.get(n, {}))
        return env

    def copy(self):
        g = Ghost.__new__(Ghost)
        g.base, g.pm = self.base, self.pm
        g.env = dict(self.env)
        g.stale_all, g.stale_bulk = self.stale_all, self.stale_bulk
        return g

    def step(self, op, names_before, names_after):
        kind, arg = op
        if kind == 'add':
            m = self.pm[arg]
            if m and set(m) & set(self.env):
                self.env = self.want(names_after)  # re-expansion heals everything
                self.stale_all = self.stale_bulk = False
            else:
                self.env.update(m)
        elif kind == 'bulk':
            for a in arg:
                m = self.pm[a]
                if names_before and any(k in self.env and self.env[k] != v for k, v in m.items()):
                    self.stale_bulk = True  # already registered profiles keep their old expansion
                self.env.update(m)
        elif kind == 'remove':
            if arg in names_before and self.pm.get(arg):
                self.env = self.want(names_after)
                self.stale_all = self.stale_bulk = False
        elif kind == 'removeall':
            self.stale_bulk = False
            self.stale_all = True
        if self.stale_all and self.env == self.want(names_after):
            self.stale_all = False

    def known(self, names, defaults):
        if defaults is not None and any(d not in names for d in defaults):
            return 'C14-stale-default-profile'
        if self.stale_all and self.env != self.want(names):
            return 'C14-remove-all-stale-macros'
        if self.stale_bulk:
            return 'C14-addprofiles-no-reset'
        return None


# --------------------------------------------------------------------------------------------------------------- the walk
def _diff(a, b):
    return [k for k in a if a[k] != b.get(k)]


def _check_node(reg, hist, names, defaults, ghost, path_obs, before_obs, raised, op, out):
    """all contracts at one node; out: list of (what, detail, inputs, known_id)"""
    obs = observe(reg)
    if defaults is not None and any(d not in names for d in defaults):
        # a default profile was removed. Recorded finding: the stale name stays and validateWithProfile raises KeyError. A registry that
        # drops the removed name from its defaults instead is judged against the remaining defaults.
        if not any(obs[pair][1][:1] == ('EXC',) for pair in BATTERY):
            defaults = tuple(d for d in defaults if d in names) or None
    kid = ghost.known(names, defaults)
    inputs = {'history': [list(map(_j, h)) for h in hist]}
    hs = ' ; '.join(_show(h) for h in hist)
    if isinstance(raised, str) and raised.startswith('error: '):
        out.append(('bounded: a registry operation raises nothing but NoSuchProfileException (for an unknown profile)', f'after [{hs}]: the last operation raised {raised[7:]}', inputs, None))
        return obs
    if obs['profiles'] != names:
        out.append(('bounded: profiles lists the registered profiles in order', f'after [{hs}]: {obs["profiles"]!r}, expected {names!r}', inputs, None))
        return obs
    # unknown removal
    if op[0] == 'remove' and op[1] not in hist_names(hist[:-1]):
        if raised != 'raised':
            out.append(('bounded: removing an unknown profile is rejected', f'after [{hs}]: no NoSuchProfileException', inputs, None))
        d = _diff(obs, before_obs)
        if d:
            out.append(('bounded: a rejected removal changes nothing', f'after [{hs}]: changed {d[:4]!r}', inputs, None))
    elif raised == 'raised':
        out.append(('bounded: removing a registered profile succeeds', f'after [{hs}]: NoSuchProfileException', inputs, None))
    # the model: valid iff some registered profile that defines the name accepts
    m = model(names)
    for pair in BATTERY:
        a, b = obs[pair]
        if a != m[pair]:
            out.append(('bounded: validate says valid iff some registered profile defining the property accepts the value',
                        f'after [{hs}]: validate{pair!r} = {a!r}, expected {m[pair]}', inputs, kid))
        b0 = b[0] if b and b[0] != 'EXC' else b
        if b0 != a:
            out.append(('bounded: validateWithProfile agrees with validate on validity whatever defaultProfiles is',
                        f'after [{hs}] (defaultProfiles={defaults!r}): validate{pair!r} = {a!r}, validateWithProfile = {b!r}', inputs, kid))
    # function of the contents: equals a registry built directly
    try:
        ref = reference(names, defaults)
    except ReferenceFailure as e:
        out.append(('bounded: removing a registered profile / adding a new profile succeeds', f'building the registry {names!r} directly: {e}', inputs, None))
        ref = obs
    d = _diff(obs, ref)
    if d:
        k0 = d[0]
        out.append(('bounded: observation equals that of a registry with the same profiles registered directly',
                    f'after [{hs}]: {k0!r}: {obs[k0]!r}, directly registered: {ref[k0]!r} ({len(d)} observables differ)', inputs, kid))
    # same state seen earlier on this path: everything restored
    key = (names, defaults)
    if key in path_obs:
        d = _diff(obs, path_obs[key][0])
        if d:
            k0 = d[0]
            out.append(('bounded: returning to the same registered profiles restores every verdict and the known names',
                        f'after [{hs}]: {k0!r} is {obs[k0]!r}, was {path_obs[key][0][k0]!r} after [{" ; ".join(_show(h) for h in path_obs[key][1])}]', inputs,
                        kid or path_obs[key][2]))
    return obs


def hist_names(hist):
    names, defaults = _start_state()
    for h in hist:
        names, defaults = next_state(h, names, defaults)
    return names


_START = None


def _start_state():
    global _START
    if _START is None:
        _START = tuple(_fresh().profiles)
    return _START, None


def _j(x):
    return list(x) if isinstance(x, tuple) else x


def _show(op):
    kind, arg = op
    return {'add': f'addProfile({arg})', 'bulk': f'addProfiles({list(arg) if arg else arg})', 'remove': f'removeProfile({arg!r})', 'removeall': 'removeProfile(all=True)',
            'default': f'defaultProfiles = {list(arg) if arg else None}'}[kind]


def _walk(args):
    """DFS below a given prefix (replayed without checks except for its last node when check_prefix)"""
    import copy
    import cssutils
    prefix, maxlen, tier, check_all_prefix, family = args
    cssutils.log.setLevel(logging.FATAL)
    ops = _ops(tier, family)
    out = []
    stats = {'nodes': 0, 'states': set(), 'skipped': 0}
    reg = _fresh()
    names, defaults = _start_state()
    ghost = Ghost()
    ghost.env = ghost.want(names)
    path_obs = {}
    obs = observe(reg)
    path_obs[(names, defaults)] = (obs, [], None)
    hist = []
    for i, op in enumerate(prefix):
        if not applicable(op, names, defaults):
            return out, stats
        raised = apply(reg, op)
        n2, d2 = next_state(op, names, defaults)
        ghost.step(op, names, n2)
        hist = hist + [op]
        before = obs
        if check_all_prefix or i == len(prefix) - 1:
            po = dict(path_obs)
            obs = _check_node(reg, hist, n2, d2, ghost, po, before, raised, op, out)
            stats['nodes'] += 1
            stats['states'].add((n2, d2))
        else:
            obs = observe(reg)
        names, defaults = n2, d2
        path_obs.setdefault((names, defaults), (obs, list(hist), ghost.known(names, defaults)))

    def rec(reg, names, defaults, ghost, hist, path_obs, obs):
        if len(hist) >= maxlen:
            return
        for op in ops:
            if not applicable(op, names, defaults):
                stats['skipped'] += 1
                continue
            r2 = copy.deepcopy(reg)
            g2 = ghost.copy()
            raised = apply(r2, op)
            n2, d2 = next_state(op, names, defaults)
            g2.step(op, names, n2)
            h2 = hist + [op]
            o2 = _check_node(r2, h2, n2, d2, g2, path_obs, obs, raised, op, out)
            stats['nodes'] += 1
            stats['states'].add((n2, d2))
            p2 = dict(path_obs)
            p2.setdefault((n2, d2), (o2, h2, g2.known(n2, d2)))
            rec(r2, n2, d2, g2, h2, p2, o2)

    if prefix or not check_all_prefix:
        rec(reg, names, defaults, ghost, hist, path_obs, obs)
    return out, stats


def _random_walk(args):
    """one seeded walk of `steps` applicable operations with every node checked (thorough tier)"""
    import random
    import cssutils
    seed, steps, tier = args
    cssutils.log.setLevel(logging.FATAL)
    rnd = random.Random(seed)
    ops = _ops(tier)
    out = []
    stats = {'nodes': 0, 'states': set(), 'skipped': 0}
    reg = _fresh()
    names, defaults = _start_state()
    ghost = Ghost()
    ghost.env = ghost.want(names)
    obs = observe(reg)
    path_obs = {(names, defaults): (obs, [], None)}
    hist = []
    for _ in range(steps):
        cand = [o for o in ops if applicable(o, names, defaults)]
        if not names:
            cand = [o for o in cand if o[0] != 'removeall']
        op = rnd.choice(cand)
        raised = apply(reg, op)
        n2, d2 = next_state(op, names, defaults)
        ghost.step(op, names, n2)
        hist = hist + [op]
        obs = _check_node(reg, hist, n2, d2, ghost, path_obs, obs, raised, op, out)
        stats['nodes'] += 1
        stats['states'].add((n2, d2))
        names, defaults = n2, d2
        path_obs.setdefault((names, defaults), (obs, list(hist), ghost.known(names, defaults)))
        unknown = [o for o in out if o[3] is None]
        if len(out) - len(unknown) > 40:  # keep the walk going: a recorded class needs a few witnesses only
            out = unknown + _few_per_class([o for o in out if o[3] is not None])
        if len(unknown) > 50:
            break
    return out, stats


def _few_per_class(entries, limit=5):
    count = {}
    kept = []
    for o in entries:
        count[o[3]] = count.get(o[3], 0) + 1
        if count[o[3]] <= limit:
            kept.append(o)
    return kept


def histories(ctx):
    import multiprocessing as mp
    import cssutils
    cssutils.log.setLevel(logging.FATAL)
    saved_global = (tuple(cssutils.profile.profiles), tuple(cssutils.profile.knownNames))
    maxlen = 3
    start = _start_state()
    # tasks: every applicable prefix of length 2 (its last node is checked by the task), plus the length-1 prefixes checked alone
    families = [('core', 3), ('twins', 3), ('deep', 3)] if ctx.tier == 'quick' else [('wide', 3), ('narrow', 4), ('deep4', 3)]
    tasks = []
    for family, flen in families:
        ops = _ops(ctx.tier, family)
        for op1 in ops:
            if not applicable(op1, *start):
                continue
            if family != 'narrow':
                tasks.append(((op1,), 1, ctx.tier, True, family))
            s1 = next_state(op1, *start)
            for op2 in ops:
                if applicable(op2, *s1):
                    tasks.append(((op1, op2), flen, ctx.tier, False, family))
    walks = [] if ctx.tier == 'quick' else [(ctx.seed * 1000 + i, 200, ctx.tier) for i in range(64)]
    with mp.get_context('fork').Pool(max(1, ctx.jobs)) as pool:
        results = pool.map(_walk, tasks, chunksize=1)
        results += pool.map(_random_walk, walks, chunksize=1)
    nodes = 0
    states = set()
    hits = {}
    found = []
    for out, stats in results:
        nodes += stats['nodes']
        states |= stats['states']
        found.extend(out)
    found.sort(key=lambda o: len((o[2] or {}).get('history', ())))  # shortest histories first: the reported witnesses are minimal ones
    for what, detail, inputs, kid in found:
        if kid:
            hits.setdefault(kid, detail)
        ctx.violation(what, detail, True, inputs, known_id=kid)
    for kid in sorted(hits):
        ctx.known_finding(kid, True)
    if (tuple(cssutils.profile.profiles), tuple(cssutils.profile.knownNames)) != saved_global:
        ctx.violation('bounded: the check leaves the global cssutils.profile alone', 'cssutils.profile changed during the run', True, None)
    fam = {f: _ops(ctx.tier, f) for f, _ in families}
    desc = {'core': 'the four toy profiles A-D (new properties + own macro; redefinition of existing properties; macro shadowing the token macro length; macro shadowing '
                    "another toy's macro)",
            'twins': 'the token-macro shadower C and the case twins E, F (patterns equal up to the letter case of an escape class: d/D and w/W directly, s/S through a macro of the same name)',
            'wide': 'all six toy profiles (A-D and the case twins E, F whose patterns are equal up to the letter case of an escape class: d/D, w/W, s/S through a macro)',
            'narrow': 'the four toy profiles A-D',
            'deep': 'toy A and the second-level shadowers G, H (G: macro namedcolor of the general table and of the built-in CSS3 Color profile, reached only through {color}; '
                    'H: token macro int, reached only through {integer} / {rgbcolor})',
            'deep4': 'toys A, B and the second-level shadowers G, H (G: macro namedcolor, reached only through {color}; H: token macro int, reached through {integer} / '
                     "{rgbcolor} and directly by B's pattern only)"}
    parts = []
    for f, flen in families:
        nb = [o[1] for o in fam[f] if o[0] == 'bulk']
        what = 'every ordered pair of its toys' if f in ('core', 'twins', 'deep', 'deep4') else ('every ordered pair of the toys and 3 triples' if f == 'wide' else '3 pairs and 1 triple')
        parts.append(f'{f}: all applicable sequences of length <= {flen} over {len(fam[f])} operations on {desc[f]}: addProfile of each, addProfiles x {len(nb)} lists ({what}), '
                     f'removeProfile of each / an unknown name / the built-in CSS3 Color profile, removeProfile(all=True), defaultProfiles = CSS 2.1 / a toy / None')
    walks_txt = '' if ctx.tier == 'quick' else '; 64 seeded random walks of 200 operations over the wide alphabet'
    ctx.bounded.append({'name': 'registry histories', 'evaluations': nodes * (2 * len(BATTERY) + 5), 'distinct_nontrivial': len(states), 'exhaustive': True,
                        'rule': '; '.join(parts) + walks_txt + f'; each on a fresh Profiles(); {nodes} nodes, after each: {len(BATTERY)} battery pairs through validate and '
                                'validateWithProfile against a hand model and a directly built registry, knownNames, profiles, propertiesByProfile(); distinct = (ordered registered '
                                'profiles, defaultProfiles) states reached',
                        'samples': [{'history': ['addProfile(toy-shadow-token)', 'removeProfile(all=True)', 'addProfile(toy-new)']},
                                    {'history': ['addProfiles([toy-shadow-token, toy-new])']},
                                    {'history': ['addProfile(toy-esc-lower)', "removeProfile('toy-esc-lower')", 'addProfile(toy-esc-upper)']}],
                        'bound': ', '.join(f'{f}: histories of <= {flen} operations over {len(fam[f])} operations' for f, flen in families) + walks_txt +
                                 '; eight toy profiles and a fixed battery; addProfiles lists of 2 (thorough: up to 3) profiles; inapplicable operations (re-adding a registered name, '
                                 'defaults naming an unregistered profile) are not taken'})


# ------------------------------------------------------------------------------------ the process-wide registry and its consumers
import re as _re

# consumer battery: for every property name of the battery one or two pairs whose verdict depends on the registry contents, with values the serializer writes back
# unchanged (identifiers, numbers, dimensions, separated by single blanks), so that Property.value is the text that was given
DOM_BATTERY = [('width', '1px'), ('width', 'foo'), ('color', 'red'), ('color', 'ish'), ('color', 'brandblue'), ('x-one', 'foo'), ('x-one', 'only'), ('x-two', 'bar'),
               ('x-three', 'k2'), ('x-four', 'baz'), ('x-five', 'red'), ('nope', '1'), ('x-six', '12'), ('x-seven', 'ab'), ('x-eight', 'a b'), ('x-nine', 'a'), ('x-ten', 'ab'),
               ('x-eleven', 'ab'), ('x-twelve', 'none'), ('z-index', 'x1'), ('x-thirteen', '1')]
assert all(pair in BATTERY and _re.fullmatch(r'[a-z0-9]+( [a-z0-9]+)*', pair[1]) for pair in DOM_BATTERY)
GLOBAL_TOYS = {'quick': (A[0], C[0], D[0], E[0]), 'thorough': (A[0], C[0], D[0], E[0], G[0], H[0])}


def _global_ops(tier):
    """toys with equally many property names among them (C, D, G, H: one name each; A, E, F: three each), so that remove X ; add Y keeps the NUMBER of known names"""
    toys = GLOBAL_TOYS[tier]
    return [('add', n) for n in toys] + [('remove', n) for n in toys] + [('remove', 'toy-unknown'), ('removeall', None)]


def _observe_consumers(names, hist, asked, out, stats):
    """ask the registry and its consumers about the DOM battery; the expected answer is the hand model of the registered profiles"""
    import cssutils
    import cssutils.css
    m = model(names)
    inputs = {'history': [list(map(_j, h)) for h in hist], 'asked_after_steps': list(asked)}
    hs = ' ; '.join(_show(h) for h in hist) + f' (consumers asked after steps {list(asked)})'
    reg = cssutils.profile
    if tuple(reg.profiles) != names:
        out.append(('bounded: profiles lists the registered profiles in order', f'cssutils.profile after [{hs}]: {tuple(reg.profiles)!r}, expected {names!r}', inputs, None))
        return
    sheet = cssutils.parseString('a { ' + '; '.join('%s: %s' % pair for pair in DOM_BATTERY) + ' }')
    parsed = sheet.cssRules[0].style.getProperties(all=True) if sheet.cssRules.length else []
    if [(p.name, p.value) for p in parsed] != DOM_BATTERY:
        parsed = None
        stats['unparsed'] += 1
    for i, pair in enumerate(DOM_BATTERY):
        stats['asked'] += 1
        a = reg.validate(*pair)
        if a != m[pair]:
            out.append(('bounded: validate says valid iff some registered profile defining the property accepts the value',
                        f'cssutils.profile after [{hs}]: validate{pair!r} = {a!r}, expected {m[pair]}', inputs, None))
        prop = cssutils.css.Property(*pair)
        if prop.value != pair[1]:
            stats['respelt'] += 1
            continue
        if prop.valid != m[pair]:
            out.append(('bounded: Property.valid on the process-wide registry says valid iff some registered profile defining the property accepts the value',
                        f'cssutils.profile after [{hs}]: Property{pair!r}.valid = {prop.valid!r}, expected {m[pair]} (cssutils.profile.validate says {a!r})', inputs, None))
        if parsed is not None and parsed[i].valid != m[pair]:
            out.append(('bounded: a parsed declaration is valid iff some registered profile defining the property accepts the value',
                        f'cssutils.profile after [{hs}]: parseString(...) declaration {pair[0]}: {pair[1]} has valid = {parsed[i].valid!r}, expected {m[pair]} '
                        f'(cssutils.profile.validate says {a!r})', inputs, None))
    if sorted(reg.knownNames) != sorted(n for p in names for n in reg.propertiesByProfile(p)):
        out.append(('bounded: knownNames lists the property names of the registered profiles', f'cssutils.profile after [{hs}]', inputs, None))


def _global_walk(args):
    """every applicable sequence of <= maxlen operations below `prefix` on the REAL cssutils.profile object, each run once per subset of the
    intermediate points (before the first operation, after every operation but the last) at which the consumers are asked; they are always asked at the end"""
    import cssutils
    prefix, maxlen, tier = args  # a prefix of one operation is run alone, a prefix of two with every extension up to maxlen
    cssutils.log.setLevel(logging.FATAL)
    ops = _global_ops(tier)
    out = []
    stats = {'histories': 0, 'asked': 0, 'unparsed': 0, 'respelt': 0, 'states': set(), 'seqs': 0}
    reg = cssutils.profile
    start = _start_state()
    if tuple(reg.profiles) != start[0]:
        out.append(('bounded: the process-wide registry starts with the built-in profiles', f'{tuple(reg.profiles)!r}', None, None))
        return out, stats
    # compile the registry's lazily compiled patterns and the tokenizer once, so that the children inherit them; the consumers of the registry are not asked here
    for pair in BATTERY:
        reg.validate(*pair)
    cssutils.parseString('a {}')

    def sequences(seq, names, defaults):
        yield seq
        if len(seq) < maxlen:
            for op in ops:
                if applicable(op, names, defaults):
                    yield from sequences(seq + [op], *next_state(op, names, defaults))

    def one_history(seq, mask, asked):
        o, st = [], {'asked': 0, 'unparsed': 0, 'respelt': 0}
        names, defaults = start
        for i, op in enumerate(seq):
            if mask[i]:
                _observe_consumers(names, seq[:i], asked, o, st)
            apply(reg, op)
            names, defaults = next_state(op, names, defaults)
        _observe_consumers(names, seq, asked, o, st)
        return o, st, names

    state = start
    for op in prefix:
        if not applicable(op, *state):
            return out, stats
        state = next_state(op, *state)
    for seq in ([list(prefix)] if len(prefix) < 2 else sequences(list(prefix), *state)):
        stats['seqs'] += 1
        n = len(seq)
        for mask in itertools.product((False, True), repeat=n):
            if tier == 'quick' and sum(mask) > 1:
                continue  # quick tier: the consumers are asked at most once before the end
            asked = [i for i in range(n) if mask[i]] + [n]
            stats['histories'] += 1
            o, st, names = _in_child(one_history, seq, mask, asked)
            out.extend(o)
            for k in st:
                stats[k] += st[k]
            stats['states'].add(names)
        if len(out) > 200:
            break
    return out, stats


def _in_child(f, *args):
    """run f(*args) in a forked child of this process and return its result: every history starts from the registry AND the consumers (module-level state of
    cssutils.css.property etc.) as they are after import, so a reported history reproduces on its own"""
    import os
    import pickle
    r, w = os.pipe()
    pid = os.fork()
    if pid == 0:
        code = 0
        try:
            os.close(r)
            data = pickle.dumps(f(*args))
            with os.fdopen(w, 'wb') as fh:
                fh.write(data)
        except BaseException:
            code = 1
        finally:
            os._exit(code)
    os.close(w)
    with os.fdopen(r, 'rb') as fh:
        data = fh.read()
    os.waitpid(pid, 0)
    if not data:
        raise RuntimeError('history child failed: %r' % (args,))
    return pickle.loads(data)


def global_registry(ctx):
    import multiprocessing as mp
    import cssutils
    cssutils.log.setLevel(logging.FATAL)
    saved_global = (tuple(cssutils.profile.profiles), tuple(cssutils.profile.knownNames))
    maxlen = 3
    ops = _global_ops(ctx.tier)
    tasks = [((op1,), maxlen, ctx.tier) for op1 in ops] + [((op1, op2), maxlen, ctx.tier) for op1 in ops for op2 in ops]
    with mp.get_context('fork').Pool(max(1, ctx.jobs)) as pool:
        results = pool.map(_global_walk, tasks, chunksize=1)
    tot = {'histories': 0, 'asked': 0, 'unparsed': 0, 'respelt': 0, 'seqs': 0}
    states = set()
    found = []
    for out, stats in results:
        for k in tot:
            tot[k] += stats[k]
        states |= stats['states']
        found.extend(out)
    found.sort(key=lambda o: (len((o[2] or {}).get('history', ())), len((o[2] or {}).get('asked_after_steps', ()))))
    for what, detail, inputs, kid in found:
        ctx.violation(what, detail, True, inputs, known_id=kid)
    if tot['unparsed']:
        ctx.violation('bounded: the battery sheet parses into its declarations', f'{tot["unparsed"]} observations: parseString did not return the declarations as written', True, None)
    if (tuple(cssutils.profile.profiles), tuple(cssutils.profile.knownNames)) != saved_global:
        ctx.violation('bounded: the check leaves the global cssutils.profile alone', 'cssutils.profile changed during the run', True, None)
    toys = GLOBAL_TOYS[ctx.tier]
    bound = (f'operation sequences of length <= {maxlen} over {len(ops)} operations (addProfile / removeProfile of {len(toys)} toys, removeProfile of an unknown name, '
             f'removeProfile(all=True); defaultProfiles stays None because Property.valid is documented to depend on it) on the process-wide cssutils.profile, each sequence once '
             f'per subset of its intermediate points at which the consumers are asked; {len(DOM_BATTERY)} battery pairs whose value the serializer writes back unchanged')
    ctx.bounded.append({'name': 'process-wide registry and its consumers', 'evaluations': tot['asked'] * 3, 'distinct_nontrivial': len(states), 'exhaustive': True,
                        'rule': f'{tot["seqs"]} applicable operation sequences x all subsets of observation points = {tot["histories"]} histories on the real cssutils.profile object '
                                '(each in a freshly forked process); at every chosen point and at the end: cssutils.profile.validate, '
                                'Property(name, value).valid and the .valid of the declarations of one parsed sheet for every battery pair against the hand model of the registered '
                                'profiles; knownNames against propertiesByProfile; distinct = ordered registered-profile states at the end',
                        'samples': [{'history': ['addProfile(toy-shadow-token)', "removeProfile('toy-shadow-token')", 'addProfile(toy-shadow-profile)'], 'asked_after_steps': [1, 3]}],
                        'bound': bound})
