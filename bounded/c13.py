"""C13 bounded stand-in: validation verdicts of the real cssutils (cssutils.profile.validate / validateWithProfile, Property.valid,
style/rule/sheet.valid) against a grammar table written by hand from the CSS 2.1 property index (Appendix F of the REC) for the
properties whose grammar is a keyword list or a single length / percentage / number / integer / colour / URI.

The oracle (G, the recognisers and oracle()) is independent of cssutils/profiles.py: it is ASCII-only, written from CSS 2.1
sections 4.3.1-4.3.6 and the per-property "Value:" lines.  Verdict None means "either" (the statement does not decide it: range
restrictions, values added by a registered CSS3 module, 'run-in' which the 2011 REC dropped).
"""
import itertools
import logging
import random
import re

# ------------------------------------------------------------------------------------------------------------------ oracle
G = {}


def _prop(names, kw='', types=(), nonneg=False, either=(), css3=()):
    for n in names.split():
        assert n not in G, n
        G[n] = {'kw': tuple(kw.split()) + ('inherit',), 'types': tuple(types), 'nonneg': nonneg, 'either': tuple(either), 'css3': tuple(css3)}


LP = ('length', 'percentage')
_BS = 'none hidden dotted dashed solid double groove ridge inset outset'
_prop('background-attachment', 'scroll fixed')
_prop('background-color', 'transparent', ['colour'])
_prop('background-image list-style-image cue-after cue-before', 'none', ['uri'])
_prop('background-repeat', 'repeat repeat-x repeat-y no-repeat')
_prop('border-collapse', 'collapse separate')
_prop('border-top-color border-right-color border-bottom-color border-left-color', 'transparent', ['colour'])
_prop('border-top-style border-right-style border-bottom-style border-left-style', _BS)
_prop('border-top-width border-right-width border-bottom-width border-left-width', 'thin medium thick', ['length'], nonneg=True)
_prop('bottom left right top', 'auto', LP)
_prop('caption-side', 'top bottom')
_prop('clear', 'none left right both')
_prop('color', '', ['colour'], css3=['transparent'])  # CSS3 Color makes 'transparent' a colour everywhere
_prop('direction', 'ltr rtl')
_prop('display', 'inline block list-item inline-block table inline-table table-row-group table-header-group table-footer-group table-row '
      'table-column-group table-column table-cell table-caption none', either=['run-in'])  # run-in: in the 2009 CR, dropped by the 2011 REC
_prop('empty-cells', 'show hide')
_prop('float', 'left right none')
_prop('font-size', 'xx-small x-small small medium large x-large xx-large larger smaller', LP, nonneg=True)
_prop('font-style', 'normal italic oblique')
_prop('font-variant', 'normal small-caps')
_prop('font-weight', 'normal bold bolder lighter 100 200 300 400 500 600 700 800 900')
_prop('height width', 'auto', LP, nonneg=True)
_prop('letter-spacing word-spacing', 'normal', ['length'])
_prop('line-height', 'normal', ['number', 'length', 'percentage'], nonneg=True)
_prop('list-style-position', 'inside outside')
_prop('list-style-type', 'disc circle square decimal decimal-leading-zero lower-roman upper-roman lower-greek lower-latin upper-latin armenian georgian '
      'lower-alpha upper-alpha none')
_prop('margin-top margin-right margin-bottom margin-left', 'auto', LP)
_prop('max-height max-width', 'none', LP, nonneg=True)
_prop('min-height min-width', '', LP, nonneg=True)
_prop('orphans widows', '', ['integer'], nonneg=True)
_prop('outline-color', 'invert', ['colour'])
_prop('outline-style', _BS.replace('hidden ', ''), css3=['auto'])  # 18.4: "'hidden' is not a legal outline style"; CSS3 UI adds 'auto'
_prop('outline-width', 'thin medium thick', ['length'], nonneg=True)
_prop('overflow', 'visible hidden scroll auto')
_prop('padding-top padding-right padding-bottom padding-left', '', LP, nonneg=True)
_prop('page-break-after page-break-before', 'auto always avoid left right')
_prop('page-break-inside', 'avoid auto')
_prop('pitch-range richness stress', '', ['number'], nonneg=True)
_prop('position', 'static relative absolute fixed')
_prop('speak-header', 'once always')
_prop('speak-numeral', 'digits continuous')
_prop('speak-punctuation', 'code none')
_prop('speak', 'normal none spell-out')
_prop('speech-rate', 'x-slow slow medium fast x-fast faster slower', ['number'], nonneg=True)
_prop('table-layout', 'auto fixed')
_prop('text-align', 'left right center justify')
_prop('text-indent', '', LP)
_prop('text-transform', 'capitalize uppercase lowercase none')
_prop('unicode-bidi', 'normal embed bidi-override')
_prop('vertical-align', 'baseline sub super top text-top middle bottom text-bottom', LP)
_prop('visibility', 'visible hidden collapse')
_prop('volume', 'silent x-soft soft medium loud x-loud', ['number', 'percentage'], nonneg=True)
_prop('white-space', 'normal pre nowrap pre-wrap pre-line')
_prop('z-index', 'auto', ['integer'])

# names cssutils keeps in a CSS3 profile although CSS 2.1 defines them (domain selection for the CSS-2.1-only registry, not a verdict)
# every other CSS 2.1 property (shorthands and list-valued ones) — needed only to keep generated "unknown" names unknown
CSS21_OTHER = ('azimuth background-position background border-color border-spacing border-style border-top border-right border-bottom border-left '
               'border-width border clip content counter-increment counter-reset cue cursor elevation font-family font list-style margin outline '
               'padding pause-after pause-before pause pitch play-during quotes text-decoration voice-family').split()

A = re.A | re.I
_NUM = r'[+-]?(?:[0-9]+|[0-9]*\.[0-9]+)'
_INT = r'[+-]?[0-9]+'
_W = r'[ \t\r\n\f]*'
_UNIT = r'(?:em|ex|px|in|cm|mm|pt|pc)'
_ZERO = r'[+-]?(?:0+|0*\.0+)'
_ESC = r'(?:\\[0-9a-f]{1,6}(?:\r\n|[ \t\r\n\f])?|\\[^\r\n\f0-9a-f])'
_STR = r'(?:"(?:[^\n\r\f\\"]|\\(?:\n|\r\n|\r|\f)|%s)*"|\'(?:[^\n\r\f\\\']|\\(?:\n|\r\n|\r|\f)|%s)*\')' % (_ESC, _ESC)
_URLCH = r'(?:[!#$%%&*-\[\]-~]|[^\x00-\x7f]|%s)' % _ESC
COLOUR_NAMES = 'maroon red orange yellow olive purple fuchsia white lime green navy blue aqua teal black silver gray'.split()
SYSTEM_COLOURS = ('ActiveBorder ActiveCaption AppWorkspace Background ButtonFace ButtonHighlight ButtonShadow ButtonText CaptionText GrayText Highlight '
                  'HighlightText InactiveBorder InactiveCaption InactiveCaptionText InfoBackground InfoText Menu MenuText Scrollbar ThreeDDarkShadow '
                  'ThreeDFace ThreeDHighlight ThreeDLightShadow ThreeDShadow Window WindowFrame WindowText').split()
_RGB = r'rgb\(%s(?:%s%s,%s%s%s,%s%s|%s%%%s,%s%s%%%s,%s%s%%)%s\)' % (_W, _INT, _W, _W, _INT, _W, _W, _INT, _NUM, _W, _W, _NUM, _W, _W, _NUM, _W)
RX = {
    'integer': re.compile(_INT, A),
    'number': re.compile(_NUM, A),
    'length': re.compile(r'%s%s|%s' % (_NUM, _UNIT, _ZERO), A),
    'percentage': re.compile(_NUM + '%', A),
    'colour': re.compile(r'#[0-9a-f]{3}|#[0-9a-f]{6}|%s|%s' % (_RGB, '|'.join(COLOUR_NAMES + SYSTEM_COLOURS)), A),
    'uri': re.compile(r'url\(%s(?:%s|%s*)%s\)' % (_W, _STR, _URLCH, _W), A),
}
# CSS3 Color additions (only decide "either" under the full registry): rgba/hsl/hsla, currentcolor, transparent, the X11/SVG names
X11_COLOURS = ('aliceblue antiquewhite aqua aquamarine azure beige bisque black blanchedalmond blue blueviolet brown burlywood cadetblue chartreuse chocolate '
               'coral cornflowerblue cornsilk crimson cyan darkblue darkcyan darkgoldenrod darkgray darkgreen darkgrey darkkhaki darkmagenta darkolivegreen '
               'darkorange darkorchid darkred darksalmon darkseagreen darkslateblue darkslategray darkslategrey darkturquoise darkviolet deeppink deepskyblue '
               'dimgray dimgrey dodgerblue firebrick floralwhite forestgreen fuchsia gainsboro ghostwhite gold goldenrod gray grey green greenyellow honeydew '
               'hotpink indianred indigo ivory khaki lavender lavenderblush lawngreen lemonchiffon lightblue lightcoral lightcyan lightgoldenrodyellow lightgray '
               'lightgreen lightgrey lightpink lightsalmon lightseagreen lightskyblue lightslategray lightslategrey lightsteelblue lightyellow lime limegreen '
               'linen magenta maroon mediumaquamarine mediumblue mediumorchid mediumpurple mediumseagreen mediumslateblue mediumspringgreen mediumturquoise '
               'mediumvioletred midnightblue mintcream mistyrose moccasin navajowhite navy oldlace olive olivedrab orange orangered orchid palegoldenrod '
               'palegreen paleturquoise palevioletred papayawhip peachpuff peru pink plum powderblue purple red rosybrown royalblue saddlebrown salmon '
               'sandybrown seagreen seashell sienna silver skyblue slateblue slategray slategrey snow springgreen steelblue tan teal thistle tomato turquoise '
               'violet wheat white whitesmoke yellow yellowgreen').split()  # SVG 1.0 / CSS3 Color 4.3, written from the module, 147 names
assert len(X11_COLOURS) == 147 and len(set(X11_COLOURS)) == 147
_CSS3_COLOUR = re.compile(r'(?:rgba|hsla?)\([^()]*\)|currentcolor|transparent|' + '|'.join(X11_COLOURS), A)
_NEG = re.compile(r'-')  # any minus sign on a property whose range excludes negatives: not decided by the grammar (that includes -0)
_POSITIVE_ONLY = ('orphans', 'widows')


def aupper(s):
    return ''.join(chr(ord(c) - 32) if 'a' <= c <= 'z' else c for c in s)


def alower(s):
    return ''.join(chr(ord(c) + 32) if 'A' <= c <= 'Z' else c for c in s)


def oracle(name, text, css3=True):
    """verdict of CSS 2.1 for `name: text` (text: comment-free, no outer white space): True, False or None (not decided)"""
    g = G[name]
    low = alower(text)
    if low in g['kw']:
        return True
    if low in g['either']:
        return None
    for t in g['types']:
        if RX[t].fullmatch(text):
            if g['nonneg'] and t != 'colour' and _NEG.match(text):
                return None  # range restriction, not grammar
            if name in _POSITIVE_ONLY and re.fullmatch(r'[+-]?0+', text):
                return None
            return True
    if css3:
        if low in g['css3']:
            return None
        if 'colour' in g['types'] and _CSS3_COLOUR.fullmatch(text):
            return None
        if name == 'overflow' and re.fullmatch(r'(?:visible|hidden|scroll|auto)[ \t\r\n\f]+(?:visible|hidden|scroll|auto)', text, A):
            return None  # CSS3 Box: one or two keywords
    return False


ALL_KEYWORDS = sorted({k for g in G.values() for k in g['kw'] + g['either'] + g['css3']})

# ------------------------------------------------------------------------------------------------------------- value pools
INTEGERS = ['0', '1', '10', '007', '-1', '+1', '-0', '+0', '2147483648']
NUMBERS = ['1.5', '.5', '-.5', '+.5', '0.0', '1.0', '10.50', '-0.0', '-1.5']
BAD_NUMBERS = ['5.', '1e3', '1.5e3', '.', '-', '+', '1..5', '1.5.2', '--1', '+-1', '1,5', '1/2', '1 0', '- 1', '0x10']
LENGTHS = ['1px', '1.5em', '-2ex', '+3in', '0cm', '.5mm', '10pt', '1pc', '1PX', '1Em', '0px', '-0px', '1.0px', '-.5em', '+0.5pt']
BAD_LENGTHS = ['1 px', '1p', '1pxx', '1deg', '1s', '1hz', '1x', 'px', '1%px', '1px%', 'em1', '1px 2px', '1px,', '1px/2', '1rem', '1vw', '5.px', '1e3px', '1-px', '1_px']
PERCENTAGES = ['0%', '50%', '-50%', '+50%', '1.5%', '.5%', '100%']
BAD_PERCENTAGES = ['50 %', '%', '50%%', '%50', '5.%', '50%5', '50 percent']
COLOURS = (['red', 'Orange', 'GRAY', 'black', 'fuchsia'] + ['#fff', '#FFF', '#a1B2c3', '#000000', '#aabbcc'] +
           ['rgb(1,2,3)', 'rgb(255, 0, 0)', 'rgb( 1 , 2 , 3 )', 'rgb(-10,300,0)', 'rgb(10%,20%,30%)', 'rgb(1.5%, 0%, 100%)', 'rgb(0,0,0)'] +
           ['ButtonFace', 'windowtext', 'ACTIVEBORDER'])
CSS3_COLOURS = ['rgba(1,2,3,.5)', 'hsl(0,0%,0%)', 'hsla(0,0%,0%,1)', 'aliceblue', 'currentcolor', 'grey', 'rebeccapurple']
BAD_COLOURS = ['#ff', '#ffff', '#fffff', '#fffffff', '#ggg', 'ff0000', '#', 'rgb(1,2)', 'rgb(1,2,3,4)', 'rgb(1,2%,3)', 'rgb(1 2 3)', 'rgb(1,2,3', 'rgb 1,2,3)',
               'rgb()', 'rgb(1.5,2,3)', 'rgb(a,b,c)', 'rgb(1,2,3)x', 'rgb (1,2,3)', 'reddish', 're d', 'red red', 'redd', 'gren', 'color', '#fff #fff', 'rgb(1px,2,3)']
URIS = ['url(x)', 'url("x")', "url('x')", 'url( x )', 'URL(x)', 'Url("X")', 'url(a/b.png?q=1#f)', 'url("a b")', 'url(http://example.com/i.png)', 'url()', 'url("")']
BAD_URIS = ['url', 'url(', 'url x', '"x"', 'x.png', 'uri(x)', 'url(x) url(y)', 'url(x),url(y)', 'url(a b)', 'url(x)y', 'url (x)', 'url(x")', 'src(x)', 'url(a(b)']


def precision_numbers():
    """unsigned decimal numbers at the edges of a number-rewriting serialiser (cssutils prints non-integral numbers with '%f', six decimals,
    and strips padding zeros; the rewritten text is what gets validated): the first non-zero decimal in place 6, 7 and 8, a 7th decimal that
    rounds the 6th up, all-nines that round up into the integer part, more than six significant decimals, padding zeros beyond place 6, six
    and seven zeros only (integral), a fraction below double precision; integer part 1 throughout, 0 and absent for the one that vanishes"""
    fractions = ['000001', '0000001', '00000001', '0000005', '9999999', '1234567', '5000000', '000000', '0000000', '00000000000000000001']
    return ['1.' + f for f in fractions] + ['0.0000001', '.0000001', '0.0000006', '12345678.5']


PRECISION = precision_numbers()
NUMBERS += PRECISION + ['-1.0000001']
LENGTHS += [p + 'px' for p in PRECISION] + ['0.0000001em', '-1.0000001px', '1.0000001IN']
PERCENTAGES += [p + '%' for p in PRECISION] + ['-1.0000001%']
MISC = ['', '"auto"', "'none'", 'auto()', 'inherit inherit', 'initial', 'unset', '!important', 'attr(x)', 'calc(1px + 2px)', 'counter(x)', 'a,b', '-', '--', '_', '0 0', '*', '{', '}', ';', ':']


def near_misses(kw):
    out = []
    for k in kw:
        out += [k[:-1], k[1:], k + k[-1], k + 'x', k + k, k + ' ' + k, k + ',' + k, k + ',', '"' + k + '"', k + '()', '-' + k, k + '-', k + '1', k + ' 1px']
        if '-' in k:
            out += [k.replace('-', ''), k.replace('-', ' '), k.replace('-', '_'), k.replace('-', '--')]
    return out


def recombinations(kw):
    """keyword-list near misses that a 'tidied' alternation would admit: hyphen-part prefixes and suffixes of the property's own keywords,
    every prefix of one keyword joined to every suffix of another (upper-greek, lower-leading-zero, decimal-roman), and character-wise
    prefixes and suffixes; the oracle decides which of them happen to be keywords"""
    pre, suf = [], []
    for k in kw:
        parts = k.split('-')
        for i in range(1, len(parts) + 1):
            pre.append(('-'.join(parts[:i]), len(parts) > 1))
            suf.append(('-'.join(parts[len(parts) - i:]), len(parts) > 1))
    out = [p for p, _ in pre] + [s_ for s_, _ in suf]
    for (p, ph), (s_, sh) in itertools.product(_dedupe(pre), _dedupe(suf)):
        if ph or sh:
            out.append(p + '-' + s_)
    for k in kw:
        out += [k[:i] for i in range(2, len(k))] + [k[i:] for i in range(1, len(k) - 1)]
    return _dedupe(out)


UNICODE_FOLD = {'i': ['\u0130', '\u0131'], 's': ['\u017f'], 'k': ['\u212a']}
UNICODE_DIGITS = {'0': '\u0660', '1': '\u0661', '2': '\u0662', '3': '\u0663', '5': '\u0665', '7': '\uff17'}
_FOLD_BACK = {'\u0130': 'i', '\u0131': 'i', '\u017f': 's', '\u212a': 'k'}
_FOLD_BACK.update({c: ' ' for c in '\x0b\x1c\x1d\x1e\x1f\x85\xa0\u1680\u2000\u2001\u2002\u2003\u2004\u2005\u2006\u2007\u2008\u2009\u200a\u2028\u2029\u202f\u205f\u3000'})


def unicode_variants(text):
    """near misses outside ASCII: a letter replaced by a character that re.I folds onto it, a digit by a Unicode digit"""
    out = []
    low = alower(text)
    for ch, reps in UNICODE_FOLD.items():
        i = low.find(ch)
        if i >= 0:
            out += [text[:i] + r + text[i + 1:] for r in reps]
    for d, r in UNICODE_DIGITS.items():
        i = text.find(d)
        if i >= 0:
            out.append(text[:i] + r + text[i + 1:])
            break
    if '(' in text and not text.lower().startswith('url'):
        out.append(text.replace('(', '( ', 1))
        out.append(text.replace(',', ', ', 1))
    return out


def fold_back(text):
    import unicodedata
    out = []
    for c in text:
        if c in _FOLD_BACK:
            out.append(_FOLD_BACK[c])
        elif ord(c) > 127 and unicodedata.category(c) == 'Nd':
            out.append(str(unicodedata.decimal(c)))
        else:
            out.append(c)
    return ''.join(out)


def typed_values():
    return INTEGERS + NUMBERS + BAD_NUMBERS + LENGTHS + BAD_LENGTHS + PERCENTAGES + BAD_PERCENTAGES + COLOURS + CSS3_COLOURS + BAD_COLOURS + URIS + BAD_URIS + MISC


def own_values(name):
    """values from the property's own grammar and near misses of them"""
    g = G[name]
    kws = [k for k in g['kw'] + g['either'] + g['css3']]
    vals = list(kws) + [k.upper() for k in kws] + [k.capitalize() for k in kws] + near_misses(kws)
    for t in g['types']:
        vals += {'integer': INTEGERS + NUMBERS + BAD_NUMBERS + ['0px'], 'number': INTEGERS + NUMBERS + BAD_NUMBERS + ['0px'], 'length': LENGTHS + BAD_LENGTHS + ['0', '-0', '+0', '0.0', '00'],
                 'percentage': PERCENTAGES + BAD_PERCENTAGES, 'colour': COLOURS + CSS3_COLOURS + BAD_COLOURS, 'uri': URIS + BAD_URIS}[t]
    uni = []
    for v in kws[:6] + [x for t in g['types'] for x in {'integer': ['1', '10'], 'number': ['1.5'], 'length': ['1px', '1.5em'], 'percentage': ['50%'],
                                                      'colour': ['black', 'silver', 'rgb(1,2,3)', 'ButtonFace'], 'uri': []}[t]]:
        uni += unicode_variants(v)
    return _dedupe(vals + uni + MISC + recombinations(kws))


def recombined_only(name):
    g = G[name]
    kws = [k for k in g['kw'] + g['either'] + g['css3']]
    other = set(near_misses(kws)) | set(kws) | set(MISC)
    return {v for v in recombinations(kws) if v not in other}


def _dedupe(seq):
    seen = set()
    out = []
    for x in seq:
        if x not in seen:
            seen.add(x)
            out.append(x)
    return out


def foreign_values(name):
    own = set(G[name]['kw'])
    return _dedupe([k for k in ALL_KEYWORDS if k not in own] + typed_values())


# ----------------------------------------------------------------------------------------------- known deviation classes
def known_class(name, text, level, got):
    """id of the recorded finding whose class contains this disagreement with the grammar, or None.
    level: 'registry' (text handed to Profiles.validate as is) or 'property' (text parsed and serialised first)."""
    g = G[name]
    want = oracle(name, text)
    # non-ASCII characters accepted through re.I / \d / \s
    if got and want is False and any(ord(c) > 127 or c in '\x0b\x1c\x1d\x1e\x1f' for c in text):
        back = fold_back(text)
        if back != text and oracle(name, back) is not False:
            return 'C13-unicode-fold'
    numeric = [t for t in g['types'] if t in ('integer', 'number', 'length', 'percentage')]
    # a leading '+' is refused
    if not got and want is True and '+' in text and (numeric or 'colour' in g['types']):
        return 'C13-plus-sign'
    # a unitless zero length must be spelled exactly '0' (registry level only: the serialiser normalises before validation)
    if level == 'registry' and not got and want is True and 'length' in g['types'] and re.fullmatch(_ZERO, text) and text != '0':
        return 'C13-zero-length-spelling'
    # system colours are lost when the CSS3 Color macros are registered
    if not got and want is True and 'colour' in g['types'] and alower(text) in [alower(c) for c in SYSTEM_COLOURS]:
        return 'C13-system-colours'
    return None


# ------------------------------------------------------------------------------------------------------------ the checks
def _quiet():
    import cssutils
    cssutils.log.setLevel(logging.FATAL)
    cssutils.ser.prefs.useDefaults()
    return cssutils


def css21_only_registry():
    """a fresh registry reduced to the CSS 2.1 profile by removing every other profile (each removal re-expands the macros)"""
    import cssutils
    from cssutils.profiles import Profiles
    reg = Profiles(log=cssutils.log)
    for n in list(reg.profiles):
        if n != reg.CSS_LEVEL_2:
            reg.removeProfile(n)
    return reg


def _report(ctx, viol):
    for what, detail, inputs, kid in viol:
        ctx.violation(what, detail, True, inputs, known_id=kid)


# ---- 1. registry level: Profiles.validate / validateWithProfile against the grammar table, complete over the pools
def registry(ctx):
    cssutils = _quiet()
    full = cssutils.profile
    only21 = css21_only_registry()
    n = 0
    kinds = set()
    samples = []
    witnesses = {}
    for name in G:
        values = _dedupe(own_values(name) + foreign_values(name))
        for reg, css3, label in ((full, True, 'default registry'), (only21, False, 'CSS 2.1 profile alone')):
            known_here = name in reg.knownNames
            for v in values:
                n += 1
                got = reg.validate(name, v)
                got3 = reg.validateWithProfile(name, v)
                inputs = {'name': name, 'value': v, 'registry': label}
                if got3[0] != got:
                    ctx.violation('bounded: validate and validateWithProfile agree on validity', f'{name}: {v!r} ({label}): validate={got} validateWithProfile={got3!r}', True, inputs)
                if not known_here:
                    # the border-*/outline-* longhands live in CSS3 profiles: with CSS 2.1 alone they are unknown names
                    if got or got3 != (False, False, []):
                        ctx.violation('bounded: a name no registered profile defines is never valid', f'{name}: {v!r} ({label}): {got} {got3!r}', True, inputs)
                    continue
                want = oracle(name, v, css3=css3)
                kinds.add((name, want, 'own' if v in G[name]['kw'] else 'other'))
                if want is None or got == want:
                    continue
                kid = known_class(name, v, 'registry', got)
                if kid is None:
                    kid = _registry_only_class(name, v, got, css3)
                if kid is not None:
                    witnesses.setdefault(kid, (name, v, got))
                ctx.violation('bounded: registry verdict agrees with the CSS 2.1 grammar of the property',
                              f'{name}: {v!r} ({label}): validate says {got}, CSS 2.1 says {want}', True, inputs, known_id=kid)
        if len(samples) < 3:
            samples.append({'name': name, 'values': len(values)})
    for kid, (name, v, got) in sorted(witnesses.items()):
        ctx.known_finding(kid, True)
    ctx.bounded.append({'name': 'registry verdicts vs CSS 2.1 grammar table', 'evaluations': n, 'distinct_nontrivial': len(kinds), 'exhaustive': True,
                        'rule': f'{len(G)} simple CSS 2.1 properties x (own keywords in three cases + near misses of them + all recombinations of their hyphen-separated parts and their prefixes/suffixes + every keyword of every other property + '
                                'typed literals and near misses of integer/number/length/percentage/colour/URI, among them ' + str(len(PRECISION)) + ' numbers at the edges of six-decimal rewriting '
                                '(first non-zero decimal in place 6/7/8, round-up into place 6 and into the integer part, padding beyond place 6, a fraction below double precision), '
                                'bare, as px and as % + non-ASCII look-alikes), on cssutils.profile and on a '
                                'fresh registry reduced to the CSS 2.1 profile; distinct = (property, oracle verdict, own/foreign value)',
                        'samples': samples, 'bound': 'complete over the value pools'})


def _registry_only_class(name, v, got, css3):
    """deviation classes that are about single table entries / macros of profiles.py"""
    low = alower(v)
    if name in ('min-height', 'min-width') and low == 'none' and got:
        return 'C13-min-size-none'
    if name == 'outline-style' and low == 'hidden' and got:
        return 'C13-outline-style-hidden'
    if name == 'overflow' and got and re.fullmatch(r'(?:visible|hidden|scroll|auto|inherit)[ \t\r\n\f]*(?:visible|hidden|scroll|auto|inherit)', v, A):
        return 'C13-overflow-pair'
    if 'uri' in G[name]['types'] and re.fullmatch(r'url\(.*\)', v, A | re.S):
        inner = v[4:-1].strip(' \t\r\n\f')
        quoted = len(inner) >= 2 and inner[0] == inner[-1] and inner[0] in '"\''
        if not quoted and (inner == '' and not got or got and re.search(r'[ \t\r\n\f"\'(]', inner)):
            return 'C13-uri-macro'
        if quoted and len(inner) == 2 and not got:
            return 'C13-uri-macro'  # url("") is serialised as url() before it is validated
    if name == 'color' and low == 'transparent' and got and not css3:
        return 'C13-color-transparent'
    return None


# ---- 2. Property level: spellings x origins x round trip, in worker processes
def _altcase(s):
    out = []
    up = True
    for c in s:
        if c.isascii() and c.isalpha():
            out.append(c.upper() if up else c.lower())
            up = not up
        else:
            out.append(c)
    return ''.join(out)


_FUNC = re.compile(r'^(rgb|rgba|hsl|hsla)\((.*)\)$', re.I | re.S)


def spellings(v):
    """[(kind, value text)] — respellings that leave the comment-free, white-space-normalised value unchanged"""
    out = [('upper', aupper(v)), ('altcase', _altcase(v)),
           ('ws-lead', ' ' + v), ('ws-trail', v + ' '), ('ws-tabnl', '\t' + v + '\n'), ('ws-crlf', '\r\n  ' + v + '\f'),
           ('comment-lead', '/**/' + v), ('comment-trail', v + '/*c*/'), ('comment-both', '/*a*/ ' + v + ' /*b*/'),
           ('important', v + ' !important'), ('important-tight', v + '!IMPORTANT')]
    m = _FUNC.match(v)
    if m and '(' not in m.group(2) and ')' not in m.group(2):
        args = m.group(2).split(',')
        out.append(('func-ws', m.group(1) + '( ' + ' , '.join(a.strip(' ') for a in args) + ' )'))
        out.append(('func-tight', m.group(1) + '(' + ','.join(a.strip(' ') for a in args) + ')'))
        out.append(('func-comment', m.group(1) + '(/*c*/' + m.group(2) + ')'))
        out.append(('func-comment-arg', m.group(1) + '(' + m.group(2).replace(',', '/*c*/,', 1) + ')'))
    return out


def _domname(name):
    parts = name.split('-')
    return parts[0] + ''.join(p.capitalize() for p in parts[1:])


class _V:
    """verdict procedures; each returns (verdict, stored value text or None); a rejection is verdict False"""

    def __init__(self):
        import xml.dom
        import cssutils
        self.cu = cssutils
        self.css = cssutils.css
        self.DOMException = xml.dom.DOMException

    def _of_style(self, style, name):
        props = style.getProperties(name, all=True)
        if not props:
            return False, None
        return all(p.valid for p in props), props[-1].value

    def sheet(self, name, text, validate=True, wrap='a { %s }'):
        sheet = self.cu.parseString(wrap % f'{name}: {text}', validate=validate)
        self.text0 = sheet.cssText  # serialisation before anybody asked for a verdict
        for rule in sheet.cssRules:
            style = getattr(rule, 'style', None)
            if style is not None:
                v = self._of_style(style, name)
                return v[0], v[1], sheet
        return False, None, sheet

    def constructed(self, name, text):
        try:
            p = self.css.Property(name, text)
        except self.DOMException:
            return False, None
        if not p.wellformed:
            return False, None
        return p.valid, p.value

    def value_assigned(self, name, text):
        try:
            p = self.css.Property(name, 'inherit')
            p.value = text
        except self.DOMException:
            return False, None
        if not p.wellformed:
            return False, None
        return p.valid, p.value

    def set_property(self, name, text):
        st = self.css.CSSStyleDeclaration()
        try:
            st.setProperty(name, text)
        except self.DOMException:
            return False, None
        return self._of_style(st, name)

    def item(self, name, text):
        st = self.css.CSSStyleDeclaration()
        try:
            st[name] = text
        except self.DOMException:
            return False, None
        return self._of_style(st, name)

    def attribute(self, name, text):
        st = self.css.CSSStyleDeclaration()
        try:
            setattr(st, _domname(name), text)
        except AttributeError:
            return None
        except self.DOMException:
            return False, None
        return self._of_style(st, name)

    def parse_style(self, name, text):
        st = self.cu.parseStyle(f'{name}: {text}')
        return self._of_style(st, name)

    def decl_csstext(self, name, text):
        st = self.css.CSSStyleDeclaration()
        try:
            st.cssText = f'{name}: {text}'
        except self.DOMException:
            return False, None
        return self._of_style(st, name)

    def rule_style(self, name, text):
        rule = self.css.CSSStyleRule(selectorText='a')
        sheet = self.css.CSSStyleSheet()
        sheet.add(rule)
        try:
            rule.style.cssText = f'{name}: {text}'
        except self.DOMException:
            return False, None
        return self._of_style(rule.style, name)


ORIGINS = ('constructed', 'value_assigned', 'set_property', 'item', 'attribute', 'parse_style', 'decl_csstext', 'rule_style')


def _spelling_class(kind, base, text):
    """recorded classes of spelling-dependence"""
    if kind in ('func-comment', 'func-comment-arg'):
        return 'C13-comment-in-function'
    return None


def _self_contained(v):
    """the text stays inside its declaration: balanced parentheses and quotes, no block or declaration delimiters
    (otherwise the 'value' the parser sees is not this text and the table does not apply)"""
    depth = 0
    quote = None
    for c in v:
        if quote:
            if c == quote:
                quote = None
            continue
        if c in '"\'':
            quote = c
        elif c == '(':
            depth += 1
        elif c == ')':
            depth -= 1
            if depth < 0:
                return False
        elif c in '{};' or (c == '!' and depth == 0):
            return False
    return depth == 0 and quote is None and '\\' not in v


def _sweep(args):
    names, quick, seed = args
    _quiet()
    V = _V()
    rnd = random.Random(seed)
    viol = []
    n = 0
    kinds = set()
    wit = {}

    def bad(what, detail, inputs, kid=None):
        if kid:
            wit.setdefault(kid, True)
        if len(viol) < 400 or kid:
            viol.append((what, detail, inputs, kid))

    for name in names:
        own = own_values(name)
        rec_only = recombined_only(name) if quick else set()
        foreign = [v for v in foreign_values(name) if v not in set(own)]
        if quick:
            r = random.Random(f'{seed}/{name}')
            foreign = r.sample(foreign, min(len(foreign), 30))
        for v in own + foreign:
            if v.strip() == '' or v != v.strip() or not _self_contained(v):
                continue
            want = oracle(name, v)
            inputs = {'name': name, 'value': v}
            try:
                got, stored, sheet = V.sheet(name, v)
            except V.DOMException:
                raise
            except Exception as e:  # not a verdict at all: the parser crashed
                n += 1
                bad('bounded: a declaration can be parsed and judged without a crash', f'parseString("a {{ {name}: {v} }}") raises {type(e).__name__}: {e}', inputs,
                    'C13-parse-crash-colour-arity' if re.search(r'(?:rgb|hsl)a?\([^,()]*(?:,[^,()]*)?\)', v, re.I) and isinstance(e, ValueError) else None)
                continue
            n += 1
            kinds.add((name, want, got))
            # grammar agreement of the parsed declaration
            if want is not None and got != want:
                kid = known_class(name, v, 'property', got) or _registry_only_class(name, v, got, True) or _property_only_class(name, v, got, stored)
                bad('bounded: Property.valid of a parsed declaration agrees with the CSS 2.1 grammar', f'{name}: {v!r}: valid={got} (validated text {stored!r}), CSS 2.1 says {want}',
                    inputs, kid)
            if v in rec_only and want is False and not got:
                # quick tier: a recombined keyword judged invalid gets the short treatment (one respelling, one other origin)
                for label, g2 in (('constructed', V.constructed(name, v)[0]), ('upper', V.sheet(name, aupper(v))[0])):
                    n += 1
                    if g2 != got:
                        bad('bounded: verdict does not depend on how the property came to exist' if label == 'constructed' else
                            'bounded: verdict is the same for every spelling of the value (case, white space, comments, priority)',
                            f'{name}: {v!r}: parsed valid={got}, {label} valid={g2}', inputs)
                continue
            # validation only annotates
            before = V.text0
            got_off, stored_off, sheet_off = V.sheet(name, v, validate=False)
            n += 1
            if V.text0 != before:
                bad('bounded: cssText is the same with validation on and off', f'{name}: {v!r}: {before!r} vs {V.text0!r}', inputs)
            if sheet_off.cssText != V.text0:
                bad('bounded: reading .valid leaves cssText unchanged', f'{name}: {v!r} (validate=False): {V.text0!r} then {sheet_off.cssText!r}', inputs)
            if got_off != got:
                bad('bounded: Property.valid does not depend on the validate flag of the parse', f'{name}: {v!r}: {got} vs {got_off}', inputs)
            if sheet.cssText != before:
                bad('bounded: reading .valid leaves cssText unchanged', f'{name}: {v!r}: {before!r} then {sheet.cssText!r}', inputs)
            # round trip
            sheet2 = V.cu.parseString(before)
            got_rt = False
            for rule in sheet2.cssRules:
                if getattr(rule, 'style', None) is not None:
                    got_rt = V._of_style(rule.style, name)[0]
                    break
            n += 1
            if got_rt != got:
                bad('bounded: verdict is the same after a serialise-reparse round trip', f'{name}: {v!r} -> {before!r}: {got} then {got_rt}', inputs,
                    _roundtrip_class(v, got, got_rt))
            if sheet2.cssText != before:
                bad('bounded: serialised declaration is a fixpoint', f'{name}: {v!r} -> {before!r} -> {sheet2.cssText!r}', inputs, _roundtrip_class(v))
            # spellings, parsed in a sheet
            sp = spellings(v)
            light = quick and want is False and not got  # an invalid value judged invalid: fewer respellings in the quick tier
            if light:
                sp = [x for x in sp if x[0] in ('upper', 'ws-crlf', 'comment-both', 'important')]
            for kind, text in sp + [('name-upper', None)]:
                if text is None:
                    g2, s2, sh2 = V.sheet(name.upper(), v)
                    g2 = V._of_style(sh2.cssRules[0].style, name)[0] if sh2.cssRules.length and getattr(sh2.cssRules[0], 'style', None) is not None else False
                    text = v
                else:
                    g2, s2, sh2 = V.sheet(name, text)
                    t_on = V.text0
                    if sh2.cssText != t_on:
                        bad('bounded: reading .valid leaves cssText unchanged', f'{name}: {text!r}: {t_on!r} then {sh2.cssText!r}', {'name': name, 'value': text})
                    if kind in ('comment-both', 'upper', 'ws-crlf', 'func-comment') and not light:
                        V.sheet(name, text, validate=False)
                        n += 1
                        if V.text0 != t_on:
                            bad('bounded: cssText is the same with validation on and off', f'{name}: {text!r}: {t_on!r} vs {V.text0!r}', {'name': name, 'value': text})
                n += 1
                if g2 != got:
                    bad('bounded: verdict is the same for every spelling of the value (case, white space, comments, priority)',
                        f'{name}: {v!r} valid={got} but spelled {text!r} ({kind}) valid={g2}', {'name': name, 'value': v, 'spelling': text, 'kind': kind},
                        _spelling_class(kind, v, text))
                elif kind in ('upper', 'comment-both', 'func-ws'):
                    rt = V.cu.parseString(sh2.cssText)
                    n += 1
                    g3 = V._of_style(rt.cssRules[0].style, name)[0] if rt.cssRules.length and getattr(rt.cssRules[0], 'style', None) is not None else False
                    if g3 != g2:
                        bad('bounded: verdict is the same after a serialise-reparse round trip', f'{name}: {text!r} -> {sh2.cssText!r}: {g2} then {g3}',
                            {'name': name, 'value': text}, _roundtrip_class(v, g2, g3))
            # origins
            for text, kind in ((v, 'base'),) if light else ((v, 'base'), (aupper(v), 'upper'), ('/*a*/ ' + v + ' /*b*/', 'comment-both')):
                for origin in ORIGINS:
                    r_ = getattr(V, origin)(name, text)
                    if r_ is None:
                        continue
                    n += 1
                    if r_[0] != got:
                        bad('bounded: verdict does not depend on how the property came to exist', f'{name}: {text!r}: parsed in a sheet valid={got}, {origin} valid={r_[0]}',
                            {'name': name, 'value': text, 'origin': origin}, _spelling_class(kind, v, text))
    return n, kinds, viol, sorted(wit)


def _property_only_class(name, v, got, stored):
    g = G[name]
    # the value is validated after the serialiser normalised it: 1.0 becomes the integer 1, 0px becomes the number 0
    if got and _rounds_to_integer(v):
        # ... and (since 9ef9492 writes a number as the value its six decimals denote) 0.0000001 becomes 0, 1.9999999 becomes 2
        return 'C13-validates-normalised-text'
    if got and 'length' not in g['types']:
        if 'integer' in g['types'] and 'number' not in g['types'] and re.fullmatch(r'[+-]?[0-9]*\.[0-9]+', v) and float(v) == int(float(v)):
            return 'C13-validates-normalised-text'  # the fraction is all zeros, or is lost when the number is held as a double
        if ('integer' in g['types'] or 'number' in g['types']) and re.fullmatch(_ZERO + _UNIT, v, A):
            return 'C13-validates-normalised-text'
    return None


_SINGLE_NUMERIC = re.compile(r'([+-]?(?:[0-9]+|[0-9]*\.[0-9]+))(%|[a-z]+)?', A)


def _rounds_to_integer(v):
    """class of C13-rounds-to-integer: the value is one number / dimension / percentage whose number is not integral but is closer than
    0.0000005 to an integer (written from the statement of the defect, not from the serialiser: exact decimal arithmetic)"""
    from decimal import Decimal
    m = _SINGLE_NUMERIC.fullmatch(v)
    if not m:
        return False
    x = Decimal(m.group(1))
    d = abs(x - x.to_integral_value())
    return 0 < d < Decimal('0.0000005') and float(m.group(1)) != int(float(m.group(1)))


def _roundtrip_class(v, first=None, second=None):
    """recorded class for the two round-trip clauses: fixpoint (first is None) and verdict (only a change from invalid to valid)"""
    if _rounds_to_integer(v) and (first is None or (first is False and second is True)):
        return 'C13-rounds-to-integer'
    return None


def properties(ctx):
    import multiprocessing as mp
    quick = ctx.tier == 'quick'
    names = list(G)
    chunks = [[n] for n in names]
    with mp.get_context('fork').Pool(max(1, ctx.jobs)) as pool:
        results = pool.map(_sweep, [(c, quick, ctx.seed) for c in chunks], chunksize=1)
    _collect_sweep(ctx, results, quick)


def _collect_sweep(ctx, results, quick):
    n = 0
    kinds = set()
    wit = set()
    for rn, rk, rv, rw in results:
        n += rn
        kinds |= rk
        wit |= set(rw)
        _report(ctx, rv)
    for kid in sorted(wit):
        ctx.known_finding(kid, True)
    ctx.bounded.append({'name': 'Property.valid: grammar, spellings, origins, round trip, validate on/off', 'evaluations': n, 'distinct_nontrivial': len(kinds),
                        'exhaustive': not quick,
                        'rule': f'{len(G)} properties x (own-grammar values incl. the {len(PRECISION)} six-decimal edge numbers per numeric type, near misses and keyword-part recombinations; ' + ('a seeded sample of 30' if quick else 'all') + ' foreign values) x '
                                '(parsed in a sheet with validate on and off; 11-15 respellings: case, white space, comments, !important, name case, function-internal '
                                f'white space and comments; serialise-reparse; {len(ORIGINS)} other ways to create the property x 3 spellings); distinct = (property, oracle verdict, observed verdict)',
                        'samples': [{'name': 'width', 'value': '1PX', 'spelling': '/*a*/ 1PX /*b*/'}], 'bound': 'value pools as in the registry check'})


# ---- 3. unknown names
def unknown_names(ctx):
    cssutils = _quiet()
    V = _V()
    real = set(G) | set(CSS21_OTHER)
    pool = []
    for nm in sorted(real):
        pool += [nm + 'x', 'x' + nm, '-x-' + nm, nm + '-', nm[:-1], '_' + nm]
        if '-' in nm:
            pool += [nm.replace('-', ''), nm.replace('-', '_')]
    pool = [p for p in _dedupe(pool) if p not in real and len(p) > 1]
    if ctx.tier == 'quick':
        pool = random.Random(ctx.seed).sample(pool, 160)
    values = ['inherit', 'red', '1px', 'auto', 'none', '0', 'url(x)', 'normal', '50%', '1']
    regs = [(cssutils.profile, 'default registry'), (css21_only_registry(), 'CSS 2.1 profile alone')]
    n = 0
    for nm in pool:
        for v in values:
            inputs = {'name': nm, 'value': v}
            for reg, label in regs:
                n += 1
                if reg.validate(nm, v) or reg.validateWithProfile(nm, v) != (False, False, []):
                    ctx.violation('bounded: a name no registered profile defines is never valid', f'{nm}: {v!r} ({label}): validate={reg.validate(nm, v)} '
                                  f'validateWithProfile={reg.validateWithProfile(nm, v)!r}', True, inputs)
            got, stored, sheet = V.sheet(nm, v)
            n += 1
            if stored is None:
                ctx.violation('bounded: a declaration with an unknown name is kept (only annotated)', f'{nm}: {v!r} was dropped: {sheet.cssText!r}', True, inputs)
            if got or sheet.valid or sheet.cssRules[0].valid or sheet.cssRules[0].style.valid:
                ctx.violation('bounded: a declaration with an unknown name is never valid, nor is its rule or sheet', f'{nm}: {v!r}: property {got}, sheet {sheet.valid}', True, inputs)
            for origin in ('constructed', 'set_property', 'parse_style'):
                n += 1
                r_ = getattr(V, origin)(nm, v)
                if r_[0]:
                    ctx.violation('bounded: a declaration with an unknown name is never valid, nor is its rule or sheet', f'{nm}: {v!r} ({origin}): valid', True, inputs)
            t_on = V.text0
            V.sheet(nm, v, validate=False)
            if t_on != V.text0 or sheet.cssText != t_on:
                ctx.violation('bounded: cssText is the same with validation on and off', f'{nm}: {v!r}', True, inputs)
    ctx.bounded.append({'name': 'unknown property names', 'evaluations': n, 'distinct_nontrivial': len(pool), 'exhaustive': ctx.tier != 'quick',
                        'rule': 'one-edit mutations (prefix, suffix, dropped letter, vendor-style prefix, hyphen removed/replaced) of the 115 CSS 2.1 property names that are not '
                                f'themselves CSS 2.1 names x {len(values)} values valid for some real property; two registries, parsed / constructed / setProperty / parseStyle',
                        'samples': [{'name': pool[0], 'value': 'inherit'}], 'bound': ('seeded sample of 160 names' if ctx.tier == 'quick' else f'all {len(pool)} mutated names')})


# ---- 4. conjunction upwards, validate flag at every level, valid-only output
DECLS = [('color', 'red', True), ('color', '1px', False), ('width', '10px', True), ('width', 'blue', False), ('zzz', '1', False), ('top', 'auto !important', True),
         # the same names again so that a block can hold an invalid declaration that does not win inside the block: spelled in another letter
         # case, or without the priority of its rival
         ('COLOR', '1px', False), ('top', 'red', False)]
FF_DECLS = [('font-style', 'italic', True), ('font-style', 'inherit', False), ('font-weight', '700', True), ('font-weight', 'bolder', False), ('color', 'red', False),
            ('zzz', '1', False)]


def _block_text(block):
    return '; '.join(f'{n_}: {v}' for n_, v, _ in block)


def _has_loser(block):
    """the block holds two declarations of one (case-normalised) name, so one of them does not win inside the block (coverage only)"""
    names = [alower(d[0]) for d in block]
    return len(set(names)) < len(names)


def _dom_built(css, block):
    """the same block built through the DOM, declaration by declaration, nothing replaced"""
    st = css.CSSStyleDeclaration()
    for name, text, _ in block:
        value, _, prio = text.partition('!')
        st.setProperty(name, value.strip(), prio.strip(), replace=False)
    return st


def conjunction(ctx):
    cssutils = _quiet()
    css = cssutils.css
    maxlen = 3 if ctx.tier == 'quick' else 4
    n = 0
    kinds = set()
    wit = set()

    def judge(what, got, want, text, kid=None):
        if got != want:
            if kid:
                wit.add(kid)
            ctx.violation(what, f'{text!r}: {got}, expected {want}', True, {'css': text}, known_id=kid)

    try:
        for L in range(0, maxlen + 1):
            for block in itertools.product(DECLS, repeat=L):
                text = 'a { ' + _block_text(block) + ' }'
                want = all(d[2] for d in block)
                kid = None
                sheets = [('parseString', cssutils.parseString(text)), ('parseString validate=False', cssutils.parseString(text, validate=False)),
                          ('CSSParser(validate=False)', cssutils.CSSParser(validate=False).parseString(text))]
                texts = set()
                for label, sheet in sheets:
                    n += 1
                    texts.add(sheet.cssText)  # before any verdict is read
                    rule = sheet.cssRules[0]
                    per = [p.valid for p in rule.style.getProperties(all=True)]
                    if per != [d[2] for d in block]:
                        ctx.violation('bounded: each declaration of a block keeps its own verdict', f'{text!r} ({label}): {per} expected {[d[2] for d in block]}', True, {'css': text})
                        continue
                    judge('bounded: a declaration block is valid iff all its declarations are', rule.style.valid, want, text, kid)
                    judge('bounded: a rule is valid iff all its declarations are', rule.valid, want, text, kid)
                    judge('bounded: a sheet is valid iff all its declarations are', sheet.valid, want, text, kid)
                    texts.add(sheet.cssText)
                if len(texts) > 1:
                    ctx.violation('bounded: cssText is the same with validation on and off', f'{text!r}: {sorted(texts)!r}', True, {'css': text})
                # declaration level
                btext = _block_text(block)
                styles = [cssutils.parseStyle(btext), cssutils.parseStyle(btext, validate=False), css.CSSStyleDeclaration(cssText=btext),
                          css.CSSStyleDeclaration(cssText=btext, validating=False)]
                n += len(styles)
                if len({s.cssText for s in styles}) > 1:
                    ctx.violation('bounded: cssText is the same with validation on and off', f'declaration block {btext!r}', True, {'css': btext})
                dom = _dom_built(css, block)
                n += 1
                if [(p.name, p.value, p.priority) for p in dom.getProperties(all=True)] != [(p.name, p.value, p.priority) for p in styles[0].getProperties(all=True)]:
                    ctx.violation('bounded: a block built through the DOM with replace=False holds the same declarations as the parsed one', f'{btext!r}: {dom.cssText!r}', True,
                                  {'css': btext})
                for s in styles + [dom]:
                    judge('bounded: a declaration block is valid iff all its declarations are', s.valid, want, btext, kid)
                # sheet.validating toggled after the fact
                sheet = sheets[0][1]
                before = sheet.cssText
                sheet.validating = False
                if sheet.cssText != before or sheet.valid != sheets[1][1].valid:
                    ctx.violation('bounded: switching validation off changes neither content nor verdict', f'{text!r}', True, {'css': text})
                # valid-only output keeps exactly the valid declarations
                cssutils.ser.prefs.validOnly = True
                try:
                    kept = sheets[0][1].cssRules[0].style.cssText
                finally:
                    cssutils.ser.prefs.validOnly = False
                def triples(t):
                    return [(p.name, p.value, p.priority) for p in cssutils.parseStyle(t).getProperties(all=True)]
                want_kept = triples(_block_text([d for d in block if d[2]]))
                kept = triples(kept)  # a dangling ';' after an omitted last declaration is cosmetic
                n += 1
                if kept != want_kept:
                    ctx.violation('bounded: valid-only output keeps exactly the valid declarations', f'{text!r}: {kept!r} expected {want_kept!r}', True, {'css': text})
                kinds.add((L, want, _has_loser(block)))
        # several rules and nested rules
        small = [()] + [(d,) for d in DECLS[:6]] + [(DECLS[1], DECLS[0]), (DECLS[0], DECLS[3]), (DECLS[5], DECLS[7])]
        wrappers = [('a { %s }', None), ('@media print { b { %s } }', 'C13-valid-skips-media-page'), ('@page { %s }', 'C13-valid-skips-media-page'),
                    ('@media print { @page { %s } }', 'C13-valid-skips-media-page')]
        for (w1, k1), (w2, k2) in itertools.product(wrappers, repeat=2):
            for b1, b2 in itertools.product(small, repeat=2):
                text = (w1 % _block_text(b1)) + ' ' + (w2 % _block_text(b2))
                want = all(d[2] for d in b1 + b2)
                kid = None
                if not want:
                    # recorded class: every invalid declaration of the sheet sits in @media/@page
                    if all(k is not None for b, k in ((b1, k1), (b2, k2)) if not all(d[2] for d in b)):
                        kid = 'C13-valid-skips-media-page'
                sheet = cssutils.parseString(text)
                n += 1
                judge('bounded: a sheet is valid iff all its declarations are', sheet.valid, want, text, kid)
                if sheet.cssText != cssutils.parseString(text, validate=False).cssText:
                    ctx.violation('bounded: cssText is the same with validation on and off', f'{text!r}', True, {'css': text})
                kinds.add(('nested', w1, w2, want))
        # @font-face: conjunction over all declarations (plus the two required descriptors, documented)
        for L in range(0, 3):
            for block in itertools.product(FF_DECLS, repeat=L):
                text = '@font-face { font-family: x; src: url(x); ' + _block_text(block) + ' }'
                want = all(d[2] for d in block)
                sheet = cssutils.parseString(text)
                n += 1
                rule = sheet.cssRules[0]
                per = [p.valid for p in rule.style.getProperties(all=True)][2:]
                if per != [d[2] for d in block]:
                    ctx.violation('bounded: each declaration of an @font-face block is judged by the @font-face profile', f'{text!r}: {per} expected {[d[2] for d in block]}', True, {'css': text})
                    continue
                judge('bounded: an @font-face rule is valid iff all its declarations are', rule.valid, want, text)
                judge('bounded: a sheet is valid iff all its declarations are', sheet.valid, want, text)
                kinds.add(('ff', L, want))
    finally:
        cssutils.ser.prefs.useDefaults()
    for kid in sorted(wit):
        ctx.known_finding(kid, True)
    ctx.bounded.append({'name': 'conjunction upwards / validate flag / valid-only output', 'evaluations': n, 'distinct_nontrivial': len(kinds), 'exhaustive': True,
                        'rule': f'all declaration blocks of length <= {maxlen} over {len(DECLS)} declarations (valid, invalid, unknown name, !important; every name that can be judged '
                                'occurs valid and invalid, so a block can hold an invalid declaration that loses inside the block to a later one, to an !important one, or to one '
                                'spelled in another letter case) parsed with validation on/off at parser, sheet and declaration level and built through the DOM with replace=False; '
                                f'all pairs of {len(small)} small blocks in style / @media / @page / nested wrappers; '
                                f'all @font-face blocks of length <= 2 over {len(FF_DECLS)} descriptors',
                        'samples': [{'css': 'a { color: 1px; color: red }'}], 'bound': f'blocks of <= {maxlen} declarations, sheets of 2 rules'})


# ---- 5. @font-face context
FF_TABLE = [  # name, value, ordinary context, @font-face context (None: not decided here)
    ('font-style', 'normal', True, True), ('font-style', 'italic', True, True), ('font-style', 'oblique', True, True), ('font-style', 'inherit', True, False),
    ('font-style', 'bold', False, False), ('font-weight', 'normal', True, True), ('font-weight', 'bold', True, True), ('font-weight', '100', True, True),
    ('font-weight', '900', True, True), ('font-weight', 'bolder', True, False), ('font-weight', 'lighter', True, False), ('font-weight', 'inherit', True, False),
    ('font-weight', '1000', False, False), ('font-weight', '150', False, False), ('font-family', 'serif', True, True), ('font-family', '"Foo Bar"', True, True),
    ('font-family', 'Foo Bar', True, True), ('font-family', 'a, b', True, False), ('font-stretch', 'condensed', True, True), ('font-stretch', 'wider', True, False),
    ('font-stretch', 'inherit', True, False), ('color', 'red', True, False), ('width', '1px', True, False), ('display', 'none', True, False), ('zzz', '1', False, False),
    ('unicode-range', 'U+26', None, True), ('unicode-range', 'red', None, False), ('src', 'red', None, False), ('src', 'url(f.ttf)', None, True),
]


FF_BASE = (('font-family', 'x'), ('src', 'url(x)'))


def _ff_routes(css, cu):
    """every way a declaration can come to exist inside a rule of kind `make` (a function returning (sheet, rule) with the rule in the
    sheet and, for @font-face, the two required descriptors already set); each route returns (sheet, rule) afterwards"""

    def parsed(make, head, name, text):
        sheet = cu.parseString(head % f'{name}: {text}')
        return sheet, sheet.cssRules[0]

    def set_name_value(make, head, name, text):
        sheet, rule = make()
        rule.style.setProperty(name, text)
        return sheet, rule

    def set_property_object(make, head, name, text):
        sheet, rule = make()
        rule.style.setProperty(css.Property(name, text))  # a ready-made Property, judged on its own before it is added
        return sheet, rule

    def set_property_object_judged_before(make, head, name, text):
        sheet, rule = make()
        p = css.Property(name, text)
        p.valid  # noqa: B018 - asking for the verdict outside must not pin it
        rule.style.setProperty(p)
        return sheet, rule

    def item(make, head, name, text):
        sheet, rule = make()
        rule.style[name] = text
        return sheet, rule

    def attribute(make, head, name, text):
        sheet, rule = make()
        setattr(rule.style, _domname(name), text)  # AttributeError for names without a DOM attribute: route not applicable
        return sheet, rule

    def block_assigned(make, head, name, text):
        sheet, rule = make()
        st = css.CSSStyleDeclaration(cssText=rule.style.cssText + (';' if rule.style.cssText else '') + f'{name}: {text}')
        rule.style = st
        return sheet, rule

    def block_of_objects_assigned(make, head, name, text):
        sheet, rule = make()
        st = css.CSSStyleDeclaration()
        for p in rule.style.getProperties(all=True):
            st.setProperty(css.Property(p.name, p.value))
        st.setProperty(css.Property(name, text))
        rule.style = st
        return sheet, rule

    def block_text_assigned(make, head, name, text):
        sheet, rule = make()
        rule.style = rule.style.cssText + (';' if rule.style.cssText else '') + f'{name}: {text}'
        return sheet, rule

    def style_csstext(make, head, name, text):
        sheet, rule = make()
        rule.style.cssText = rule.style.cssText + (';' if rule.style.cssText else '') + f'{name}: {text}'
        return sheet, rule

    def rule_csstext(make, head, name, text):
        sheet, rule = make()
        rule.cssText = head % f'{name}: {text}'
        return sheet, rule

    def rule_added_later(make, head, name, text):
        # the rule is built detached, filled, and only then put into a sheet
        sheet, rule = make()
        sheet.deleteRule(0)
        rule.style.setProperty(css.Property(name, text))
        sheet.add(rule)
        return sheet, rule

    return [parsed, set_name_value, set_property_object, set_property_object_judged_before, item, attribute, block_assigned, block_of_objects_assigned,
            block_text_assigned, style_csstext, rule_csstext, rule_added_later]


def fontface(ctx):
    cssutils = _quiet()
    css = cssutils.css
    V = _V()
    n = 0
    kinds = set()

    def make_ff():
        sheet = css.CSSStyleSheet()
        rule = css.CSSFontFaceRule()
        for k, v_ in FF_BASE:
            rule.style.setProperty(k, v_)
        sheet.add(rule)
        return sheet, rule

    def make_ord():
        sheet = css.CSSStyleSheet()
        rule = css.CSSStyleRule(selectorText='a')
        sheet.add(rule)
        return sheet, rule

    contexts = [('@font-face', make_ff, '@font-face { font-family: x; src: url(x); %s }', 3), ('style rule', make_ord, 'a { %s }', 2)]
    routes = _ff_routes(css, cssutils)
    for name, v, w_ord, w_ff in FF_TABLE:
        variants = [('base', v)] + [x for x in spellings(v) if x[0] in ('upper', 'altcase', 'ws-crlf', 'comment-both')]
        for (kind, text), (cname, make, head, wi) in itertools.product(variants, contexts):
            want = (name, v, w_ord, w_ff)[wi]
            if want is None:
                continue
            for route in routes:
                inputs = {'name': name, 'value': text, 'context': cname, 'route': route.__name__}
                try:
                    sheet, rule = route(make, head, name, text)
                except AttributeError:
                    continue  # no DOM attribute of that name
                except V.DOMException:
                    sheet = rule = None
                n += 1
                kinds.add((cname, route.__name__, want))
                if rule is None:
                    got_p = got_r = got_s = False
                else:
                    props = rule.style.getProperties(name, all=True)
                    # the declaration under test is the last one of that name
                    got_p = props[-1].valid if props else False
                    got_r = rule.valid
                    got_s = sheet.valid
                    if rule.parentStyleSheet is not sheet or sheet.cssRules.length != 1:
                        ctx.violation('bounded: the route builds one rule inside the sheet', f'{cname} {route.__name__} {name}: {text!r}', True, inputs)
                        continue
                where = f'{cname}, {route.__name__}: {name}: {text!r}'
                if got_p != want:
                    ctx.violation('bounded: a declaration is judged by the profile of the rule it is in, however it got there', f'{where}: Property.valid={got_p}, expected {want}', True, inputs)
                if got_r != want:
                    ctx.violation('bounded: a rule is valid iff all its declarations are, however they got there', f'{where}: rule.valid={got_r}, expected {want}', True, inputs)
                if got_s != want:
                    ctx.violation('bounded: a sheet is valid iff all its declarations are, however they got there', f'{where}: sheet.valid={got_s}, expected {want}', True, inputs)
        # a declaration block moved from a style rule into @font-face (and back) follows its rule
        if w_ord is not None and w_ff is not None:
            sheet, rule = make_ord()
            try:
                rule.style.setProperty(css.Property(name, v))
            except V.DOMException:
                continue
            p = rule.style.getProperty(name)
            first = p.valid
            sheet2, ff = make_ff()
            st = rule.style
            for k, v_ in FF_BASE:
                if k != name:
                    st.setProperty(k, v_)
            ff.style = st
            inside = st.getProperties(name, all=True)[-1].valid
            n += 1
            if first != w_ord or inside != w_ff or ff.valid != w_ff or sheet2.valid != w_ff:
                ctx.violation('bounded: a declaration block moved into @font-face is judged by the @font-face profile',
                              f'{name}: {v!r}: in a style rule {first} (expected {w_ord}), moved into @font-face {inside}, rule {ff.valid}, sheet {sheet2.valid} (expected {w_ff})',
                              True, {'name': name, 'value': v})
    ctx.bounded.append({'name': '@font-face context', 'evaluations': n, 'distinct_nontrivial': len(kinds), 'exhaustive': True,
                        'rule': f'{len(FF_TABLE)} hand-judged (name, value) pairs x 5 spellings x 2 contexts (@font-face, style rule) x {len(routes)} routes into the rule '
                                '(parsed; setProperty(name, value); setProperty(Property object) fresh and already judged; style[name] = value; attribute access; a block built '
                                'outside from text / from Property objects / as a string and assigned as rule.style; style.cssText; rule.cssText; rule filled while detached and added '
                                'later), each compared on Property.valid, rule.valid and sheet.valid with the hand verdict; plus a block moved from a style rule into @font-face; '
                                'distinct = (context, route, verdict)',
                        'samples': [{'name': 'font-weight', 'value': 'bolder', 'route': 'set_property_object', 'ordinary': True, 'font-face': False}], 'bound': 'the table'})


# ---- driver: the serial checks run in worker processes next to the Property sweep; their ctx calls are recorded and replayed
class _Recorder:
    def __init__(self, tier, seed):
        self.tier, self.seed, self.jobs = tier, seed, 1
        self.bounded, self.calls = [], []

    def violation(self, what, detail, replayed=True, inputs=None, known_id=None):
        self.calls.append(('violation', (what, detail, replayed, inputs, known_id)))

    def known_finding(self, kid, still):
        self.calls.append(('known_finding', (kid, still)))


def _serial(args):
    fname, tier, seed = args
    rec = _Recorder(tier, seed)
    globals()[fname](rec)
    return rec.calls, rec.bounded


def run_all(ctx):
    import multiprocessing as mp
    quick = ctx.tier == 'quick'
    serial = ['registry', 'unknown_names', 'conjunction', 'fontface']
    with mp.get_context('fork').Pool(max(1, ctx.jobs)) as pool:
        pending = [pool.apply_async(_serial, ((f, ctx.tier, ctx.seed),)) for f in serial]
        sweep = pool.map_async(_sweep, [([n_], quick, ctx.seed) for n_ in G], chunksize=1)
        done = [p.get() for p in pending]
        results = sweep.get()
    calls, recs = done[0]
    for kind, a in calls:
        getattr(ctx, kind)(*a[:3], a[3], known_id=a[4]) if kind == 'violation' else ctx.known_finding(*a)
    ctx.bounded.extend(recs)
    _collect_sweep(ctx, results, quick)
    for calls, recs in done[1:]:
        for kind, a in calls:
            getattr(ctx, kind)(*a[:3], a[3], known_id=a[4]) if kind == 'violation' else ctx.known_finding(*a)
        ctx.bounded.extend(recs)
