"""C12 bounded stand-in: no hidden state - history-independent results, global modes restored.

Three domains, all on the real cssutils code:

* ``histories``: a fixed probe battery (parse + serialise of reference texts, stand-alone constructors, DOM edits that must
  raise) must give the same answers after every sequence of <= 2 (quick) / <= 3 (thorough) calls from a disturbance pool as
  in a fresh process.  Every sequence runs in its own freshly forked process (fork server that has only imported cssutils),
  so nothing leaks between cases.
* ``modes``: cssutils.log.raiseExceptions, vars(cssutils.ser.prefs), the identity of cssutils.ser, cssutils.profile.profiles and
  defaultProfiles are the same before and after every parse / csscombine call of the pool, whether it returns or raises,
  under every ambient configuration of a small grid (error mode x serializer preferences x default profiles x parser created
  before / after the mode was chosen).
* ``reuse``: one CSSParser object parses a list of texts N times over; every result equals the result of a fresh parser.
"""
import itertools
import json
import logging
import os
import tempfile

# --------------------------------------------------------------------------------------------------------------------
# reference material

REFERENCE_SHEETS = [
    'a { color: red }',
    ('@charset "utf-8";\n/*c*/\n@import "i.css" print, tv;\n@namespace p "u";\n@font-face { font-family: x; src: url(f) }\n'
     '@media print and (min-width: 10px), screen { a { color: red } b { left: 1px } }\n@page :first { margin: 0; @top-left { content: "x" } }\n'
     'p|a, b.c > d:not(.e) { color: red; left: 1px !important; background: url(x) no-repeat 0 50%, rgb(1,2,3) }\n@x y;'),
    'a { margin: 0 -1.5em +2px; color: #AABBCC; content: "s\\"t"; width: calc(1px + 2px) }',
    '@media tv { a { top: 0 } } @media all { b { top: 0 } }',
    'h1, h2 > h3 + h4 ~ h5 [a="b"] :hover ::after { font: 12px/1.5 "A B", serif }',
    '@variables { c: red } a { color: var(c) }',
    'a { color: red; color: blue !important; c\\olor: green }',
    'red',  # a lone value-like text: parsed as a (rejected) rule set, must not pick anything up from earlier calls
]
REFERENCE_STYLES = ['color: red', 'left: 1px; top: 2px !important; background: url(x)', 'red', 'margin: 0 auto']
MALFORMED_SHEET = 'a { color: ; } } @import; @media { $ b{ left: } @page x y { } p|q { top: 0 } a { color: rgb(1, ; top: 1px'
MALFORMED_STYLE = 'color: ; $; left; top: 0 !foo; width: calc(1px +'
UNDECODABLE = b'\xff\xfe\xff'


def _try(f):
    try:
        v = f()
    except Exception as e:
        return f'EXC:{type(e).__name__}:{e}'[:300]
    if isinstance(v, bytes):
        v = v.decode('utf-8', 'replace')
    return v


def _fetch_ok(url):
    return None, 'i { top: 1px }'


def battery():  # noqa: C901
    """the fixed probe battery; returns a JSON-able list of [probe name, answer]"""
    import xml.dom
    import cssutils
    import cssutils.css as C
    import cssutils.stylesheets as S
    out = []

    def rec(k, f):
        out.append([k, json.loads(json.dumps(_try(f), default=repr))])

    # step 0: the user registers a new profile AFTER the history and validates a property of it (registry restored afterwards).
    # It comes first so that in a fresh process nothing has read the registry before the registration.
    reg_before = registry_view()
    try:
        rec('new profile: addProfile', lambda: cssutils.profile.addProfile('Vendor X', {'-x-switch': 'on|off'}))
        rec('new profile: profiles / defaultProfiles', lambda: [list(cssutils.profile.profiles)[-1], list(cssutils.profile.defaultProfiles)[-1], len(cssutils.profile.defaultProfiles)])
        rec('new profile: validate', lambda: [cssutils.profile.validate('-x-switch', 'on'), cssutils.profile.validate('-x-switch', 'bad')])
        rec('new profile: validateWithProfile', lambda: [cssutils.profile.validateWithProfile('-x-switch', 'on'), cssutils.profile.validateWithProfile('-x-switch', 'bad')])
        rec('new profile: Property.valid', lambda: [C.Property('-x-switch', 'on').valid, C.Property('-x-switch', 'bad').valid])
        rec('new profile: parsed Property.valid', lambda: [[p.valid for p in r.style.getProperties(all=True)] for r in cssutils.parseString('a { -x-switch: on; -x-switch: bad; color: red }').cssRules])
        rec('new profile: parsed style valid', lambda: cssutils.parseStyle('-x-switch: off').valid)
    finally:
        _try(lambda: cssutils.profile.removeProfile('Vendor X'))
    rec('new profile: registry restored after removeProfile', lambda: registry_view() == reg_before or view_diff(reg_before, registry_view()))
    rec('global: raise mode', lambda: cssutils.log.raiseExceptions)
    rec('global: serializer is the initial object', lambda: cssutils.ser is _INITIAL.get('ser'))
    rec('global: preferences', lambda: sorted(vars(cssutils.ser.prefs).items()))
    rec('global: profiles', lambda: list(cssutils.profile.profiles))
    rec('global: defaultProfiles', lambda: cssutils.profile.defaultProfiles)
    # stand-alone constructors first: they are the ones that would pick up left-over tokens
    rec('PropertyValue(red)', lambda: C.PropertyValue('red').cssText)
    rec('MediaQuery', lambda: S.MediaQuery('print and (min-width: 1px)').mediaText)
    rec('MediaList', lambda: S.MediaList('print, tv').mediaText)
    rec('Selector', lambda: C.Selector('a > b').selectorText)
    rec('SelectorList', lambda: C.SelectorList('a, b').selectorText)
    rec('CSSStyleDeclaration', lambda: C.CSSStyleDeclaration('color: red; left: 0').cssText)
    rec('Property', lambda: C.Property('color', 'red', 'important').cssText)
    rec('PropertyValue(list)', lambda: C.PropertyValue('1px solid #abc').cssText)
    rec('CSSMediaRule', lambda: C.CSSMediaRule('print').cssText)
    for i, t in enumerate(REFERENCE_SHEETS):
        rec(f'parseString[{i}]', lambda t=t: cssutils.CSSParser(fetcher=_fetch_ok).parseString(t, href='http://example.com/s.css').cssText)
    rec('parseString(bytes)', lambda: cssutils.parseString(b'@charset "ascii"; a { color: red }').cssText)
    for i, t in enumerate(REFERENCE_STYLES):
        rec(f'parseStyle[{i}]', lambda t=t: cssutils.parseStyle(t).cssText)
    rec('validate', lambda: [cssutils.profile.validate('color', 'red'), cssutils.profile.validate('color', '4'), cssutils.profile.validate('zzz', '4')])
    # the verdict of one (name, value) pair depends on the CONTEXT (an @font-face descriptor vs. the property of an ordinary rule), never on
    # which of the two was validated first - in this call or in an earlier one
    rec('valid flags: @font-face descriptors vs ordinary properties', lambda: [
        [[p.valid for p in r.style.getProperties(all=True)] for r in cssutils.parseString(t).cssRules]
        for t in ('@font-face { font-weight: bolder; font-style: inherit; font-family: x } p { font-weight: bolder; font-style: inherit }',
                  'p { font-stretch: wider } @font-face { font-stretch: wider; font-family: x }')])

    # DOM edits that must raise (in the default, raising mode outside a parse)
    def edit(make, act):
        def f():
            o = make()
            try:
                act(o)
            except xml.dom.DOMException as e:
                return 'raised ' + type(e).__name__
            return 'accepted'
        return f
    rec('edit: selectorText', edit(lambda: cssutils.parseString('a{color:red}').cssRules[0], lambda r: setattr(r, 'selectorText', '$')))
    rec('edit: style.cssText', edit(lambda: cssutils.parseString('a{color:red}').cssRules[0].style, lambda s: setattr(s, 'cssText', 'color')))
    rec('edit: insertRule', edit(lambda: cssutils.parseString('a{color:red}'), lambda s: s.insertRule('@import "x";', 1)))
    rec('edit: mediaText', edit(lambda: S.MediaList('print'), lambda m: setattr(m, 'mediaText', '$')))
    rec('edit: PropertyValue', edit(lambda: C.PropertyValue('red'), lambda v: setattr(v, 'cssText', '}')))
    rec('edit: deleteRule', edit(lambda: cssutils.parseString('a{color:red}'), lambda s: s.deleteRule(5)))
    # serialisation of one object twice, and of a sheet built before vs. after
    rec('serialise twice', lambda: (lambda s: [s.cssText == s.cssText, s.cssText])(cssutils.parseString(REFERENCE_SHEETS[3])))
    return out


_INITIAL = {}


def _note_initial():
    import cssutils
    _INITIAL.setdefault('ser', cssutils.ser)


# --------------------------------------------------------------------------------------------------------------------
# the disturbance pool: name -> (is a parse / csscombine call, callable(env))
# env: {'dir': temp dir with proxy.css / b.css / bad.css}


class _Boom(Exception):
    pass


def _fetch_boom(url):
    raise _Boom('fetcher failed: ' + url)


def _fetch_undecodable(url):
    return 'ascii', UNDECODABLE


def _pool():  # noqa: C901
    import cssutils
    import cssutils.css as C
    import cssutils.stylesheets as S
    from cssutils.script import csscombine
    P = {}
    # -- parse / csscombine calls (monitored for the global modes)
    P['parse: well-formed sheet'] = (True, lambda env: cssutils.CSSParser(fetcher=_fetch_ok).parseString(REFERENCE_SHEETS[1], href='http://example.com/s.css'))
    P['parse: malformed sheet'] = (True, lambda env: cssutils.parseString(MALFORMED_SHEET))
    # values that are valid for the ordinary property but not for the @font-face descriptor of the same name, validated in the ordinary context
    P['parse: descriptor values in an ordinary rule'] = (True, lambda env: cssutils.parseString('p { font-weight: bolder; font-style: inherit; font-stretch: wider }'))
    P['parse: malformed style'] = (True, lambda env: cssutils.parseStyle(MALFORMED_STYLE))
    P['parse: unclosed constructs'] = (True, lambda env: cssutils.parseString('@media print { a { color: "x'))
    P['parse: sheet ending in media query junk'] = (True, lambda env: cssutils.parseString('@import "x" print foo; @media tv bar { }'))
    P['parse: undecodable bytes, encoding given'] = (True, lambda env: cssutils.parseString(UNDECODABLE, encoding='ascii'))
    P['parse: undecodable style bytes'] = (True, lambda env: cssutils.parseStyle(b'\xff', encoding='ascii'))
    P['parse: fetcher raises'] = (True, lambda env: cssutils.CSSParser(fetcher=_fetch_boom).parseString('@import "x.css"; a { color: red }', href='http://example.com/s.css'))
    P['parse: fetcher returns undecodable'] = (True, lambda env: cssutils.CSSParser(fetcher=_fetch_undecodable).parseString('@import "x.css"; a { color: red }', href='http://example.com/s.css'))
    P['parseUrl: fetcher raises'] = (True, lambda env: cssutils.CSSParser(fetcher=_fetch_boom).parseUrl('http://example.com/x.css'))
    P['parseUrl: ok'] = (True, lambda env: cssutils.CSSParser(fetcher=_fetch_ok).parseUrl('http://example.com/x.css'))
    P['parseFile: missing file'] = (True, lambda env: cssutils.parseFile(os.path.join(env['dir'], 'no-such-file.css')))
    P['parseFile: undecodable file'] = (True, lambda env: cssutils.parseFile(os.path.join(env['dir'], 'bad.css'), encoding='ascii'))
    P['parseFile: ok'] = (True, lambda env: cssutils.parseFile(os.path.join(env['dir'], 'proxy.css')))
    P['parse: raising parser, malformed sheet'] = (True, lambda env: cssutils.CSSParser(raiseExceptions=True).parseString('a { color: ; }'))
    P['parse: raising parser, malformed style'] = (True, lambda env: cssutils.CSSParser(raiseExceptions=True).parseStyle('color: ;'))
    P['parse: raising parser, media junk'] = (True, lambda env: cssutils.CSSParser(raiseExceptions=True).parseString('@media tv foo { a { top: 0 } }'))
    P['parse: raising parser, well-formed'] = (True, lambda env: cssutils.CSSParser(raiseExceptions=True).parseString('a { color: red }'))
    P['parse: comments off, not validating'] = (True, lambda env: cssutils.CSSParser(parseComments=False, validate=False).parseString('/*c*/ a { zzz: 1 } /*d*/'))
    P['csscombine: ok'] = (True, lambda env: csscombine(path=os.path.join(env['dir'], 'proxy.css')))
    P['csscombine: not minified, text'] = (True, lambda env: csscombine(cssText='@import "b.css"; a { color: red }', href='file://' + env['dir'] + '/proxy.css', minify=False))
    for mini in (True, False):
        for rv in (True, False):
            P[f'csscombine: minify={mini} resolveVariables={rv}'] = (True, lambda env, mini=mini, rv=rv: csscombine(
                cssText='@import "b.css";\n@variables { c: red }\n/*k*/ a { color: var(c) }', href='file://' + env['dir'] + '/proxy.css', minify=mini, resolveVariables=rv))
    P['csscombine: missing file'] = (True, lambda env: csscombine(path=os.path.join(env['dir'], 'no-such-file.css')))
    P['csscombine: undecodable'] = (True, lambda env: csscombine(path=os.path.join(env['dir'], 'bad.css'), sourceencoding='ascii'))
    P['csscombine: unknown target encoding'] = (True, lambda env: csscombine(path=os.path.join(env['dir'], 'proxy.css'), targetencoding='no-such-encoding'))
    # -- stand-alone constructors and DOM edits with rejected text
    P['MediaQuery: rejected text'] = (False, lambda env: S.MediaQuery('screen foo'))
    P['MediaQuery: rejected expression'] = (False, lambda env: S.MediaQuery('tv and (min-width: )'))
    P['MediaList: rejected text'] = (False, lambda env: S.MediaList('print, $'))
    P['MediaList: junk after type'] = (False, lambda env: S.MediaList('print foo, tv'))
    P['MediaList.appendMedium: and + ident'] = (False, lambda env: S.MediaList('screen').appendMedium('screen and foo'))
    P['MediaList.appendMedium: and + dimension'] = (False, lambda env: S.MediaList('screen').appendMedium('tv and 3d'))
    P['MediaQuery: and + ident'] = (False, lambda env: S.MediaQuery('screen and foo'))
    P['MediaQuery: and + ident + more'] = (False, lambda env: S.MediaQuery('not print and x (color)'))
    P['MediaList.mediaText: and + ident'] = (False, lambda env: setattr(S.MediaList('screen'), 'mediaText', 'print and x'))
    P['MediaQuery.mediaText: and + ident'] = (False, lambda env: setattr(S.MediaQuery('tv'), 'mediaText', 'print and x'))
    P['MediaList.__setitem__: and + string'] = (False, lambda env: S.MediaList('screen, tv').__setitem__(0, 'tty and "s"'))
    # the same DOM-level calls while the user runs in log-only mode (the call is not cut short by an exception)
    P['log mode: MediaList.appendMedium: and + ident'] = (False, lambda env: _in_log_mode(lambda: S.MediaList('screen').appendMedium('screen and foo')))
    P['log mode: MediaQuery: and + ident'] = (False, lambda env: _in_log_mode(lambda: S.MediaQuery('screen and foo')))
    P['log mode: MediaList.mediaText: and + ident'] = (False, lambda env: _in_log_mode(lambda: setattr(S.MediaList('screen'), 'mediaText', 'print and x, tv')))
    P['log mode: MediaQuery: junk after type'] = (False, lambda env: _in_log_mode(lambda: S.MediaQuery('screen foo')))
    P['CSSImportRule.media: and + ident'] = (False, lambda env: setattr(C.CSSImportRule('x.css'), 'media', 'tv and x'))
    P['PropertyValue: rejected text'] = (False, lambda env: C.PropertyValue('1px }'))
    P['PropertyValue: unclosed function'] = (False, lambda env: C.PropertyValue('rgb(1, 2'))
    P['Selector: rejected text'] = (False, lambda env: C.Selector('a >'))
    P['Selector: undeclared prefix'] = (False, lambda env: C.Selector('zz|a'))
    P['CSSStyleDeclaration: rejected text'] = (False, lambda env: C.CSSStyleDeclaration('color'))
    P['CSSMediaRule: rejected media'] = (False, lambda env: C.CSSMediaRule('tv foo'))
    P['CSSImportRule: rejected text'] = (False, lambda env: setattr(C.CSSImportRule(), 'cssText', '@import "x" tv foo;'))
    P['edit: rejected sheet text'] = (False, lambda env: setattr(cssutils.parseString('a{color:red}'), 'cssText', 'b{top:0} @import "x";'))
    P['edit: rejected media rule text'] = (False, lambda env: setattr(C.CSSMediaRule('print'), 'cssText', '@media tv foo { a { top: 0 } }'))
    P['serialise: minified then defaults'] = (True, lambda env: _ser_roundtrip())
    P['serialise: sheet, style, validity'] = (True, lambda env: (lambda s: (s.cssText, s.cssRules[-2].style.cssText, s.valid, [r.cssText for r in s.cssRules]))(
        cssutils.CSSParser(fetcher=_fetch_ok).parseString(REFERENCE_SHEETS[1], href='http://example.com/s.css')))
    P['validate: registry queries'] = (True, lambda env: (cssutils.profile.validate('color', 'red'), cssutils.profile.validateWithProfile('color', 'rgba(1,2,3,0.5)'),
                                                            list(cssutils.profile.defaultProfiles), C.Property('left', '1px').valid))
    return P


def _in_log_mode(f):
    import cssutils
    old = cssutils.log.raiseExceptions
    cssutils.log.raiseExceptions = False
    try:
        return f()
    finally:
        cssutils.log.raiseExceptions = old


def _ser_roundtrip():
    import cssutils
    s = cssutils.parseString(REFERENCE_SHEETS[1])
    saved = dict(vars(cssutils.ser.prefs))  # the user puts his own settings back, whatever they were
    cssutils.ser.prefs.useMinified()
    try:
        s.cssText
    finally:
        vars(cssutils.ser.prefs).clear()
        vars(cssutils.ser.prefs).update(saved)


POOL_QUICK_HISTORY = None  # all of the pool


# --------------------------------------------------------------------------------------------------------------------
# the mechanically built disturbance family "one stray token at every position of every construct"
#
# Every sub-parser of the library (sheet, each at-rule with its prelude and block, selector, declaration block, declaration, value,
# priority, media query, @media name) is made to end its run NOT well-formed in every way a single stray token can cause: each token
# kind of JUNK_TOKENS is put at each slot of each construct (SLOT_TEMPLATES: before / inside / behind every part).  Each text is one
# earlier call; afterwards the probe battery must answer as in a fresh process.  The texts go through the parse entry points
# (parseString / parseStyle of a default and of a raising parser) and through the stand-alone DOM constructors of the sub-parsers
# that have one (in raising and in log-only mode).

JUNK_TOKENS = {
    'unknown at-keyword': '@junk', 'known at-keyword': '@media', 'comment': '/*j*/', 'ident': 'junk', 'string': '"j"', 'unclosed string': '"j', 'number': '7', 'dimension': '3d',
    'hash': '#j1', 'char $': '$', 'function': 'j(', 'opening bracket': '[', 'closing paren': ')', 'closing brace': '}', 'opening brace': '{', 'semicolon': ';', 'priority': '!important',
    'uri': 'url(j)', 'CDO': '<!--', 'colon': ':', 'comma': ',', 'backslash': '\\',
}
QUICK_JUNK = ('unknown at-keyword', 'known at-keyword', 'comment', 'ident', 'string', 'dimension', 'char $', 'function', 'closing paren', 'closing brace', 'semicolon', 'priority', 'uri', 'colon', 'comma')

# (entry point, construct, slot) -> text with one %s
SLOT_TEMPLATES = [
    ('sheet', 'sheet', 'before the first rule', '%s a { top: 0 }'),
    ('sheet', 'sheet', 'between rules', 'a { top: 0 } %s b { left: 0 }'),
    ('sheet', 'sheet', 'behind the last rule', 'a { top: 0 } %s'),
    ('sheet', 'selector', 'behind a combinator', 'a > %s b { top: 0 }'),
    ('sheet', 'selector', 'behind the last simple selector', 'a b %s { top: 0 }'),
    ('sheet', 'selector', 'behind the comma', 'a, %s b { top: 0 }'),
    ('sheet', 'selector', 'in an attribute selector', 'a[%s] { top: 0 }'),
    ('sheet', 'selector', 'behind the attribute value', 'a[b="c" %s] { top: 0 }'),
    ('sheet', 'selector', 'in a negation', 'a:not(%s) { top: 0 }'),
    ('sheet', 'selector', 'behind the pseudo colon', 'a:%s { top: 0 }'),
    ('sheet', 'declaration block', 'before the first declaration', 'a { %s top: 0 }'),
    ('sheet', 'declaration block', 'behind the last semicolon', 'a { top: 0; %s }'),
    ('sheet', 'declaration', 'behind the name', 'a { top %s : 0 }'),
    ('sheet', 'value', 'before the value', 'a { top: %s 0 }'),
    ('sheet', 'value', 'behind the value', 'a { top: 0 %s }'),
    ('sheet', 'value', 'inside a function', 'a { color: rgb(1, %s 2, 3) }'),
    ('sheet', 'value', 'inside calc', 'a { top: calc(1px + %s 2px) }'),
    ('sheet', 'priority', 'behind the !', 'a { top: 0 ! %s important }'),
    ('sheet', 'priority', 'behind important', 'a { top: 0 !important %s }'),
    ('sheet', 'priority', 'behind important, declarations follow', 'a { top: 0 !important %s; left: 0 } b { left: 0 }'),
    ('sheet', '@font-face', 'prelude', '@font-face %s { font-family: x }'),
    ('sheet', '@font-face', 'block', '@font-face { font-family: x; %s }'),
    ('sheet', '@font-face', 'behind the block', '@font-face { font-family: x } %s'),
    ('sheet', '@variables', 'prelude', '@variables %s { a: b }'),
    ('sheet', '@variables', 'behind the name', '@variables { a %s : b }'),
    ('sheet', '@variables', 'behind the value', '@variables { a: b %s }'),
    ('sheet', '@media', 'behind the media type', '@media tv %s { a { top: 0 } }'),
    ('sheet', '@media', 'behind and', '@media tv and %s (color) { a { top: 0 } }'),
    ('sheet', '@media', 'in the expression', '@media tv and (min-width: %s 1px) { a { top: 0 } }'),
    ('sheet', '@media', 'behind the comma', '@media tv, %s tty { a { top: 0 } }'),
    ('sheet', '@media', 'before the name', '@media tv %s "n" { a { top: 0 } }'),
    ('sheet', '@media', 'behind the name', '@media tv "n" %s { a { top: 0 } }'),
    ('sheet', '@media', 'before the first nested rule', '@media tv { %s a { top: 0 } }'),
    ('sheet', '@media', 'behind the last nested rule', '@media tv { a { top: 0 } %s }'),
    ('sheet', '@import', 'before the href', '@import %s "x.css";'),
    ('sheet', '@import', 'behind the href', '@import "x.css" %s;'),
    ('sheet', '@import', 'behind the media', '@import "x.css" tv %s;'),
    ('sheet', '@import', 'behind the name', '@import "x.css" tv "n" %s; a { top: 0 }'),
    ('sheet', '@namespace', 'before the prefix', '@namespace %s p "u"; p|a { top: 0 }'),
    ('sheet', '@namespace', 'behind the prefix', '@namespace p %s "u"; p|a { top: 0 }'),
    ('sheet', '@namespace', 'behind the URI', '@namespace p "u" %s; p|a { top: 0 }'),
    ('sheet', '@charset', 'before the encoding', '@charset %s "ascii"; a { top: 0 }'),
    ('sheet', '@charset', 'behind the encoding', '@charset "ascii" %s; a { top: 0 }'),
    ('sheet', '@page', 'prelude', '@page %s { margin: 0 }'),
    ('sheet', '@page', 'behind the pseudo page', '@page :first %s { margin: 0 }'),
    ('sheet', '@page', 'block', '@page { margin: 0; %s }'),
    ('sheet', '@page', 'margin rule prelude', '@page { @top-left %s { top: 0 } }'),
    ('sheet', '@page', 'margin rule block', '@page { @top-left { top: 0 %s } }'),
    ('sheet', '@page', 'behind the margin rule', '@page { @top-left { top: 0 } %s }'),
    ('sheet', 'unknown at-rule', 'prelude', '@x y %s;'),
    ('sheet', 'unknown at-rule', 'block', '@x { y %s } a { top: 0 }'),
    ('style', 'declaration block', 'before the first declaration', '%s top: 0'),
    ('style', 'declaration block', 'behind the last semicolon', 'top: 0; %s'),
    ('style', 'declaration', 'behind the name', 'top %s : 0'),
    ('style', 'value', 'before the value', 'top: %s 0'),
    ('style', 'value', 'behind the value', 'top: 0 %s'),
    ('style', 'value', 'inside a function', 'color: rgb(1, %s 2, 3)'),
    ('style', 'priority', 'behind the !', 'top: 0 ! %s important'),
    ('style', 'priority', 'behind important', 'top: 0 !important %s'),
    ('style', 'priority', 'behind important, declarations follow', 'top: 0 !important %s; left: 0'),
    # stand-alone DOM constructors of the sub-parsers
    ('Selector', 'selector', 'behind a combinator', 'a > %s b'),
    ('Selector', 'selector', 'behind the last simple selector', 'a b %s'),
    ('Selector', 'selector', 'in a negation', 'a:not(%s)'),
    ('SelectorList', 'selector', 'behind the comma', 'a, %s b'),
    ('CSSStyleDeclaration', 'declaration block', 'behind the last semicolon', 'top: 0; %s'),
    ('CSSStyleDeclaration', 'priority', 'behind important', 'top: 0 !important %s'),
    ('Property.priority', 'priority', 'behind important', 'important %s'),
    ('Property.priority', 'priority', 'behind the !', '! %s important'),
    ('Property.cssText', 'priority', 'behind important', 'top: 0 !important %s'),
    ('Property.name', 'declaration', 'behind the name', 'top %s'),
    ('PropertyValue', 'value', 'behind the value', '0 %s'),
    ('PropertyValue', 'value', 'inside a function', 'rgb(1, %s 2, 3)'),
    ('MediaQuery', '@media', 'behind the media type', 'tv %s'),
    ('MediaQuery', '@media', 'in the expression', 'tv and (min-width: %s 1px)'),
    ('MediaList', '@media', 'behind the comma', 'tv, %s tty'),
    ('CSSVariablesDeclaration', '@variables', 'behind the value', 'a: b %s'),
    ('CSSFontFaceRule.cssText', '@font-face', 'prelude', '@font-face %s { font-family: x }'),
    ('CSSVariablesRule.cssText', '@variables', 'prelude', '@variables %s { a: b }'),
    ('CSSMediaRule.cssText', '@media', 'behind the name', '@media tv "n" %s { a { top: 0 } }'),
    ('CSSStyleSheet.cssText', 'sheet', 'between rules', 'a { top: 0 } %s b { left: 0 }'),
]


def _dom_entry(entry, text):
    """the stand-alone DOM call of a sub-parser"""
    import cssutils.css as C
    import cssutils.stylesheets as S
    if entry == 'Selector':
        return C.Selector(text)
    if entry == 'SelectorList':
        return C.SelectorList(text)
    if entry == 'CSSStyleDeclaration':
        return C.CSSStyleDeclaration(text)
    if entry == 'Property.priority':
        return setattr(C.Property('top', '0'), 'priority', text)
    if entry == 'Property.cssText':
        return setattr(C.Property('left', '1px'), 'cssText', text)
    if entry == 'Property.name':
        return setattr(C.Property('left', '1px'), 'name', text)
    if entry == 'PropertyValue':
        return C.PropertyValue(text)
    if entry == 'MediaQuery':
        return S.MediaQuery(text)
    if entry == 'MediaList':
        return S.MediaList(text)
    if entry == 'CSSVariablesDeclaration':
        return C.CSSVariablesDeclaration(text)
    if entry == 'CSSFontFaceRule.cssText':
        return setattr(C.CSSFontFaceRule(), 'cssText', text)
    if entry == 'CSSVariablesRule.cssText':
        return setattr(C.CSSVariablesRule(), 'cssText', text)
    if entry == 'CSSMediaRule.cssText':
        return setattr(C.CSSMediaRule(), 'cssText', text)
    if entry == 'CSSStyleSheet.cssText':
        return setattr(C.CSSStyleSheet(), 'cssText', text)
    raise KeyError(entry)


def stray_token_calls(tier='quick'):
    """-> ordered {name: (entry, mode, text)}: every slot x every stray token x the modes of the entry point"""
    import collections
    out = collections.OrderedDict()
    kinds = QUICK_JUNK if tier == 'quick' else tuple(JUNK_TOKENS)
    for entry, construct, slot, tpl in SLOT_TEMPLATES:
        for mode in (('default parser', 'raising parser') if entry in ('sheet', 'style') else ('raising mode', 'log-only mode')):
            for k in kinds:
                out[f'stray {k} | {construct}, {slot} | {entry}, {mode}'] = (entry, mode, tpl % JUNK_TOKENS[k])
    return out


def stray_call(entry, mode, text):
    import cssutils
    if entry in ('sheet', 'style'):
        parser = cssutils.CSSParser(fetcher=_fetch_ok, raiseExceptions=(mode == 'raising parser') or None)
        return parser.parseString(text, href='http://example.com/s.css') if entry == 'sheet' else parser.parseStyle(text)
    if mode == 'log-only mode':
        return _in_log_mode(lambda: _dom_entry(entry, text))
    return _dom_entry(entry, text)


def stray_worker(job):
    """(name, (entry, mode, text)) in a fresh process: the call, the global-mode monitor around it, then the probe battery"""
    name, (entry, mode, text) = job
    _quiet()
    before = globals_view()
    try:
        stray_call(entry, mode, text)
        oc = 'returned'
    except SystemExit:
        oc = 'raised SystemExit'
    except Exception as e:
        oc = 'raised ' + type(e).__name__
    after = globals_view()
    return {'name': name, 'text': text, 'outcome': oc, 'monitor': view_diff(before, after), 'battery': battery(), 'pid': os.getpid()}


def make_env():
    d = tempfile.mkdtemp(prefix='c12-')
    with open(os.path.join(d, 'proxy.css'), 'w') as f:
        f.write('@import "b.css" print;\na { color: red }\n')
    with open(os.path.join(d, 'b.css'), 'w') as f:
        f.write('b { left: 0; background: url(img/x.png) }\n')
    with open(os.path.join(d, 'bad.css'), 'wb') as f:
        f.write(UNDECODABLE)
    return {'dir': d}


def drop_env(env):
    import shutil
    shutil.rmtree(env['dir'], ignore_errors=True)


# --------------------------------------------------------------------------------------------------------------------
# global-mode monitor


REGISTRY_ATTRS = ('_defaultProfiles', '_profileNames', '_usedMacros', '_knownNames', '_rawProfiles', '_profilesProperties')


def registry_view():
    """the state attributes of the profile registry object (vars(cssutils.profile)), not only what its public properties answer:
    default profiles as stored, profile names, names of the macros in force, known property names, per-profile property names"""
    import cssutils
    v = vars(cssutils.profile)
    out = {}
    for k in REGISTRY_ATTRS:
        x = v.get(k, '<absent>')
        if k == '_usedMacros' and isinstance(x, dict):
            x = sorted(x)
        elif k == '_rawProfiles' and isinstance(x, dict):
            x = {p: {'properties': sorted(d.get('properties', {})), 'macros': sorted(d.get('macros', {}))} for p, d in x.items()}
        elif k == '_profilesProperties' and isinstance(x, dict):
            x = {p: sorted(d) for p, d in x.items()}
        elif k == '_knownNames' and isinstance(x, list):
            x = list(x)
        out[k] = x
    # any other attribute that appears on the registry object is state, too
    out['other attributes'] = sorted(k for k in v if k not in REGISTRY_ATTRS and k not in ('_log',) and not k.startswith('_Profiles__'))
    return json.loads(json.dumps(out, default=repr))


def globals_view():
    import cssutils
    return {'registry': registry_view(), 'raiseExceptions': cssutils.log.raiseExceptions, 'prefs': json.loads(json.dumps(sorted(vars(cssutils.ser.prefs).items()), default=repr)),
            'ser': id(cssutils.ser), 'profiles': list(cssutils.profile.profiles), 'defaultProfiles': json.loads(json.dumps(cssutils.profile.defaultProfiles, default=repr))}


def view_diff(a, b):
    return [f'{k}: {a[k]!r} -> {b[k]!r}' for k in a if a[k] != b[k]]


AMBIENT = {
    'mode': {'raise': True, 'log': False},
    'prefs': ('defaults', 'minified', 'custom'),
    'profiles': ('default', 'css2'),
    'resolveVariables': (True, False),
}


def apply_ambient(amb):
    """the user's explicit settings, made before the calls under test"""
    import cssutils
    cssutils.log.raiseExceptions = AMBIENT['mode'][amb.get('mode', 'raise')]
    p = amb.get('prefs', 'defaults')
    if p == 'minified':
        cssutils.ser.prefs.useMinified()
    elif p == 'custom':
        cssutils.ser.prefs.indent = '\t'
        cssutils.ser.prefs.keepComments = False
        cssutils.ser.prefs.omitLastSemicolon = False
    if 'resolveVariables' in amb:
        cssutils.ser.prefs.resolveVariables = amb['resolveVariables']
    if amb.get('profiles', 'default') == 'css2':
        cssutils.profile.defaultProfiles = [cssutils.profile.CSS_LEVEL_2]


# --------------------------------------------------------------------------------------------------------------------
# workers (each task runs in a freshly forked process)


def _quiet():
    import warnings
    import cssutils
    warnings.simplefilter('ignore')
    cssutils.log.setLevel(logging.FATAL)
    _note_initial()
    return cssutils


def history_worker(job):
    """(sequence of pool names, env, ambient) -> outcomes of the calls, monitor findings, battery answers"""
    names, env, amb = job
    _quiet()
    apply_ambient(amb)
    pool = _pool()
    outcomes = []
    monitor = []
    for n in names:
        is_parse, fn = pool[n]
        before = globals_view()
        try:
            fn(env)
            oc = 'returned'
        except SystemExit:
            oc = 'raised SystemExit'
        except Exception as e:
            oc = 'raised ' + type(e).__name__
        after = globals_view()
        outcomes.append(oc)
        if is_parse:
            d = view_diff(before, after)
            if d:
                monitor.append({'call': n, 'outcome': oc, 'diff': d})
    return {'names': list(names), 'outcomes': outcomes, 'monitor': monitor, 'battery': battery(), 'pid': os.getpid()}


def stale_parser_worker(job):
    """a parser object created while the mode was A, used after the user switched to B: the call must leave B in place"""
    (made_in, used_in, raising_parser, text_kind), env = job
    cssutils = _quiet()
    cssutils.log.raiseExceptions = AMBIENT['mode'][made_in]
    parser = cssutils.CSSParser(raiseExceptions=raising_parser, fetcher=_fetch_ok)
    cssutils.log.raiseExceptions = AMBIENT['mode'][used_in]
    before = globals_view()
    text = {'ok': 'a { color: red }', 'malformed': 'a { color: ; }'}[text_kind]
    try:
        parser.parseString(text)
        oc = 'returned'
    except Exception as e:
        oc = 'raised ' + type(e).__name__
    after = globals_view()
    return {'outcome': oc, 'diff': view_diff(before, after)}


REUSE_TEXTS = REFERENCE_SHEETS + [MALFORMED_SHEET, '@media tv foo { a { top: 0 } }', '@import "x" print foo;', 'a { color: rgb(1, }', '']


def reuse_worker(job):
    """one parser object, the text list parsed ``rounds`` times over; returns the per-call results"""
    kind, rounds, shuffle_seed = job
    cssutils = _quiet()
    kw = {'default': {}, 'raising': {'raiseExceptions': True}, 'nocomments': {'parseComments': False}, 'novalidate': {'validate': False}}[kind]
    texts = list(REUSE_TEXTS)
    if shuffle_seed is not None:
        import random
        random.Random(shuffle_seed).shuffle(texts)
    parser = cssutils.CSSParser(fetcher=_fetch_ok, **kw)
    out = []
    for r in range(rounds):
        for t in texts:
            out.append([t, _try(lambda: parser.parseString(t, href='http://example.com/s.css').cssText), _try(lambda: parser.parseStyle(t).cssText)])
    return out


def fresh_parse_worker(job):
    kind, text = job
    cssutils = _quiet()
    kw = {'default': {}, 'raising': {'raiseExceptions': True}, 'nocomments': {'parseComments': False}, 'novalidate': {'validate': False}}[kind]
    a = _try(lambda: cssutils.CSSParser(fetcher=_fetch_ok, **kw).parseString(text, href='http://example.com/s.css').cssText)
    b = _try(lambda: cssutils.CSSParser(fetcher=_fetch_ok, **kw).parseStyle(text).cssText)
    return [text, a, b]


def _fresh_pool(ctx):
    """a pool whose every task runs in a process freshly forked from a server that has only imported cssutils"""
    import multiprocessing as mp
    try:
        mpctx = mp.get_context('forkserver')
        mpctx.set_forkserver_preload(['cssutils', 'cssutils.script', 'bounded.c12'])
    except ValueError:
        mpctx = mp.get_context('spawn')
    return mpctx.Pool(max(1, ctx.jobs), maxtasksperchild=1)


# --------------------------------------------------------------------------------------------------------------------
# recorded findings (sharp classes)

MODE_PROBES = ('global: raise mode', 'edit: selectorText', 'edit: style.cssText', 'edit: insertRule', 'edit: mediaText', 'edit: PropertyValue', 'edit: deleteRule')
# calls that end a stand-alone media query with a token the query grammar stops at: the token is kept for a caller that does not exist
SAVED_TOKEN_CALLS = ('MediaQuery: rejected text',)


def classify_monitor(call, outcome, diff, parse_mode=None):
    """global-mode monitor finding -> recorded finding id or None.
    class: the call left a parse entry point through an exception after the mode had been switched; only the mode differs"""
    only_mode = len(diff) == 1 and diff[0].startswith('raiseExceptions:')
    if only_mode and outcome.startswith('raised ') and outcome not in ('raised FileNotFoundError', 'raised SystemExit'):
        return 'C12-mode-not-restored-on-exception'
    return None


def classify_history(names, outcomes, deviations):
    """battery deviations after a history -> set of recorded finding ids that explain ALL of them, or None.
    deviations: list of (probe, reference answer, answer)"""
    has_mode_leak = any(oc.startswith('raised ') and oc not in ('raised FileNotFoundError', 'raised SystemExit') and n.startswith(('parse', 'csscombine'))
                        for n, oc in zip(names, outcomes))
    has_token_leak = any(n in SAVED_TOKEN_CALLS for n in names)
    ids = set()
    for probe, want, got in deviations:
        if has_mode_leak and probe in MODE_PROBES and ((probe == 'global: raise mode' and want is True and got is False)
                                                       or (probe.startswith('edit: ') and str(want).startswith('raised ') and got == 'accepted')):
            ids.add('C12-mode-not-restored-on-exception')
        elif has_token_leak and probe == 'PropertyValue(red)' and want == 'red' and got == 'foo red':
            ids.add('C12-saved-token-leak')
        else:
            return None
    return ids


def deviations(ref, got):
    return [(k, a, b) for (k, a), (_, b) in zip(ref, got) if a != b] + ([('battery length', len(ref), len(got))] if len(ref) != len(got) else [])


def explain_battery_diff(ref, got):
    return [f'{k}: {a!r} -> {b!r}' for k, a, b in deviations(ref, got)]


def _witness(worker, job):
    """run one job in a fresh process"""
    import multiprocessing as mp
    with mp.get_context('forkserver').Pool(1, maxtasksperchild=1) as p:
        return p.apply(worker, (job,))


# --------------------------------------------------------------------------------------------------------------------
# entry points

QUICK_POOL = ['parse: well-formed sheet', 'parse: malformed sheet', 'parse: descriptor values in an ordinary rule', 'parse: malformed style', 'parse: sheet ending in media query junk', 'parse: undecodable bytes, encoding given',
              'parse: fetcher raises', 'parse: fetcher returns undecodable', 'parseUrl: fetcher raises', 'parseFile: missing file', 'parseFile: undecodable file',
              'parse: raising parser, malformed sheet', 'parse: raising parser, media junk', 'parse: comments off, not validating', 'csscombine: minify=True resolveVariables=False', 'csscombine: minify=False resolveVariables=True',
              'csscombine: minify=False resolveVariables=False', 'csscombine: undecodable', 'MediaList.appendMedium: and + ident', 'MediaQuery: and + ident',
              'MediaList.mediaText: and + ident', 'log mode: MediaList.appendMedium: and + ident', 'log mode: MediaQuery: junk after type', 'MediaQuery: rejected text', 'MediaQuery: rejected expression', 'MediaList: junk after type', 'PropertyValue: rejected text',
              'Selector: rejected text', 'CSSMediaRule: rejected media', 'edit: rejected sheet text', 'serialise: minified then defaults', 'validate: registry queries']
TRIPLE_POOL = [n for n in QUICK_POOL if n not in ('parse: malformed style', 'parseFile: missing file', 'MediaQuery: rejected expression', 'parse: fetcher returns undecodable',
                                                   'csscombine: minify=False resolveVariables=True', 'log mode: MediaQuery: junk after type', 'parseUrl: fetcher raises', 'Selector: rejected text')]


def histories(ctx):  # noqa: C901
    """probe battery after every disturbance sequence == probe battery in a fresh process"""
    env = make_env()
    try:
        full = list(_pool())
        assert all(n in full for n in QUICK_POOL)
        if ctx.tier == 'quick':
            seqs = [()] + [(n,) for n in full] + list(itertools.product(QUICK_POOL, repeat=2))
            bound = f'every single call of the pool of {len(full)} disturbances and all sequences of 2 calls over {len(QUICK_POOL)} of them'
        else:
            seqs = [()] + [s for L in (1, 2) for s in itertools.product(full, repeat=L)] + list(itertools.product(TRIPLE_POOL, repeat=3))
            bound = f'all sequences of <= 2 calls over the pool of {len(full)} disturbances and all sequences of 3 calls over {len(TRIPLE_POOL)} of them'
        with _fresh_pool(ctx) as p:
            res = p.map(history_worker, [(s, env, {}) for s in seqs] + [((), env, {})], chunksize=1)
        if len({r['pid'] for r in res}) != len(res):
            ctx.undecided.append('C12 histories: sequences shared a process (isolation lost); results not trustworthy')
        ref = res[0]['battery']
        if res[-1]['battery'] != ref:
            ctx.violation('bounded: the probe battery is deterministic in a fresh process', '; '.join(explain_battery_diff(ref, res[-1]['battery'])[:3]), True, {'sequence': []})
        res = res[:-1]
        kinds = set()
        known_hits = set()
        for r in res:
            kinds.add(tuple(sorted(set(zip(r['names'], r['outcomes'])))))
            dev = deviations(ref, r['battery'])
            if dev:
                ids = classify_history(r['names'], r['outcomes'], dev)
                detail = f"after {r['names']!r} (outcomes {r['outcomes']!r}): " + '; '.join(f'{k}: {a!r} -> {b!r}' for k, a, b in dev[:4])
                if ids is None:
                    ctx.violation('bounded: probe battery after a call history equals the battery in a fresh process', detail, True, {'sequence': r['names']})
                else:
                    for kid in ids:
                        # one id per deviation class; every deviation of this history is explained by a recorded class
                        ctx.violation('bounded: probe battery after a call history equals the battery in a fresh process', detail, True, {'sequence': r['names']}, known_id=kid)
                        known_hits.add(kid)
            for m in r['monitor']:
                kid = classify_monitor(m['call'], m['outcome'], m['diff'])
                ctx.violation('bounded: a parse / serialise / csscombine call leaves error mode, serializer, preferences, profiles and the state attributes of the profile registry as they were',
                              f"in history {r['names']!r}: {m['call']} ({m['outcome']}): {'; '.join(m['diff'])}", True, {'sequence': r['names'], 'call': m['call']}, known_id=kid)
        # witnesses of the recorded findings
        w1 = _witness(history_worker, (('parse: undecodable bytes, encoding given',), env, {}))
        ctx.known_finding('C12-mode-not-restored-on-exception', bool(w1['monitor']))
        w2 = _witness(history_worker, (('MediaQuery: rejected text',), env, {}))
        ctx.known_finding('C12-saved-token-leak', any(k == 'PropertyValue(red)' and b != a for k, a, b in deviations(ref, w2['battery'])))
        ctx.bounded.append({'name': 'call histories', 'evaluations': len(res) * len(ref), 'distinct_nontrivial': len(kinds), 'exhaustive': False,
                            'rule': (f'{bound}; each sequence in its own freshly forked process; afterwards a battery of {len(ref)} probes (first: a new profile registered after the history and validated through validate / validateWithProfile / Property.valid; then global modes, stand-alone constructors, '
                                     f'{len(REFERENCE_SHEETS)} reference sheets and {len(REFERENCE_STYLES)} style texts parsed and serialised, validation, 6 DOM edits that must raise) is compared with the '
                                     'battery of a fresh process; distinct = sets of (call, outcome) pairs'),
                            'sequences': len(res), 'probes_per_sequence': len(ref),
                            'samples': [{'sequence': list(seqs[1]), 'deviations': 0}, {'sequence': list(seqs[len(seqs) // 2]), 'deviations': 0}],
                            'bound': bound})
    finally:
        drop_env(env)


def stray_group_worker(job):
    """(group name, [(name, (entry, mode, text)), ...]) in a fresh process: the calls one after the other (global-mode monitor around each), then the probe battery"""
    gname, members = job
    _quiet()
    outcomes, monitor = [], []
    for name, (entry, mode, text) in members:
        before = globals_view()
        try:
            stray_call(entry, mode, text)
            oc = 'returned'
        except SystemExit:
            oc = 'raised SystemExit'
        except Exception as e:
            oc = 'raised ' + type(e).__name__
        outcomes.append(oc)
        d = view_diff(before, globals_view())
        if d:
            monitor.append((name, oc, d))
    return {'group': gname, 'outcomes': outcomes, 'monitor': monitor, 'battery': battery(), 'pid': os.getpid()}


def stray_groups(calls):
    """the calls grouped twice, so that every call sits in two histories with different successors:
    by slot (all token kinds at one slot, one mode) and by token kind (all slots of one entry-point family, one mode)"""
    by_slot, by_kind = {}, {}
    for name, (entry, mode, text) in calls.items():
        kind, where, how = name.split(' | ')
        by_slot.setdefault(f'every stray token | {where} | {how}', []).append((name, (entry, mode, text)))
        family = entry if entry in ('sheet', 'style') else 'DOM'
        by_kind.setdefault(f'{kind} | every slot | {family}, {mode}', []).append((name, (entry, mode, text)))
    return list(by_slot.items()) + list(by_kind.items())


def stray_tokens(ctx):  # noqa: C901
    """probe battery after earlier calls whose text has a stray token at some slot of some construct == battery of a fresh process"""
    calls = stray_token_calls(ctx.tier)
    groups = stray_groups(calls)
    singles = list(calls.items()) if ctx.tier != 'quick' else []
    with _fresh_pool(ctx) as p:
        refs = p.map(history_worker_ref, [0, 1], chunksize=1)
        gres = p.map(stray_group_worker, groups, chunksize=1)
        ref = refs[0]
        # quick tier: a deviating group history is taken apart - each of its calls alone in a fresh process - to name the call(s) responsible
        suspects = {}
        if ctx.tier == 'quick':
            for (gname, members), r in zip(groups, gres):
                if deviations(ref, r['battery']) or r['monitor']:
                    suspects.update(dict(members))
        res = p.map(stray_worker, singles + list(suspects.items()), chunksize=1)
    if refs[1] != ref:
        ctx.violation('bounded: the probe battery is deterministic in a fresh process', '; '.join(explain_battery_diff(ref, refs[1])[:3]), True, {'sequence': []})
    if len({r['pid'] for r in gres}) != len(gres):
        ctx.undecided.append('C12 stray tokens: histories shared a process (isolation lost); results not trustworthy')
    kinds = set()
    outcomes = {}
    for (gname, members), r in zip(groups, gres):
        for (name, (entry, mode, text)), oc in zip(members, r['outcomes']):
            kinds.add((entry, mode, name.split(' | ')[1], oc))
            if gname.startswith('every stray token'):
                outcomes[oc] = outcomes.get(oc, 0) + 1
    culprits = set()
    for r in res:
        entry, mode, text = calls[r['name']]
        dev = deviations(ref, r['battery'])
        if dev:
            culprits.add(r['name'])
            ids = classify_history([r['name']], [r['outcome']], dev)
            detail = f"after {r['name']}: {entry} {text!r} ({mode}; {r['outcome']}): " + '; '.join(f'{k}: {a!r} -> {b!r}'[:300] for k, a, b in dev[:4])
            for kid in (ids or [None]):
                ctx.violation('bounded: probe battery after an earlier call with a stray token equals the battery in a fresh process', detail, True,
                              {'entry': entry, 'mode': mode, 'text': text}, known_id=kid)
        if r['monitor'] and entry in ('sheet', 'style'):
            culprits.add(r['name'])
            kid = classify_monitor(r['name'], r['outcome'], r['monitor'])
            ctx.violation('bounded: a parse / serialise / csscombine call leaves error mode, serializer, preferences, profiles and the state attributes of the profile registry as they were',
                          f"{entry} {text!r} ({mode}; {r['outcome']}): {'; '.join(r['monitor'])}", True, {'entry': entry, 'mode': mode, 'text': text}, known_id=kid)
    # a group history that deviates although none of its calls does so alone: the combination is the witness
    for (gname, members), r in zip(groups, gres):
        dev = deviations(ref, r['battery'])
        mon = [m for m in r['monitor'] if calls[m[0]][0] in ('sheet', 'style')]
        if (dev or mon) and not any(n in culprits for n, _ in members):
            seq = [{'entry': e, 'mode': m, 'text': t} for _, (e, m, t) in members]
            detail = (f"after the history {gname!r} ({len(members)} calls, outcomes {sorted(set(r['outcomes']))!r}), none of whose calls deviates alone: "
                      + '; '.join(f'{k}: {a!r} -> {b!r}'[:300] for k, a, b in dev[:4]) + ''.join(f'; monitor {n}: {d}' for n, _, d in mon[:2]))
            ctx.violation('bounded: probe battery after an earlier call with a stray token equals the battery in a fresh process', detail, True, {'sequence': seq})
    n_junk = len(QUICK_JUNK if ctx.tier == 'quick' else JUNK_TOKENS)
    entries = sorted({t[0] for t in SLOT_TEMPLATES})
    how = ('the calls are run as histories in freshly forked processes, grouped twice (all token kinds at one slot; one token kind at all slots of an entry-point family), so that every call sits in two histories with '
           'different successors; a deviating history is taken apart into single calls, each in a fresh process' if ctx.tier == 'quick' else
           'every call alone in a freshly forked process, and additionally as grouped histories (all token kinds at one slot; one token kind at all slots of an entry-point family)')
    ctx.bounded.append({'name': 'one stray token at every slot of every construct', 'evaluations': (len(gres) + len(res)) * len(ref), 'distinct_nontrivial': len(kinds), 'exhaustive': False,
                        'rule': (f'{len(SLOT_TEMPLATES)} slots (before / inside / behind every part of: sheet, selector, declaration block, declaration, value, priority, @font-face, @variables, @media with query and name, '
                                 f'@import, @namespace, @charset, @page with margin rules, unknown at-rule) x {n_junk} stray token kinds x 2 modes per entry point (parseString / parseStyle: default and raising parser; '
                                 f'{len(entries) - 2} stand-alone DOM constructors / setters of the sub-parsers: raising and log-only mode) = {len(calls)} earlier calls; {how}; afterwards the battery of '
                                 f'{len(ref)} probes is compared with the battery of a fresh process, and the global modes before / after each parse call; distinct = (entry point, mode, construct, outcome)'),
                        'calls': len(calls), 'histories': len(gres), 'single_call_processes': len(res), 'outcomes': outcomes,
                        'samples': [{'history': groups[0][0], 'first text': groups[0][1][0][1][2]}, {'history': groups[-1][0], 'first text': groups[-1][1][0][1][2]}],
                        'bound': (f'single stray token per text; {len(SLOT_TEMPLATES)} fixed slots; {n_junk} of {len(JUNK_TOKENS)} token kinds; '
                                  + ('grouped histories, single calls only for deviating histories' if ctx.tier == 'quick' else 'every call alone and in grouped histories'))})


def history_worker_ref(_):
    """the battery of a fresh process"""
    _quiet()
    return battery()


def modes(ctx):
    """global modes before == after every parse / csscombine call, returning or raising, under every ambient configuration"""
    env = make_env()
    try:
        pool = _pool()
        parse_calls = [n for n, (is_parse, _) in pool.items() if is_parse]
        ambients = [{'mode': m, 'prefs': p, 'profiles': q} for m in AMBIENT['mode'] for p in AMBIENT['prefs'] for q in AMBIENT['profiles']]
        jobs = [((n,), env, amb) for amb in ambients for n in parse_calls]
        # csscombine: minify x resolveVariables (pool) x the user's own prefs.resolveVariables x the rest of the grid
        combine_calls = [n for n in parse_calls if n.startswith('csscombine')]
        rv_ambients = [dict(amb, resolveVariables=rv) for amb in ambients for rv in AMBIENT['resolveVariables']]
        jobs += [((n,), env, amb) for amb in rv_ambients for n in combine_calls]
        all_ambients = ambients + rv_ambients
        refjobs = [((), env, amb) for amb in all_ambients]
        stale = [((a, b, rp, tk), env) for a in AMBIENT['mode'] for b in AMBIENT['mode'] for rp in (None, True) for tk in ('ok', 'malformed')]
        with _fresh_pool(ctx) as p:
            res = p.map(history_worker, jobs, chunksize=1)
            refs = p.map(history_worker, refjobs, chunksize=1)
            sres = p.map(stale_parser_worker, stale, chunksize=1)
        ref_of = {json.dumps(amb, sort_keys=True): r['battery'] for amb, r in zip(all_ambients, refs)}
        if len({r['pid'] for r in res}) != len(res):
            ctx.undecided.append('C12 modes: calls shared a process (isolation lost); results not trustworthy')
        kinds = set()
        for (names, _, amb), r in zip(jobs, res):
            kinds.add((names[0], r['outcomes'][0], amb['mode'], amb.get('resolveVariables')))
            dev = deviations(ref_of[json.dumps(amb, sort_keys=True)], r['battery'])
            if dev:
                ids = classify_history(r['names'], r['outcomes'], dev)
                detail = (f"after {names[0]} ({r['outcomes'][0]}) with the user's settings {amb!r}: " + '; '.join(f'{k}: {a!r} -> {b!r}'[:300] for k, a, b in dev[:4]))
                for kid in (ids or [None]):
                    ctx.violation('bounded: probe battery after a parse / csscombine call equals the battery of a fresh process with the same user settings', detail, True,
                                  {'call': names[0], 'ambient': amb}, known_id=kid)
            for m in r['monitor']:
                kid = classify_monitor(m['call'], m['outcome'], m['diff'])
                ctx.violation('bounded: a parse / serialise / csscombine call leaves error mode, serializer, preferences, profiles and the state attributes of the profile registry as they were',
                              f"{m['call']} ({m['outcome']}) with the user's settings {amb!r}: {'; '.join(m['diff'])}", True, {'call': m['call'], 'ambient': amb}, known_id=kid)
        stale_seen = False
        for (cfg, _), r in zip(stale, sres):
            made_in, used_in, raising_parser, text_kind = cfg
            if not r['diff']:
                continue
            kid = None
            only_mode = len(r['diff']) == 1 and r['diff'][0].startswith('raiseExceptions:')
            if only_mode and r['outcome'] == 'returned' and made_in != used_in:
                kid = 'C12-stale-global-mode-in-parser'
                stale_seen = True
            elif only_mode and r['outcome'].startswith('raised '):
                kid = 'C12-mode-not-restored-on-exception'
            ctx.violation('bounded: a parse call of a long-lived parser object leaves the error mode as it was when the call started',
                          f"CSSParser(raiseExceptions={raising_parser!r}) created while the mode was {made_in!r}, parseString({text_kind} text) called after the user chose {used_in!r} "
                          f"({r['outcome']}): {'; '.join(r['diff'])}", True, {'made_in': made_in, 'used_in': used_in, 'raising_parser': raising_parser, 'text': text_kind}, known_id=kid)
        ctx.known_finding('C12-stale-global-mode-in-parser', stale_seen)
        ctx.bounded.append({'name': 'global modes around parse calls', 'evaluations': len(jobs) + len(stale), 'distinct_nontrivial': len(kinds) + len(stale), 'exhaustive': False,
                            'rule': (f'{len(parse_calls)} parse / parseFile / parseUrl / parseStyle / csscombine calls (returning, UnicodeDecodeError, fetcher exception, missing file, DOM exception from a raising parser) '
                                     f'x {len(ambients)} ambient settings (raise/log mode x default/minified/custom preferences x default/CSS2 default profiles), the {len(combine_calls)} csscombine calls (minify x resolveVariables among them) '
                                     f'additionally x the user\'s prefs.resolveVariables in (True, False) ({len(jobs)} calls in all), each in a fresh process: the probe battery afterwards equals that of a fresh process with the same settings; raiseExceptions, '
                                     'vars(ser.prefs), id(ser), profile.profiles, defaultProfiles and the state attributes of vars(cssutils.profile) (_defaultProfiles, _profileNames, _usedMacros names, _knownNames, per-profile names) equal before and after; plus a parser object created under one mode and used under the other (16 combinations); '
                                     'distinct = (call, outcome, mode) triples'),
                            'samples': [{'call': parse_calls[0], 'ambient': ambients[0]}], 'bound': 'fixed call pool x ambient grid'})
    finally:
        drop_env(env)


def reuse(ctx):
    """a CSSParser object reused N times gives the results of a fresh parser every time"""
    rounds = 3 if ctx.tier == 'quick' else 6
    kinds_ = ('default', 'raising', 'nocomments', 'novalidate')
    seeds = [None, ctx.seed + 1, ctx.seed + 2] if ctx.tier == 'quick' else [None] + [ctx.seed + i for i in range(1, 8)]
    jobs = [(k, rounds, sd) for k in kinds_ for sd in seeds]
    fresh_jobs = [(k, t) for k in kinds_ for t in REUSE_TEXTS]
    with _fresh_pool(ctx) as p:
        res = p.map(reuse_worker, jobs, chunksize=1)
        fres = p.map(fresh_parse_worker, fresh_jobs, chunksize=1)
    fresh = {(k, r[0]): r for (k, _), r in zip(fresh_jobs, fres)}
    n = 0
    distinct = set()
    for (kind, _, sd), rows in zip(jobs, res):
        for i, row in enumerate(rows):
            n += 1
            want = fresh[(kind, row[0])]
            distinct.add((kind, row[0]))
            if row != want:
                which = 'parseString' if row[1] != want[1] else 'parseStyle'
                ctx.violation('bounded: a reused parser object gives the result of a fresh parser',
                              f'CSSParser kind {kind!r}, call #{i} (order seed {sd!r}) on {row[0]!r}: {which} gave {row[1 if which == "parseString" else 2]!r}, a fresh parser gives '
                              f'{want[1 if which == "parseString" else 2]!r}', True, {'kind': kind, 'text': row[0], 'call_index': i, 'order_seed': sd})
    ctx.bounded.append({'name': 'parser reuse', 'evaluations': n, 'distinct_nontrivial': len(distinct), 'exhaustive': False,
                        'rule': (f'4 parser configurations (default, raiseExceptions=True, parseComments=False, validate=False) x {len(seeds)} orders of {len(REUSE_TEXTS)} texts (reference sheets, malformed sheet, '
                                 f'media-query junk, unclosed function, empty) x {rounds} rounds on ONE parser object, parseString and parseStyle; every result (serialisation or exception text) equals that of a '
                                 'fresh parser in a fresh process; distinct = (configuration, text)'),
                        'samples': [{'kind': 'default', 'text': REUSE_TEXTS[1][:40]}], 'bound': f'{rounds} rounds, {len(seeds)} orders'})


def _explore(argv):
    import time

    class Ctx:
        jobs = 16
        tier = 'quick'
    env = make_env()
    try:
        pool = _pool()
        names = list(pool)
        k = int(argv[1]) if len(argv) > 1 else 1
        seqs = [()] + [s for L in range(1, k + 1) for s in itertools.product(names, repeat=L)]
        t0 = time.time()
        with _fresh_pool(Ctx) as p:
            res = p.map(history_worker, [(s, env, {}) for s in seqs], chunksize=1)
        print('wall', round(time.time() - t0, 1), 'sequences', len(seqs))
        ref = res[0]['battery']
        for r in res:
            d = explain_battery_diff(ref, r['battery'])
            if d or r['monitor']:
                print(r['names'], r['outcomes'])
                for m in r['monitor']:
                    print('    MONITOR', m['call'], m['outcome'], m['diff'])
                for x in d[:6]:
                    print('    BATTERY', x[:300])
        print('outcomes:', {n: r['outcomes'][0] for n, r in zip(names, res[1:len(names) + 1])})
    finally:
        drop_env(env)


if __name__ == '__main__':
    import sys
    _explore(sys.argv)
