"""C02 bounded stand-in: project(parse(render(a, s))) == a for all abstract sheets a and spellings s (bounded/gen.py);
parseComments=False removes exactly the comments; validate=False changes nothing in the DOM.

The oracle is the abstract tree the source text was rendered from (gen.canon) - independent of the parser.
"""
import dataclasses
import json
import logging
import multiprocessing
import os
import time

from bounded import gen

CL_RAISES = 'bounded: parsing a well-formed sheet returns a DOM (no exception)'
CL_SHAPE = 'bounded: the parsed DOM has the documented shape (projection through public accessors succeeds)'
CL_EQUAL = 'bounded: project(parse(render(a, s))) == a'
CL_NOCOMMENTS = 'bounded: parseComments=False removes exactly the comments'
CL_NOVALIDATE = 'bounded: validate=False changes nothing in the DOM'
CL_SPEC = 'bounded: selector specificity is the same in every spelling'


# ------------------------------------------------------------------------------------------------------------ evaluation of one input

def _quiet():
    import cssutils
    cssutils.log.setLevel(logging.FATAL)
    cssutils.ser.prefs.useDefaults()
    return cssutils


def _specs(dom):
    out = []

    def walk(rules):
        for r in rules:
            if r.type == r.STYLE_RULE:
                out.append(tuple(s.specificity for s in r.selectorList))
            elif r.type == r.MEDIA_RULE:
                walk(r.cssRules)
    walk(dom.cssRules)
    return tuple(out)


def evaluate(a, text, want=None, options=True, nocomments=True):
    """run the C02 contracts on one source text rendered from abstract sheet a.
    returns (failures, specificities) with failures = [(clause, detail)]"""
    cssutils = _quiet()
    want = want if want is not None else gen.canon(a)
    fails = []
    specs = None
    try:
        dom = cssutils.parseString(text)
    except Exception as e:  # a DOM exception or a crash: both are failures of "returns a DOM"
        return [(CL_RAISES, '%s: %s' % (type(e).__name__, str(e)[:200]))], None
    finally:
        cssutils.log.raiseExceptions = True
    try:
        got = gen.project(dom)
    except gen.ProjectionError as e:
        return [(CL_SHAPE, str(e)[:300])], None
    except (AttributeError, IndexError, TypeError, ValueError, KeyError) as e:
        # the DOM holds something that is not of the documented shape (e.g. a bare string where a (namespace, name) pair belongs):
        # the parsed DOM is not what the source denotes - a failure of the shape clause, not a crash of the checker
        return [(CL_SHAPE, 'DOM not of the documented shape: %s: %s' % (type(e).__name__, str(e)[:200]))], None
    if got != want:
        fails.append((CL_EQUAL, _diff(got, want)))
    else:
        specs = _specs(dom)
    if options:
        try:
            d2 = cssutils.parseString(text, validate=False)
            g2 = gen.project(d2)
            if g2 != got:
                fails.append((CL_NOVALIDATE, _diff(g2, got)))
            elif d2.cssText != dom.cssText:
                fails.append((CL_NOVALIDATE, 'serialisation differs: %r vs %r' % (d2.cssText[:200], dom.cssText[:200])))
        except Exception as e:
            fails.append((CL_NOVALIDATE, '%s: %s' % (type(e).__name__, str(e)[:200])))
    if nocomments and '/*' in text:
        if True:
            try:
                d3 = cssutils.CSSParser(parseComments=False).parseString(text)
                g3 = gen.project(d3)
                w3 = gen.strip_comments(want)
                if g3 != w3:
                    fails.append((CL_NOCOMMENTS, _diff(g3, w3)))
                elif '/*' in _strip_strings(d3.cssText.decode('utf-8')):
                    fails.append((CL_NOCOMMENTS, 'a comment survives in the serialisation: %r' % d3.cssText[:200]))
            except Exception as e:
                fails.append((CL_NOCOMMENTS, '%s: %s' % (type(e).__name__, str(e)[:200])))
    return fails, specs


def _strip_strings(text):
    import re
    return re.sub(r'''"(?:[^"\\]|\\.)*"|'(?:[^'\\]|\\.)*\'''', '""', text, flags=re.S)


_diff = gen.diff


# ------------------------------------------------------------------------------------------------------------------ known classes
# A failure is attributed to a recorded finding only if (i) the input is in the finding's class (predicate on abstract sheet + spelling) and
# (ii) the failure disappears when exactly that trigger is removed from the input (the neutralised input passes).  A different defect on an
# input of the class therefore still shows as a violation.

def _has(node, pred):
    if pred(node):
        return True
    if isinstance(node, tuple):
        return any(_has(x, pred) for x in node)
    return False


def _map(node, fn):
    r = fn(node)
    if r is not None:
        return r
    if isinstance(node, tuple):
        return tuple(_map(x, fn) for x in node)
    return node


def _is(tag, n=None):
    return lambda x: isinstance(x, tuple) and len(x) > 0 and x[0] == tag and (n is None or len(x) == n)


def _drop(sp, field, *parts):
    return dataclasses.replace(sp, **{field: tuple(p for p in getattr(sp, field) if p not in parts)})


def _esc_parts(sp, parts, kinds=None):
    return sp.escape is not None and (kinds is None or sp.escape in kinds) and any(p in sp.escape_parts for p in parts)


def _case_parts(sp, parts):
    return sp.case != 'lower' and any(p in sp.case_parts for p in parts)


def _comment_parts(sp, parts):
    return sp.comments != 'none' and any(p in sp.comment_parts for p in parts)


def _functional_pseudo(x):
    return isinstance(x, tuple) and len(x) > 0 and ((x[0] == 'pclass' and len(x) == 3 and x[2] is not None) or x[0] == 'not')


def _nested_atrule(a):
    return any(r[0] == 'media' and (any(x[0] in ('media', 'page', 'fontface') for x in r[2]) or _nested_atrule(r[2])) for r in a if isinstance(r, tuple) and r and r[0] == 'media')


_HEX = ('hex', 'hex6', 'hexcrlf')
_COLORFN = lambda x: isinstance(x, tuple) and len(x) == 3 and x[0] == 'function' and x[1] in ('rgb', 'rgba', 'hsl', 'hsla')  # noqa: E731
_FNSLASH = lambda x: isinstance(x, tuple) and len(x) == 3 and x[0] == 'function' and isinstance(x[2], tuple) and any(isinstance(i, tuple) and len(i) == 2 and i[0] == '/' for i in x[2])  # noqa: E731
_IMPORT_FEATURE_FIRST = lambda x: isinstance(x, tuple) and len(x) == 4 and x[0] == 'import' and len(x[2]) > 0 and x[2][0][1] is None  # noqa: E731


_NOT_FUNCTIONAL = lambda x: isinstance(x, tuple) and len(x) == 2 and x[0] == 'not' and isinstance(x[1], tuple) and x[1][0] == 'pclass' and x[1][2] is not None  # noqa: E731


def _calc_slash(c):
    return isinstance(c, tuple) and len(c) == 2 and c[0] == 'calc' and '/' in [o for o in c[1] if isinstance(o, str)]


def _is_value(x):
    return isinstance(x, tuple) and len(x) > 0 and all(isinstance(i, tuple) and len(i) == 2 and (i[0] is None or i[0] in (' ', ',', '/')) and isinstance(i[1], tuple) for i in x) and x[0][0] is None


def _VALUE_WITH_LATER_CALC_SLASH(x):
    """a top-level value (tuple of (sep, component)) in which a calc() with a '/' operator occurs - directly or nested in a function - in a component
    that is not the first one"""
    return _is_value(x) and len(x) > 1 and any(_has(c, _calc_slash) for _, c in x[1:])


def _fix_calc_slash(x):
    if _VALUE_WITH_LATER_CALC_SLASH(x):
        def fix(c):
            return ('calc', tuple('*' if o == '/' else o for o in c[1])) if _calc_slash(c) else None
        return tuple((sep, _map(c, fix) if k > 0 else c) for k, (sep, c) in enumerate(x))
    return None


def _fix_fnslash(x):
    if _FNSLASH(x):
        return ('function', x[1], tuple(((',' if sep == '/' else sep), _map(c, _fix_fnslash)) for sep, c in x[2]))
    return None


def _fix_import(x):
    if _IMPORT_FEATURE_FIRST(x):
        q = x[2][0]
        return ('import', x[1], ((q[0], 'screen', q[2]),) + tuple(m for m in x[2][1:] if m[1] != 'screen'), x[3])
    return None


# (id, clauses it may explain (None = any), applies(a, sp), neutralise(a, sp) -> (a, sp))
KNOWN = [
    ('C02-simple-escape-kept', None,
     lambda a, sp: _esc_parts(sp, ('ident', 'selname', 'media'), ('simple',)),
     lambda a, sp: (a, _drop(sp, 'escape_parts', 'ident', 'selname', 'media'))),
    ('C02-pagepseudo-spelling', None,
     lambda a, sp: (_case_parts(sp, ('pagepseudo',)) or _esc_parts(sp, ('pagepseudo',), ('simple',))) and _has(a, lambda x: _is('page', 4)(x) and x[1][1] is not None),
     lambda a, sp: (a, _drop(_drop(sp, 'case_parts', 'pagepseudo'), 'escape_parts', 'pagepseudo'))),
    ('C02-atkeyword-hex-escape', None,
     lambda a, sp: _esc_parts(sp, ('atkeyword-margin', 'atkeyword-unknown'), _HEX) and _has(a, lambda x: _is('margin', 3)(x) or _is('unknown', 3)(x)),
     lambda a, sp: (a, _drop(sp, 'escape_parts', 'atkeyword-margin', 'atkeyword-unknown'))),
    ('C02-nested-atkeyword-spelling', None,
     lambda a, sp: (_case_parts(sp, ('atkeyword-nested',)) or _esc_parts(sp, ('atkeyword-nested',))) and _nested_atrule(a),
     lambda a, sp: (a, _drop(_drop(sp, 'case_parts', 'atkeyword-nested'), 'escape_parts', 'atkeyword-nested'))),
    ('C02-not-spelling', None,
     lambda a, sp: (_case_parts(sp, ('not',)) or _esc_parts(sp, ('not',), ('simple',))) and _has(a, _is('not', 2)),
     lambda a, sp: (a, _drop(_drop(sp, 'case_parts', 'not'), 'escape_parts', 'not'))),
    ('C02-colorfn-spelling', None,
     lambda a, sp: (_case_parts(sp, ('colorfn',)) or _esc_parts(sp, ('colorfn',), ('simple',))) and _has(a, _COLORFN),
     lambda a, sp: (a, _drop(_drop(sp, 'case_parts', 'colorfn'), 'escape_parts', 'colorfn'))),
    ('C02-calc-name-kept', None,
     lambda a, sp: (_case_parts(sp, ('calc',)) or _esc_parts(sp, ('calc',), ('simple',))) and _has(a, _is('calc', 2)),
     lambda a, sp: (a, _drop(_drop(sp, 'case_parts', 'calc'), 'escape_parts', 'calc'))),
    ('C02-pseudo-arg-comment-crash', None,
     lambda a, sp: _comment_parts(sp, ('pseudo-arg',)) and _has(a, _functional_pseudo),
     lambda a, sp: (a, _drop(sp, 'comment_parts', 'pseudo-arg'))),
    ('C02-calc-comment', None,
     lambda a, sp: _comment_parts(sp, ('calc',)) and _has(a, _is('calc', 2)),
     lambda a, sp: (a, _drop(sp, 'comment_parts', 'calc'))),
    ('C02-calc-operator-space', None,
     lambda a, sp: sp.ws in ('alt0', 'alt1', 'mix', 'tab', 'lf', 'crlf', 'ff') and 'calc-operator' not in sp.ws_plain
     and _has(a, lambda x: _is('calc', 2)(x) and any(o in ('*', '/') for o in x[1] if isinstance(o, str))),
     lambda a, sp: (a, dataclasses.replace(sp, ws_plain=sp.ws_plain + ('calc-operator',)))),
    # the same defect reached another way: after a space-separated component the value parser itself removes the white space before a '/'
    # (prodparser._SorTokens), also inside the following calc( 1em / 2) -> 'calc( 1em/ 2)'
    ('C02-calc-operator-space', None,
     lambda a, sp: sp.ws != 'none' and _has(a, _VALUE_WITH_LATER_CALC_SLASH),
     lambda a, sp: (_map(a, _fix_calc_slash), sp)),
    ('C02-nocomments-double-space', (CL_NOCOMMENTS,),
     lambda a, sp: _comment_parts(sp, ('before-operator',)) and sp.ws != 'none',
     lambda a, sp: (a, _drop(sp, 'comment_parts', 'before-operator'))),
    ('C02-import-media-feature-first', None,
     lambda a, sp: _has(a, _IMPORT_FEATURE_FIRST),
     lambda a, sp: (_map(a, _fix_import), sp)),
    ('C02-not-functional-pseudo', None,
     lambda a, sp: _has(a, _NOT_FUNCTIONAL),
     lambda a, sp: (_map(a, lambda x: ('not', ('pclass', 'hover', None)) if _NOT_FUNCTIONAL(x) else None), sp)),
    ('C02-function-slash', None,
     lambda a, sp: _has(a, _FNSLASH),
     lambda a, sp: (_map(a, _fix_fnslash), sp)),
]


def attribute(a, sp, fails):
    """-> list of recorded-finding ids that explain ALL failures of this input, or None.
    All classes the input belongs to are neutralised together; the neutralised input must pass every clause.  Only the classes that are
    NEEDED are credited: a class whose trigger can stay in while the input still passes (the others being neutralised) is not."""
    clauses = {cl for cl, _ in fails}

    def neutralised(skip=None):
        a2, sp2 = a, sp
        ids = []
        for fid, only, applies, neutralise in KNOWN:
            if fid != skip and applies(a2, sp2):
                ids.append((fid, only))
                a2, sp2 = neutralise(a2, sp2)
        return a2, sp2, ids

    a2, sp2, ids = neutralised()
    if not ids or (a2, sp2) == (a, sp):
        return None
    if all(only is not None for _, only in ids):
        allowed = set()
        for _, only in ids:
            allowed.update(only)
        if not clauses <= allowed:
            return None
    f2, _ = evaluate(a2, gen.render(a2, sp2))
    if f2:
        return None
    if len(ids) == 1:
        return [ids[0][0]]
    needed = []
    for fid, _ in ids:
        a3, sp3, _ids = neutralised(skip=fid)
        f3, _ = evaluate(a3, gen.render(a3, sp3))
        if f3:
            needed.append(fid)
    return needed or [fid for fid, _ in ids]


# ------------------------------------------------------------------------------------------------------------------------ workers

# sheets that exist to combine two constructs get the core spellings; the unit sheets (one construct) get every restricted variation too
_PAIR_GROUPS = ('rules2', 'rules3', 'decl2', 'selectorlist', 'import-media')
_PAIR_LABELS = ('value/pair', 'value/pairx', 'value/triple', 'value/second', 'value/first', 'selector/combine', 'selector/compound', 'selector/typesel+simple', 'media/mq2')


def _level(label):
    if label.split('/')[0] in _PAIR_GROUPS or any(label.startswith(p) for p in _PAIR_LABELS):
        return 'core'
    return 'full'


def _chunk_worker(args):
    tier, seed, lo, hi, active = args
    sheets = gen.enumerate_sheets(tier, seed)
    res = {'n': 0, 'texts': 0, 'fails': [], 'kinds': set(), 'known': {}}
    for idx in range(lo, hi):
        label, a = sheets[idx]
        want = gen.canon(a)
        seen = set()
        ref_specs = None
        sps = _spellings_for(tier, seed, _level(label))
        for k, sp in enumerate(sps):
            pre = []
            if _combined(sp):
                # a combination of several spelling fields: the triggers of the recorded spelling-dependent findings are taken out first, so that
                # the rest of the combination is checked (the findings themselves are exercised by the single-field / single-part spellings)
                a_, sp, pre = _neutralise_spelling(a, sp, active)
            text = gen.render(a, sp)
            if text in seen:
                continue
            seen.add(text)
            options = sp in _VALIDATE_SPS
            fails, specs = evaluate(a, text, want, options=options, nocomments=True)
            res['n'] += 1 + (1 if options else 0) + (1 if '/*' in text else 0)
            res['kinds'].add((_kind(label), _spkind(sp)))
            if specs is not None:
                if ref_specs is None:
                    ref_specs = (specs, text)
                elif specs != ref_specs[0]:
                    fails = fails + [(CL_SPEC, '%r vs %r in %r' % (specs, ref_specs[0], ref_specs[1][:120]))]
            if fails:
                ids = attribute(a, sp, fails)
                res['n'] += 2
                if ids:
                    for fid in ids:
                        rec = res['known'].setdefault(fid, {'count': 0, 'witness': text, 'detail': fails[0][1]})
                        rec['count'] += 1
                        if len(text) < len(rec['witness']):
                            rec['witness'], rec['detail'] = text, fails[0][1]
                    continue
                for cl, detail in fails:
                    res['fails'].append({'clause': cl, 'detail': detail, 'label': label, 'sheet': gen.to_json(a), 'spelling': sp.describe(), 'text': text})
        res['texts'] += len(seen)
    res['kinds'] = sorted(res['kinds'])
    return res


_COMBINED = {}


def _combined(sp):
    if sp not in _COMBINED:
        _COMBINED[sp] = _combined0(sp)
    return _COMBINED[sp]


def _combined0(sp):
    d = sp.describe()
    d.pop('seed', None)
    d.pop('case_parts', None), d.pop('escape_parts', None), d.pop('comment_parts', None), d.pop('escape_pos', None), d.pop('ws_plain', None)
    return len(d) > 1 and not (len(d) == 2 and 'comments' in d and 'ws' in d)


def _neutralise_spelling(a, sp, active):
    """take the spelling triggers of the recorded findings that are still open (status known) out of a combined spelling"""
    ids = []
    for fid, only, applies, neutralise in KNOWN:
        if fid in active and applies(a, sp):
            a2, sp2 = neutralise(a, sp)
            if a2 is a or a2 == a:
                sp = sp2
                ids.append(fid)
    return a, sp, ids


def _kind(label):
    return label.split(':')[0]


def _spkind(sp):
    d = sp.describe()
    d.pop('seed', None)
    return ','.join('%s=%s' % (k, '+'.join(v) if isinstance(v, list) else v) for k, v in sorted(d.items())) or 'default'


_SP_CACHE = {}
# the validate=False clause does not depend on the spelling: checked in the default spelling and in one spelling per varied field
_VALIDATE_SPS = {gen.DEFAULT} | {dataclasses.replace(gen.DEFAULT, **kw) for kw in ({'case': 'upper'}, {'escape': 'hex'}, {'comments': 'all'}, {'ws': 'none'})}


def _spellings_for(tier, seed, level):
    key = (tier, seed, level)
    if key not in _SP_CACHE:
        if tier == 'thorough':
            import random
            quick = gen.spellings('quick', seed, level)
            allsp = gen.spellings('thorough', seed, 'core')
            rnd = random.Random(seed)
            qs = set(quick)
            rest = [s for s in allsp if s not in qs]
            extra = rnd.sample(rest, min(len(rest), 4 if level == 'core' else 30))
            _SP_CACHE[key] = quick + extra
        else:
            _SP_CACHE[key] = gen.spellings(tier, seed, level)
        # the case-insensitive parts that gen keeps out of the default case_parts (media query keywords only / not / and): each alone, upper and mixed
        # case, on every sheet (both levels: also lists of two queries, nested @media and @import media lists); texts without such a keyword are
        # duplicates of the default spelling and skipped
        _SP_CACHE[key] = _SP_CACHE[key] + [dataclasses.replace(gen.DEFAULT, case=c, case_parts=(part,)) for part in gen.CASE_PARTS_OPTIONAL for c in ('upper', 'mixed')]
    return _SP_CACHE[key]


def _run(ctx, name, rule):
    tier = ctx.tier
    sheets = gen.enumerate_sheets(tier, ctx.seed)
    n = len(sheets)
    jobs = max(1, ctx.jobs)
    step = max(1, min(25, n // (jobs * 6) or 1))
    active = tuple(sorted(ctx.known))
    tasks = [(tier, ctx.seed, lo, min(n, lo + step), active) for lo in range(0, n, step)]
    t0 = time.time()
    if jobs > 1:
        with multiprocessing.get_context('fork').Pool(jobs) as pool:
            results = pool.map(_chunk_worker, tasks, chunksize=1)
    else:
        results = [_chunk_worker(t) for t in tasks]
    evals = sum(r['n'] for r in results)
    texts = sum(r['texts'] for r in results)
    kinds = set()
    knownhits = {}
    for r in results:
        kinds.update(tuple(k) for k in r['kinds'])
        for fid, rec in r['known'].items():
            k = knownhits.setdefault(fid, {'count': 0, 'witness': rec['witness'], 'detail': rec['detail']})
            k['count'] += rec['count']
            if len(rec['witness']) < len(k['witness']):
                k['witness'], k['detail'] = rec['witness'], rec['detail']
        for f in r['fails']:
            ctx.violation(f['clause'], '%s | spelling %s | source %r | %s' % (f['label'], json.dumps(f['spelling']), f['text'][:300], f['detail']), True,
                          {'sheet': f['sheet'], 'spelling': f['spelling'], 'text': f['text']})
    for fid, rec in sorted(knownhits.items()):
        # routed through ctx.violation: an id that is not (or no longer) recorded as known shows up as a violation
        ctx.violation('bounded: recorded finding %s' % fid, 'witness %r: %s (%d inputs of the class in this run)' % (rec['witness'][:300], rec['detail'], rec['count']), True,
                      {'text': rec['witness']}, known_id=fid)
    nfull = len(_spellings_for(tier, ctx.seed, 'full'))
    ncore = len(_spellings_for(tier, ctx.seed, 'core'))
    ctx.bounded.append({'name': name, 'evaluations': evals, 'distinct_nontrivial': len(kinds),
                        'rule': rule + '; distinct = (construct-kind label of the sheet, spelling variation) pairs',
                        'samples': [{'sheet': gen.to_json(sheets[0][1]), 'text': gen.render(sheets[0][1])}, {'label': sheets[-1][0], 'text': gen.render(sheets[-1][1])[:400]}],
                        'bound': '%d abstract sheets (%s) x %d spellings for one-construct sheets / %d for two-construct sheets -> %d distinct source texts; each parsed with '
                                 'default options, with parseComments=False if it has comments, and (single-field spellings) with validate=False; the spellings include upper and '
                                 'mixed case of %s alone (queries with and without a media type, one to three features)'
                                 % (n, gen.ENUMERATION[tier], nfull, ncore, texts, ' / '.join(gen.CASE_PARTS_OPTIONAL)),
                        'exhaustive': False, 'wall_s': round(time.time() - t0, 1), 'known_class_inputs': {k: v['count'] for k, v in sorted(knownhits.items())}})


def roundtrip(ctx):
    """the main domain: all abstract sheets x the spellings of the tier"""
    _run(ctx, 'abstract sheets x spellings',
         'every abstract sheet of the generator (bounded/gen.py) rendered in every spelling of the tier; oracle = the abstract tree the text was rendered from')


# ---------------------------------------------------------------------------------------------------- witnesses of the recorded findings

def _S(**kw):
    return dataclasses.replace(gen.DEFAULT, **kw)


def _st(sel=None, items=None):
    return gen.Style([sel if sel is not None else gen.Sel(gen.C('a'))], items if items is not None else [gen.Decl('color', gen.V(('ident', 'red')))])


_px = lambda n: ('dimension', n, 'px')  # noqa: E731
_CALC = ('calc', (_px('1'), '+', _px('2')))
WITNESSES = [
    ('C02-simple-escape-kept', (_st(),), _S(escape='simple', escape_parts=('ident',))),
    ('C02-pagepseudo-spelling', (gen.Page((None, 'first'), [gen.Decl('color', gen.V(('ident', 'red')))]),), _S(case='upper', case_parts=('pagepseudo',))),
    ('C02-atkeyword-hex-escape', (gen.Unknown('@foo', [('ident', 'x'), ('char', ';')]),), _S(escape='hex', escape_parts=('atkeyword-unknown',))),
    ('C02-nested-atkeyword-spelling', (gen.Media(((None, 'screen', ()),), [gen.Media(((None, 'print', ()),), [_st()])]),), _S(case='upper', case_parts=('atkeyword-nested',))),
    ('C02-not-spelling', (_st(gen.Sel(gen.C('a', ('not', ('class', 'b'))))),), _S(case='upper', case_parts=('not',))),
    ('C02-colorfn-spelling', (_st(None, [gen.Decl('color', gen.V(('function', 'rgb', gen.V(('number', '1'), ',', ('number', '2'), ',', ('number', '3')))))]),),
     _S(case='upper', case_parts=('colorfn',))),
    ('C02-calc-name-kept', (_st(None, [gen.Decl('width', gen.V(_CALC))]),), _S(case='upper', case_parts=('calc',))),
    ('C02-pseudo-arg-comment-crash', (_st(gen.Sel(gen.C('a', ('pclass', 'lang', ('ident', 'en'))))),), _S(comments='all', comment_parts=('pseudo-arg',))),
    ('C02-calc-comment', (_st(None, [gen.Decl('width', gen.V(_CALC))]),), _S(comments='all', comment_parts=('calc',))),
    ('C02-nocomments-double-space', (_st(None, [gen.Decl('x', gen.V(('ident', 'a'), '/', ('number', '0')))]),), _S(comments='all', comment_parts=('before-operator',))),
    ('C02-import-media-feature-first', (gen.Import('a.css', ((None, None, (('min-width', _px('100')),)),)),), gen.DEFAULT),
    ('C02-not-functional-pseudo', (_st(gen.Sel(gen.C(None, ('not', ('pclass', 'nth-child', ('anb', 2, 1)))))),), gen.DEFAULT),
    ('C02-function-slash', (_st(None, [gen.Decl('x', gen.V(('function', 'f', gen.V(('ident', 'a'), '/', ('ident', 'b')))))]),), gen.DEFAULT),
    ('C02-calc-operator-space', (_st(None, [gen.Decl('width', gen.V(('calc', (_px('1'), '*', ('number', '2')))))]),), _S(ws='alt0')),
]


def witnesses(ctx):
    """one concrete minimal witness per recorded finding: KNOWN-FINDING is printed while it still fails; the neutralised witness must pass"""
    n = 0
    for fid, a, sp in WITNESSES:
        text = gen.render(a, sp)
        fails, _ = evaluate(a, text)
        n += 1
        ctx.known_finding(fid, bool(fails))
        if fails and not attribute(a, sp, fails):
            ctx.violation('bounded: the witness of a recorded finding fails only through that finding', '%s: %r -> %s' % (fid, text, fails[0][1]), True, {'text': text})
    ctx.bounded.append({'name': 'witnesses of recorded findings', 'evaluations': n, 'distinct_nontrivial': n, 'rule': 'one minimal witness per recorded finding of known/C02.json',
                        'samples': [{'id': WITNESSES[0][0], 'text': gen.render(WITNESSES[0][1], WITNESSES[0][2])}], 'bound': '%d witnesses' % n, 'exhaustive': True})
