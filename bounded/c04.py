"""C04 bounded stand-in: syntax errors are contained.

damage:      project(parse(damage(s, pos, g))) == project(parse(s)) apart from the damaged construct, for
             s  - well-formed sheets (hand-made hosts for the garbage-exhaustive domains, every sheet of bounded/gen.py for the sheet-exhaustive domain),
             pos - every declaration boundary (style rule at top level / in @media / in nested @media, @page, @page margin box, @font-face) and
                   every statement boundary (top level, inside @media),
             g  - balanced token sequences that do NOT form a valid construct:
                  * malformed declaration: <= 4 tokens, brackets balanced, ';' only inside brackets, not of the form IDENT ':' any+ (CSS 2.1 4.1.8 core
                    grammar of a declaration - everything else must be skipped to the next ';' "observing the rules for matching pairs", CSS 2.1 4.2)
                  * rule with an invalid selector: prelude of <= 4 tokens without ; { } that is not a selector group (Selectors 3 grammar over the token
                    kinds, tokens separated by white space) followed by a declaration block
                  * unknown at-rule: '@foo' + <= 3 tokens + ';' or a block;  misplaced at-rule: @import/@namespace/@charset behind other rules or inside @media,
                    a margin box outside @page (the DOM may keep an unknown or misplaced at-rule as ONE CSSUnknownRule at that place: cssutils' documented
                    way of "ignoring" it; anything else must be unchanged)
truncation:  for every prefix text[:k] (EVERY character offset, which includes every token boundary) of every generator sheet: every rule and declaration
             whose last token ends at or before k is present, unchanged and at its place in the DOM of the prefix, inside the same (re-closed) containers.

The oracle is the DOM of the undamaged text / the abstract tree the text was assembled from; the positions of all constructs are known because this
module assembles the text itself (from gen.render_selector / render_value / render_media / render_rule for the leaves).
"""
import dataclasses
import logging
import multiprocessing
import re as _re
import time

from bounded import gen

CL_CRASH = 'bounded: parsing a damaged or truncated sheet returns a DOM (no exception)'
CL_DECL = 'bounded: a malformed declaration changes nothing but itself (DOM of the damaged sheet == DOM of the undamaged sheet apart from that one item)'
CL_DECL_KEPT = 'bounded: a malformed declaration is skipped to its end (no part of it stays in the DOM as a property)'
CL_RULE = 'bounded: a rule with an invalid selector changes nothing but itself (DOM of the damaged sheet == DOM of the undamaged sheet apart from that one rule)'
CL_AT = 'bounded: an unknown or misplaced at-rule changes nothing but itself (DOM of the damaged sheet == DOM of the undamaged sheet apart from that one rule)'
CL_TRUNC = 'bounded: every rule and declaration complete before a truncation point is present, unchanged, in the DOM of the prefix'
CL_HOST = 'bounded: the undamaged host sheet parses to the abstract tree it was assembled from'

TIGHT = dataclasses.replace(gen.DEFAULT, ws='none')


# ------------------------------------------------------------------------------------------------------------------------ parsing

def _null_fetcher(url):
    return None


_CFG = {'log_enabled': True}


def _parse(text):
    """parseString with the log silenced and no access to the file system / network for @import targets; _CFG['log_enabled'] False runs with the
    library's error handler switched off (cssutils.log.enabled = False): what is parsed must not depend on whether problems are reported"""
    import cssutils
    cssutils.log.setLevel(logging.FATAL)
    cssutils.log.enabled = _CFG['log_enabled']
    try:
        return cssutils.CSSParser(fetcher=_null_fetcher).parseString(text)
    finally:
        cssutils.log.raiseExceptions = True
        cssutils.log.enabled = True


def _project(text):
    """-> (projection, None) or (None, 'ExcType: message')"""
    try:
        dom = _parse(text)
        return gen.project(dom, lenient=True), None
    except Exception as e:  # noqa: BLE001 - any exception out of the parser is the failure of CL_CRASH
        import traceback
        tb = traceback.extract_tb(e.__traceback__)
        where = ''
        for fr in reversed(tb):
            if '/cssutils/' in fr.filename:
                where = ' at %s:%d %s' % (fr.filename.split('/cssutils/')[-1], fr.lineno, fr.name)
                break
        return None, '%s: %s%s' % (type(e).__name__, str(e)[:160], where)


# ---------------------------------------------------------------------------------------------------------------------- assembler

class _Asm:
    """writes an abstract sheet and records where every construct starts and ends.
    node = {'kind', 'start', 'end', 'open' (offset just behind the '{' of a container, else None), 'children' (container: nodes in source order)}"""

    def __init__(self, tight=False, inject=None):
        self.buf = []
        self.n = 0
        self.w = '' if tight else ' '
        self.sp = TIGHT if tight else gen.DEFAULT
        self.inject = inject  # None | (path, index, text, semi)

    def put(self, s):
        self.buf.append(s)
        self.n += len(s)

    def _inj(self, path, i):
        j = self.inject
        return j is not None and j[0] == path and j[1] == i

    def rules(self, rules, path):
        nodes = []
        for i in range(len(rules) + 1):
            if self._inj(path, i):
                self.put(self.inject[2])
                self.put(self.w)
            if i < len(rules):
                nodes.append(self.rule(rules[i], path + (i,)))
                self.put(self.w)
        return nodes

    def rule(self, r, path):
        k = r[0]
        w = self.w
        node = {'kind': k, 'start': self.n, 'open': None, 'children': []}
        if k in ('charset', 'import', 'namespace', 'unknown', 'comment'):
            self.put(gen.render_rule(r, self.sp))
        elif k == 'style':
            self.put((',' + w).join(gen.render_selector(s, self.sp) for s in r[1]) + w + '{')
            node['open'] = self.n
            node['children'] = self.block(r[2], path)
            self.put('}')
        elif k == 'media':
            self.put('@media ' + gen.render_media(r[1], self.sp) + w + '{')
            node['open'] = self.n
            self.put(w)
            node['children'] = self.rules(r[2], path)
            self.put('}')
        elif k == 'page':
            name, pseudo = r[1]
            self.put('@page' + ((' ' + name) if name is not None else '') + ((('' if name is not None else w) + ':' + pseudo) if pseudo is not None else '') + w + '{')
            node['open'] = self.n
            node['children'] = self.block(tuple(r[2]) + tuple(r[3]), path)
            self.put('}')
        elif k == 'fontface':
            self.put('@font-face' + w + '{')
            node['open'] = self.n
            node['children'] = self.block(r[1], path)
            self.put('}')
        else:
            raise ValueError(k)
        node['end'] = self.n
        return node

    def block(self, children, path):
        """content of a declaration block (behind its '{', up to but without its '}')"""
        w = self.w
        seq = []
        for i in range(len(children) + 1):
            if self._inj(path, i):
                seq.append(('garbage', self.inject[2], self.inject[3]))
            if i < len(children):
                seq.append((children[i], path + (i,)))
        nodes = []
        for j, ch in enumerate(seq):
            self.put(w)
            more = j + 1 < len(seq)
            if ch[0] == 'garbage':
                self.inject_at = self.n
                self.put(ch[1])
                if more or ch[2]:
                    self.put(';')
                continue
            it, p = ch
            node = {'kind': it[0], 'start': self.n, 'open': None, 'children': []}
            if it[0] == 'comment':
                self.put('/*' + it[1] + '*/')
            elif it[0] == 'decl':
                self.put(it[1] + ':' + w + gen.render_value(it[2], self.sp) + ((w + '!important') if it[3] else ''))
                node['end'] = self.n
                if more:
                    self.put(';')
            elif it[0] == 'margin':
                self.put(it[1] + w + '{')
                node['open'] = self.n
                node['children'] = self.block(it[2], p)
                self.put('}')
            else:
                raise ValueError(it[0])
            node.setdefault('end', self.n)
            nodes.append(node)
        self.put(w)
        return nodes


def assemble(sheet, tight=False, inject=None):
    """-> (text, nodes of the top-level rules).  inject = (container path, child index, garbage text, write a ';' behind a garbage declaration that is last)"""
    a = _Asm(tight, inject)
    nodes = a.rules(sheet, ())
    return ''.join(a.buf), nodes


def assemble_at(sheet, tight=False, inject=None):
    """-> (text, offset of the injected garbage declaration in it)"""
    a = _Asm(tight, inject)
    a.rules(sheet, ())
    return ''.join(a.buf), getattr(a, 'inject_at', None)


def containers(sheet):
    """-> [(kind of container, path, number of children, context label)] for every rule list and declaration block of an abstract sheet.
    kind: 'rules' | 'decls'"""
    out = [('rules', (), len(sheet), 'top')]

    def walk(rules, path, ctxlabel):
        for i, r in enumerate(rules):
            p = path + (i,)
            k = r[0]
            if k == 'style':
                out.append(('decls', p, len(r[2]), ctxlabel + 'style'))
            elif k == 'fontface':
                out.append(('decls', p, len(r[1]), ctxlabel + 'fontface'))
            elif k == 'page':
                out.append(('decls', p, len(r[2]) + len(r[3]), ctxlabel + 'page'))
                for j, m in enumerate(r[3]):
                    out.append(('decls', p + (len(r[2]) + j,), len(m[2]), ctxlabel + 'page/margin'))
            elif k == 'media':
                out.append(('rules', p, len(r[2]), ctxlabel + 'media'))
                walk(r[2], p, ctxlabel + 'media/')
    walk(sheet, (), '')
    return out


# ------------------------------------------------------------------------------------------------------------------------ garbage
# token = (kind, text); a garbage sequence is written with one space between its tokens (so the token boundaries are exactly these)

DECL_ALPHABET = (
    ('ident', 'x'), ('function', 'f('), ('(', '('), (')', ')'), ('[', '['), (']', ']'), ('{', '{'), ('}', '}'), ('number', '1'), ('dimension', '1px'),
    ('percentage', '50%'), ('=', '='), (':', ':'), (',', ','), ('!', '!'), ('string', '";}"'), ('uri', 'url(u)'), ('hash', '#a'), ('$', '$'), ('*', '*'),
    ('.', '.'), ('>', '>'), ('+', '+'), ('~', '~'), ('|', '|'), ('/', '/'), ('atkeyword', '@foo'), ('cdo', '<!--'), ('cdc', '-->'), (';', ';'),
    ('urange', 'U+1-2'), ('&', '&'),
)
# the reduced alphabet for the longest sequences of the quick tier: one token per behaviour class of the recovery code (name, bracket kinds, function, number,
# the declaration punctuation, a string holding block punctuation, an at-keyword, a plain delimiter)
DECL_ALPHABET_SMALL = tuple(t for t in DECL_ALPHABET if t[0] in ('ident', 'function', '(', ')', '[', ']', '{', '}', 'number', ':', '!', 'string', 'atkeyword', ';', '$', ','))
# statement level: no ';', '{', '}' in a prelude (behind them the statement would be over); no CDO/CDC (ignored between statements by the grammar)
RULE_ALPHABET = tuple(t for t in DECL_ALPHABET if t[0] not in (';', '{', '}', 'cdo', 'cdc', 'atkeyword')) + (('class', '.c'), ('pclass', ':hover'))
RULE_ALPHABET_SMALL = tuple(t for t in RULE_ALPHABET if t[0] in ('ident', 'function', '(', ')', '[', ']', 'number', ':', 'string', '$', ',', '>', 'class', '.', '*', 'hash'))
_OPEN = {'(': ')', 'function': ')', '[': ']', '{': '}'}
_CLOSE = (')', ']', '}')


def sequences(alphabet, n):
    """all balanced token sequences of exactly n tokens: brackets nest properly ('f(' is closed by ')'), ';' occurs only inside brackets"""
    out = []

    def rec(prefix, stack):
        left = n - len(prefix)
        if left == 0:
            if not stack:
                out.append(tuple(prefix))
            return
        for tok in alphabet:
            k = tok[0]
            if k in _OPEN:
                if len(stack) + 1 > left - 1:
                    continue
                prefix.append(tok)
                stack.append(_OPEN[k])
                rec(prefix, stack)
                stack.pop()
                prefix.pop()
            elif k in _CLOSE:
                if not stack or stack[-1] != k:
                    continue
                prefix.append(tok)
                stack.pop()
                rec(prefix, stack)
                stack.append(k)
                prefix.pop()
            else:
                if len(stack) > left - 1 or (k == ';' and not stack):
                    continue
                prefix.append(tok)
                rec(prefix, stack)
                prefix.pop()
    rec([], [])
    return out


def text_of(seq):
    return ' '.join(t for _, t in seq)


def kinds_of(seq):
    return tuple(k for k, _ in seq)


def malformed_declaration(seq):
    """CSS 2.1 core grammar: declaration := IDENT S* ':' S* value, value := any+.  A sequence of another shape is not a declaration."""
    ks = kinds_of(seq)
    return not (len(ks) >= 3 and ks[0] == 'ident' and ks[1] == ':')


_COMPOUND = ('ident', '*', 'hash', 'class', 'pclass')


def valid_selector_group(seq):
    """Selectors 3 grammar over token kinds for a prelude whose tokens are separated by white space: group := sel (',' sel)*, sel := compound ((> + ~)? compound)*,
    compound := type | * | #id | .class | :pseudo | '[' IDENT ']' (white space between two compounds is the descendant combinator; every other token kind, and any
    other arrangement, is not a selector)"""
    ks = list(kinds_of(seq))
    # '[ x ]' -> one compound
    out = []
    i = 0
    while i < len(ks):
        if ks[i] == '[' and i + 2 < len(ks) and ks[i + 1] == 'ident' and ks[i + 2] == ']':
            out.append('C')
            i += 3
        elif ks[i] in _COMPOUND:
            if ks[i] == 'hash' and not seq[i][1][1:2].isalpha():
                return False
            out.append('C')
            i += 1
        elif ks[i] in ('>', '+', '~'):
            out.append('K')
            i += 1
        elif ks[i] == ',':
            out.append(',')
            i += 1
        else:
            return False
    import re
    return re.fullmatch(r'C(K?C)*(,C(K?C)*)*', ''.join(out)) is not None


_CACHE = {}


def decl_garbage(n, small=False):
    key = ('decl', n, small)
    if key not in _CACHE:
        _CACHE[key] = [s for s in sequences(DECL_ALPHABET_SMALL if small else DECL_ALPHABET, n) if malformed_declaration(s)]
    return _CACHE[key]


def rule_preludes(n, small=False):
    key = ('rule', n, small)
    if key not in _CACHE:
        if n == 0:
            _CACHE[key] = [()]
        else:
            _CACHE[key] = [s for s in sequences(RULE_ALPHABET_SMALL if small else RULE_ALPHABET, n) if not valid_selector_group(s)]
    return _CACHE[key]


def at_preludes(n, small=False):
    """token sequences behind '@foo' (n tokens): anything balanced without ; { }"""
    key = ('at', n, small)
    if key not in _CACHE:
        _CACHE[key] = [()] if n == 0 else sequences(RULE_ALPHABET_SMALL if small else RULE_ALPHABET, n)
    return _CACHE[key]


RULE_BODIES = ('{ }', '{ y : z }')
AT_ENDS = (';', '{ }', '{ y : z }', '{ b { y : z } }')

# hand-picked sequences outside the <= 4 token bound or with tokens glued together (written as they are)
DECL_EXTRAS = (
    'x(y)', 'foo(x) bar', 'x y z v w', '$ ! x : y', '1 ! important', '1 ! x : y ! important', '( ( ( x ) ) )', '[ ( { ; } ) ]', 'f( g( x ) ) y', '{ x : y ; v : w }', 'x { y : z }',
    '$ " ; } "', "$ '\"' x", '"a" : b', 'x "\\"" y', '@foo x', '@foo { y : z }', '@foo { } @foo', '@media print { b { y : z } }', '@import "m.css"', '@page { y : z }',
    '@font-face { y : z }', '@charset "utf-8"', '@namespace q "u"', '$ ( @top-left { y : z } )', '* x : y', ': y', '$ ( ; x : y ; )', 'x [ ; y : z ; ]', '$ ( { ; y : z ; } )', 'x = y', 'x : ', 'x', '-x- y', '\\x y', 'x\\: y z',
    # escaped structural characters inside names (the decoded token VALUE ends in a bracket, brace or semicolon although the token is no bracket)
    'x\\28  y', '$ x\\28  y', '#a\\28  b', '1x\\28  y', 'x\\( y', 'x\\7b  y', 'x\\5b  y', 'x\\29  y', 'x\\7d  y', 'x\\5d  y', 'x\\3b  y', '\\28  y', '$ \\{ x', 'x\\000028 y',
    'x : url( y', 'x: "y', 'x: \'y',
)
# the last three are unbalanced on purpose: they are only used where the recovery is defined - not at all (kept out of the domain)
DECL_EXTRAS = tuple(g for g in DECL_EXTRAS if g not in ('x : url( y', 'x: "y', "x: 'y"))
RULE_EXTRAS = (
    'x..c', 'x:', '::', 'x#', 'x.', 'a:not()', 'a:not(b c)', ':nth-child(x y)', 'x[y=]', 'x[=y]', 'x[y z]', 'x,,y', 'x>>y', '.1', '#1', 'x.1', '1x', 'x & y', 'x | y', 'x|', '|', 'x % y',
    'x ( y )', 'x f( y )', '"a" x', 'x "a"', 'url(u)', 'x ! y', 'x = y', 'x $ y', '[ ]', '[ 1 ]', '( )', 'x [ ( ) ]', '-', '+ x', 'x +', '> x', ', x', 'x ,', '*|', 'x y z v w 1',
    'x\\28  $', '$ x\\28  y', 'x\\7b  $', 'x\\5b  $', '$ #a\\28  b', 'x\\29  $', 'x\\( $', '$ x\\000028 y',
)


def rotation(n, i, r):
    """r of the n placements for item i, rotating so that over the items every placement is used evenly"""
    if r >= n:
        return list(range(n))
    return [((i * r) + j) % n for j in range(r)]


# ------------------------------------------------------------------------------------------------------------------ expectation

def _remove_one(p, path):
    """all (projection, removed child) obtained from the sheet projection p by deleting ONE child from the container at path (rule list of the sheet / of an
    @media rule, declaration block of a style, @page (declarations and margin boxes), @font-face rule or of a margin box)"""
    def drop(items):
        for i in range(len(items)):
            yield items[:i] + items[i + 1:], items[i]

    def in_rule(r, path):
        k = r[0]
        if not path:
            if k == 'style':
                for v, c in drop(r[2]):
                    yield ('style', r[1], v), c
            elif k == 'fontface':
                for v, c in drop(r[1]):
                    yield ('fontface', v), c
            elif k == 'margin':
                for v, c in drop(r[2]):
                    yield ('margin', r[1], v), c
            elif k == 'media':
                for v, c in drop(r[2]):
                    yield ('media', r[1], v), c
            elif k == 'page':
                for v, c in drop(r[2]):
                    yield ('page', r[1], v, r[3]), c
                for v, c in drop(r[3]):
                    yield ('page', r[1], r[2], v), c
            return
        i = path[0]
        if k == 'media' and i < len(r[2]):
            for v, c in in_rule(r[2][i], path[1:]):
                yield ('media', r[1], r[2][:i] + (v,) + r[2][i + 1:]), c
        elif k == 'page':
            # a margin box of the page (the index counts the declarations of the undamaged page too: try every box)
            for j, m in enumerate(r[3]):
                for v, c in in_rule(m, path[1:]):
                    yield ('page', r[1], r[2], r[3][:j] + (v,) + r[3][j + 1:]), c

    if not path:
        yield from drop(p)
        return
    i = path[0]
    if i < len(p):
        for v, c in in_rule(p[i], path[1:]):
            yield p[:i] + (v,) + p[i + 1:], c


def _strip_unknown_items(p, path):
    """the sheet projection p without the CSSUnknownRule children ('raw', 'CSSUnknownRule', text) of the declaration block at path"""
    def block(items):
        return tuple(i for i in items if not (i[0] == 'raw' and i[1] == 'CSSUnknownRule'))

    def in_rule(r, path):
        k = r[0]
        if not path:
            if k == 'style':
                return ('style', r[1], block(r[2]))
            if k == 'fontface':
                return ('fontface', block(r[1]))
            if k == 'margin':
                return ('margin', r[1], block(r[2]))
            if k == 'page':
                return ('page', r[1], block(r[2]), r[3])
            return r
        i = path[0]
        if k == 'media' and i < len(r[2]):
            return ('media', r[1], r[2][:i] + (in_rule(r[2][i], path[1:]),) + r[2][i + 1:])
        if k == 'page':
            return ('page', r[1], r[2], tuple(in_rule(m, path[1:]) for m in r[3]))
        return r

    if not path or path[0] >= len(p):
        return p
    i = path[0]
    return p[:i] + (in_rule(p[i], path[1:]),) + p[i + 1:]


KEPT = 'kept'


def check_damage(orig_p, text, mode, path):
    """-> None (DOM equal) | KEPT (equal apart from ONE additional child in the damaged container: the damaged construct itself, kept in some form) |
    (clause, detail).  mode: 'decl' | 'rule' | 'at'"""
    got, err = _project(text)
    if err:
        return (CL_CRASH, err)
    if got == orig_p:
        return None
    for g2, child in _remove_one(got, path):
        if g2 == orig_p:
            if mode == 'decl' and child[0] == 'decl':
                return (CL_DECL_KEPT, 'property %s stays in the DOM' % gen._short(child), got)
            return KEPT
    if mode == 'decl' and '@' in text:
        # a malformed declaration holding several at-keywords may stay as several CSSUnknownRule items: all of them are the damaged construct
        g3 = _strip_unknown_items(got, path)
        if g3 != got:
            if g3 == orig_p:
                return KEPT
            for g2, child in _remove_one(g3, path):
                if g2 == orig_p:
                    return (CL_DECL_KEPT, 'property %s stays in the DOM' % gen._short(child), got) if child[0] == 'decl' else KEPT
    clause = {'decl': CL_DECL, 'rule': CL_RULE, 'at': CL_AT}[mode]
    return (clause, gen.diff(got, orig_p), got)


def _as_if_without_later_imports(sheet, path, index, got, tight):
    """(for the class of one recorded finding) the damaged DOM is the DOM of the sheet WITHOUT the @import / @namespace rules behind the damaged place
    (apart from the damaged construct itself)"""
    if path or not any(r[0] in ('import', 'namespace') for r in sheet[index:]):
        return False
    sheet2 = sheet[:index] + tuple(r for r in sheet[index:] if r[0] not in ('import', 'namespace'))
    p2, err = _project(assemble(sheet2, tight)[0])
    if err:
        return False
    if got == p2:
        return 'dropped'
    return 'kept' if any(g2 == p2 for g2, _ in _remove_one(got, path)) else False


# ---------------------------------------------------------------------------------------------------------------- hosts (domain 1)

def _hosts():
    G = gen
    D = G.Decl('color', G.V(('ident', 'red')))
    E = G.Decl('top', G.V(('dimension', '1', 'px')))
    Fm = G.Decl('font-family', G.V(('ident', 'x')))
    Sr = G.Decl('src', G.V(('url', 'y')))
    a = lambda *items: G.Style([G.Sel(G.C('a'))], items or (D, E))  # noqa: E731
    b = G.Style([G.Sel(G.C('b'))], [E])
    c = G.Style([G.Sel(G.C('c'))], [D])
    scr = ((None, 'screen', ()),)
    prt = ((None, 'print', ()),)
    decl_hosts = [
        ('style', (a(), b), [(0,)]),
        ('style+comment', (a(D, G.Comment('k'), E),), [(0,)]),
        ('style!important', (a(G.Decl('color', G.V(('ident', 'red')), True), E),), [(0,)]),
        ('media/style', (G.Media(scr, [a(), b]), c), [(0, 0)]),
        ('media/media/style', (G.Media(scr, [G.Media(prt, [a()]), b]),), [(0, 0, 0)]),
        ('page', (G.Page((None, 'first'), [D, E]), b), [(0,)]),
        ('page+margin', (G.Page((None, None), [D], [G.Margin('@top-left', [D, E]), G.Margin('@bottom-center', [E])]), b), [(0,), (0, 1)]),
        ('fontface', (G.FontFace([Fm, Sr]), b), [(0,)]),
        ('media/page', (G.Media(scr, [G.Page((None, None), [D, E]), b]),), [(0, 0)]),
    ]
    rule_hosts = [
        ('top', (a(), b), [()]),
        ('media', (G.Media(scr, [a(), b]), c), [(), (0,)]),
        ('media/media', (G.Media(scr, [G.Media(prt, [a()]), b]),), [(0, 0), (0,)]),
        ('after-import', (G.Import('a.css'), a()), [()]),
        ('after-charset-namespace', (G.Charset('utf-8'), G.NS_P, G.Style([G.Sel(G.C(('p', 'a')))], [D])), [()]),
        ('page-fontface', (G.Page((None, None), [D]), G.FontFace([Fm]), b), [()]),
        ('unknown-comment', (G.Unknown('@bar', [('ident', 'x'), ('char', ';')]), G.Comment('k'), b), [()]),
    ]
    return decl_hosts, rule_hosts


def _placements(hosts, kind):
    """-> [(host label, sheet, path, index, semi)]; a garbage declaration in last place is written with and without ';'"""
    out = []
    for label, sheet, paths in hosts:
        cs = {p: (k, n) for k, p, n, _ in containers(sheet)}
        for p in paths:
            k, n = cs[p]
            assert k == kind, (label, p, k)
            for i in range(n + 1):
                if kind == 'rules' and not p and i == 0 and sheet and sheet[0][0] == 'charset':
                    continue  # nothing may precede @charset
                if kind == 'decls':
                    out.append((label, sheet, p, i, True))
                    if i == n:
                        out.append((label, sheet, p, i, False))
                else:
                    out.append((label, sheet, p, i, True))
    return out


_ORIG = {}


def _orig(sheet, tight=False):
    key = (sheet, tight)
    if key not in _ORIG:
        text, _ = assemble(sheet, tight)
        p, err = _project(text)
        _ORIG[key] = (text, p, err)
    return _ORIG[key]


def misplaced_atrules(sheet, path, index):
    """at-rules that are NOT allowed at this statement boundary (position-dependent), with the at-keyword"""
    out = []
    if path:
        out += ['@import "m.css";', '@import url(m.css) print;', '@charset "utf-8";', '@namespace q "u";', '@top-left { y : z }']
        return out
    # CSS 2.1 4.1.5 / css-namespaces: only NON-IGNORED statements ahead of @import / @namespace make them invalid; an unknown at-rule is ignored
    before = [r[0] for r in sheet[:index] if r[0] not in ('unknown', 'comment')]
    if any(k not in ('charset', 'import', 'comment') for k in before):
        out += ['@import "m.css";', '@import url(m.css) print;']
    if any(k not in ('charset', 'import', 'namespace', 'comment') for k in before):
        out += ['@namespace q "u";']
    if index > 0:
        out += ['@charset "utf-8";']
    out += ['@top-left { y : z }']
    return out


# ----------------------------------------------------------------------------------------------------------------------- workers
# Every worker returns {'n': evaluations, 'kinds': set of distinct keys, 'fails': [record]}; record = {'clause','detail','cls','inputs'}

def _fail(res, clause, detail, cls, inputs):
    res['fails'].append({'clause': clause, 'detail': detail, 'cls': cls, 'inputs': inputs})


_CTXL = {}


def context_of(sheet, path):
    """context label of the container at path: 'style', 'media/style', 'page', 'page/margin', 'fontface', 'top', 'media', 'media/media' ..."""
    if sheet not in _CTXL:
        if len(_CTXL) > 64:
            _CTXL.clear()
        _CTXL[sheet] = {p: c for _, p, _, c in containers(sheet)}
    return _CTXL[sheet][path]


def _try(res, placement, garbage, mode, cls, tight=False):
    label, sheet, path, index, semi = placement
    otext, op, oerr = _orig(sheet, tight)
    if oerr:
        return
    text, _ = assemble(sheet, tight, inject=(path, index, garbage, semi))
    r = check_damage(op, text, mode, path)
    res['n'] += 1
    if r == KEPT:
        res['kept'] = res.get('kept', 0) + 1
        k = (mode, garbage.split()[0] if garbage.split() else '')
        if len(res.setdefault('kept_samples', {})) < 40:
            res['kept_samples'].setdefault(k, text[:120])
    elif r:
        _fail(res, r[0], '%s | garbage %r at %s[%d] | damaged %r | %s' % (label, garbage, list(path), index, text[:300], r[1]), cls,
              {'mode': mode, 'host': label, 'context': context_of(sheet, path), 'margin_model': _margin_model(sheet, path, index, garbage, semi, tight, r) if mode == 'decl' and context_of(sheet, path).endswith('margin') else None, 'as_if_without_later_imports': r[0] != CL_CRASH and mode == 'rule' and _as_if_without_later_imports(sheet, path, index, r[2], tight), 'after': [r[0] for r in sheet[index:]] if not path else None, 'garbage': garbage, 'path': list(path), 'index': index, 'semi': semi, 'text': text, 'original': otext})


def _w_decl_garbage(args):
    """domain 1a: hosts x declaration boundaries x all malformed declarations of n tokens"""
    n, small, lo, hi, per = args
    seqs = decl_garbage(n, small)
    pl = _PLACEMENTS['decl']
    res = {'n': 0, 'kinds': set(), 'fails': []}
    for i in range(lo, hi):
        s = seqs[i]
        g = text_of(s)
        ks = kinds_of(s)
        for j in rotation(len(pl), i, per):
            _try(res, pl[j], g, 'decl', ('decl',) + ks)
            res['kinds'].add((pl[j][0], ks))
    return res


def _w_rule_garbage(args):
    """domain 1b: hosts x statement boundaries x all invalid preludes of n tokens x bodies"""
    n, small, lo, hi, per = args
    seqs = rule_preludes(n, small)
    pl = _PLACEMENTS['rule']
    res = {'n': 0, 'kinds': set(), 'fails': []}
    for i in range(lo, hi):
        s = seqs[i]
        ks = kinds_of(s)
        bodies = RULE_BODIES if (per >= len(pl) or n <= 2) else (RULE_BODIES[i % 2],)
        for body in bodies:
            g = (text_of(s) + ' ' + body).strip()
            for j in rotation(len(pl), i, per):
                _try(res, pl[j], g, 'rule', ('rule',) + ks)
                res['kinds'].add((pl[j][0], ks, body))
    return res


def _w_at_garbage(args):
    """domain 1c: hosts x statement boundaries x '@foo' + n tokens + every end"""
    n, small, lo, hi, per = args
    seqs = at_preludes(n, small)
    pl = _PLACEMENTS['rule']
    res = {'n': 0, 'kinds': set(), 'fails': []}
    for i in range(lo, hi):
        s = seqs[i]
        ks = kinds_of(s)
        ends = AT_ENDS if (per >= len(pl) or n <= 1) else (AT_ENDS[i % 4], AT_ENDS[(i + 1) % 4])
        for end in ends:
            g = ' '.join(x for x in ('@foo', text_of(s), end) if x)
            for j in rotation(len(pl), i, per):
                _try(res, pl[j], g, 'at', ('at',) + ks + (end,))
                res['kinds'].add((pl[j][0], ks, end))
    return res


def _w_extras(args):
    """domain 1d: hand-picked garbage (longer than the bound / glued tokens / misplaced at-rules) x all placements of the hosts, both spacings"""
    lo, hi = args[0], args[1]
    res = {'n': 0, 'kinds': set(), 'fails': []}
    cases = _extras_cases()
    _CFG['log_enabled'] = not (len(args) > 2 and args[2] == 'log-off')
    try:
        for i in range(lo, hi):
            mode, pl, g, tight = cases[i]
            _try(res, pl, g, mode, (mode + '-extra', g) + (() if _CFG['log_enabled'] else ('log-off',)), tight)
            res['kinds'].add((pl[0], mode, g, _CFG['log_enabled']))
    finally:
        _CFG['log_enabled'] = True
    return res


def _extras_cases():
    if 'extras' not in _CACHE:
        out = []
        for tight in (False, True):
            for pl in _PLACEMENTS['decl']:
                for g in DECL_EXTRAS:
                    out.append(('decl', pl, g, tight))
                    # an at-rule that ends with its block needs no ';' before the declaration that follows: the same placement with the next
                    # declaration glued to the '}' (the last place is already written both ways)
                    if g.startswith('@') and g.endswith('}') and pl[4]:
                        out.append(('decl', pl[:4] + (False,), g, tight))
            for pl in _PLACEMENTS['rule']:
                for g in RULE_EXTRAS:
                    for body in RULE_BODIES:
                        out.append(('rule', pl, g + ' ' + body, tight))
                for g in misplaced_atrules(pl[1], pl[2], pl[3]):
                    out.append(('at', pl, g, tight))
        _CACHE['extras'] = out
    return _CACHE['extras']


_PLACEMENTS = {}


def _init_placements():
    if not _PLACEMENTS:
        dh, rh = _hosts()
        _PLACEMENTS['decl'] = _placements(dh, 'decls')
        _PLACEMENTS['rule'] = _placements(rh, 'rules')


# representative garbage for the sheet-exhaustive domain: one malformed declaration per first-token kind, the nesting forms, and the extras
def _decl_reps():
    reps = []
    for k, t in DECL_ALPHABET:
        if k in _CLOSE or k == ';':
            continue
        if k in _OPEN:
            reps.append(t + ' x ' + _OPEN[k])
            reps.append(t + ' ; ' + _OPEN[k] + ' y')
        elif k == 'ident':
            reps += ['x', 'x y', 'x :', 'x ( y )', 'x { y : z }', 'x [ ; ]']
        else:
            reps.append(t + ' x')
    reps += ['$ ( ; ) y', '$ { } y', '1 f( x ) y', '$ ! x : y', '@foo { y : z }', '@media print { b { y : z } }']
    return reps


def _rule_reps():
    reps = []
    for g in ('1', '.', 'x .', '> x', 'x >', 'x ,', ', x', '( x )', '[ ]', 'x [ 1 ]', 'f( x )', '$ x', 'x = y', '";}"', 'url(u) x', '#1', 'x | y', ': x', '!', 'x..c', 'x:', 'a:not()', '', 'x ( y , [ z ] )'):
        reps.append(('rule', (g + ' ' + RULE_BODIES[len(reps) % 2]).strip()))
    for g in ('@foo ;', '@foo x ;', '@foo { }', '@foo x { y : z }', '@foo ( x ) [ y ] ;', '@foo x { b { y : z } }', '@foo ";}" ;', '@foo 1 , f( x ) { y : z ; { } }'):
        reps.append(('at', g))
    return reps


def _w_sheets(args):
    """domain 2: every generator sheet x every boundary x representative garbage (rotating: `per` representatives per boundary)"""
    tier, seed, lo, hi, per = args
    sheets = gen.enumerate_sheets(tier, seed)
    dreps = _decl_reps()
    rreps = _rule_reps()
    res = {'n': 0, 'kinds': set(), 'fails': [], 'skipped': 0}
    for idx in range(lo, hi):
        label, sheet = sheets[idx]
        otext, op, oerr = _orig(sheet)
        if oerr:
            res['skipped'] += 1
            continue
        lk = label.split(':')[0]
        c = 0
        for kind, path, n, ctxl in containers(sheet):
            for i in range(n + 1):
                c += 1
                if kind == 'decls':
                    for j in rotation(len(dreps), idx * 7 + c, per):
                        g = dreps[j]
                        for semi in ((True, False) if i == n else (True,)):
                            _try(res, (label, sheet, path, i, semi), g, 'decl', ('decl-rep', g))
                        res['kinds'].add((lk, ctxl, 'decl', g))
                else:
                    if not path and i == 0 and sheet and sheet[0][0] == 'charset':
                        continue
                    for j in rotation(len(rreps), idx * 7 + c, per):
                        mode, g = rreps[j]
                        _try(res, (label, sheet, path, i, True), g, mode, (mode + '-rep', g))
                        res['kinds'].add((lk, ctxl, mode, g))
                    mis = misplaced_atrules(sheet, path, i)
                    for j in rotation(len(mis), idx + c, 1 if per < len(rreps) else len(mis)):
                        _try(res, (label, sheet, path, i, True), mis[j], 'at', ('at-misplaced', mis[j]))
                        res['kinds'].add((lk, ctxl, 'at', mis[j]))
        _ORIG.clear()
    return res


# -------------------------------------------------------------------------------------------------------------------- truncation

_KIDS = {'style': lambda p: p[2], 'media': lambda p: p[2], 'page': lambda p: tuple(p[2]) + tuple(p[3]), 'fontface': lambda p: p[1], 'margin': lambda p: p[2]}
_HEAD = {'style': lambda p: p[1], 'media': lambda p: p[1], 'page': lambda p: p[1], 'fontface': lambda p: (), 'margin': lambda p: p[1]}


def check_prefix(nodes, got, want, k, where='sheet'):
    """the nodes complete at offset k are a prefix of got, equal to want; the first incomplete node, if its header is complete, is open in got with the
    same header and (recursively) the same complete children.  -> None or text"""
    for idx, n in enumerate(nodes):
        if n['end'] <= k:
            if idx >= len(got):
                return '%s[%d]: %s complete at offset %d but missing (DOM has %d item(s) here)' % (where, idx, n['kind'], n['end'], len(got))
            if got[idx] != want[idx]:
                return '%s[%d]: %s complete at offset %d but changed: %s' % (where, idx, n['kind'], n['end'], gen.diff(got[idx], want[idx], 'it'))
            continue
        if n['open'] is not None and n['open'] <= k:
            kind = 'margin' if n['kind'] == 'margin' else n['kind']
            if idx >= len(got) or not isinstance(got[idx], tuple) or got[idx][0] != want[idx][0]:
                return '%s[%d]: %s opened at offset %d but the DOM has %s here' % (where, idx, kind, n['open'], gen._short(got[idx]) if idx < len(got) else 'nothing')
            if _HEAD[kind](got[idx]) != _HEAD[kind](want[idx]):
                return '%s[%d]: %s opened at offset %d but its header changed: %s' % (where, idx, kind, n['open'], gen.diff(_HEAD[kind](got[idx]), _HEAD[kind](want[idx]), 'header'))
            return check_prefix(n['children'], _KIDS[kind](got[idx]), _KIDS[kind](want[idx]), k, '%s[%d]:%s' % (where, idx, kind))
        break
    return None


def _open_kind(nodes, k):
    for n in nodes:
        if n['end'] <= k:
            continue
        if n['start'] >= k:
            return 'between'
        if n['open'] is not None and n['open'] <= k:
            return n['kind'] + '/' + _open_kind(n['children'], k)
        return n['kind']
    return 'between'


_NAMECHAR = _re.compile(r'[-\w.%#]')
_QUICK = {}


def _quick_set(seed):
    if seed not in _QUICK:
        _QUICK[seed] = {sh for _, sh in gen.enumerate_sheets('quick', seed)}
    return _QUICK[seed]


def _w_trunc(args):
    """domain 3: every generator sheet x spacing x every character offset"""
    tier, seed, lo, hi, tights = args
    sheets = gen.enumerate_sheets(tier, seed)
    res = {'n': 0, 'kinds': set(), 'fails': [], 'skipped': 0, 'prefixes': 0}
    for idx in range(lo, hi):
        label, sheet = sheets[idx]
        want = gen.canon(sheet)
        lk = label.split(':')[0]
        core = tier == 'quick' or sheet in _quick_set(seed)
        for tight in tights:
            if tight and not core:
                continue   # the thorough-only sheets: one spacing
            text, nodes = assemble(sheet, tight)
            full, err = _project(text)
            if err or full != want:
                # the complete text does not parse to the tree it was written from: a C02 matter (recorded there); the positions are not trustworthy
                res['skipped'] += 1
                continue
            seen = set()
            for k in range(1, len(text)):
                if not core and _NAMECHAR.match(text[k - 1]) and _NAMECHAR.match(text[k]):
                    continue   # the thorough-only sheets are cut at token boundaries only (not inside a run of name characters)
                got, err = _project(text[:k])
                res['n'] += 1
                res['prefixes'] += 1
                ok = _open_kind(nodes, k)
                res['kinds'].add((lk, ok))
                msg = None
                clause = CL_TRUNC
                if err:
                    clause, msg = CL_CRASH, err
                else:
                    msg = check_prefix(nodes, got, want, k)
                if msg:
                    key = (clause, msg.split(' at offset')[0])
                    if key in seen:
                        continue   # the same construct lost at consecutive offsets: one record
                    seen.add(key)
                    _fail(res, clause, '%s | prefix %r of %r | %s' % (label, text[:k][-80:], text[:200], msg), ('trunc', ok), {'mode': 'trunc', 'text': text[:k], 'full': text, 'cut': k, 'label': label})
    return res


# ------------------------------------------------------------------------------------------------------------------ known classes
# (id, predicate on the failure record).  A failure is attributed to a recorded finding only if its input is in the finding's class; the class is a
# predicate on the INPUT (garbage shape / cut position), so a different failure of the same clause is still reported.  The two margin box classes are
# sharper: they go by what the unchanged MarginRule grammar does (margin_box_scan) and, for the at-keyword one, by the exact SYMPTOM (_margin_model:
# damaged DOM == undamaged DOM with the box's declarations re-read from the body without the at-rule chunks) - an at-rule WITH A BLOCK that is no longer
# consumed as one construct, or any other loss in a margin box, is a violation.

def _garbage_tokens(rec):
    """the garbage cut into (kind, text, depth before the token) - a light tokenizer of this module's own garbage texts"""
    import re
    g = rec['inputs'].get('garbage', '')
    out = []
    depth = 0
    for m in re.finditer(r'"(?:[^"\\]|\\.)*"|\'(?:[^\'\\]|\\.)*\'|url\([^)]*\)|/\*.*?\*/|@?[-\w\\]+\(?|\S', g):
        t = m.group(0)
        if t[0] in '"\'' or t.startswith('/*') or (t.startswith('url(') and t.endswith(')') and len(t) > 4):
            out.append(('atom', t, depth))
        elif t.endswith('(') or t in '([{':
            out.append(('open', t, depth))
            depth += 1
        elif t in ')]}':
            depth -= 1
            out.append(('close', t, depth))
        else:
            out.append(('atom', t, depth))
    return out


def _k_bracket_first(rec):
    """malformed declaration in which a token that opens a bracket - ( [ { or a FUNCTION token (name glued to '(') - stands first, or first behind a '!' that is
    outside all brackets (cssutils ends its skip at such a '!' and starts over)"""
    if rec['inputs'].get('mode') != 'decl':
        return False
    toks = _garbage_tokens(rec)
    for i, (k, t, d) in enumerate(toks):
        if k == 'open' and d == 0 and (i == 0 or (toks[i - 1][1] == '!' and toks[i - 1][2] == 0)):
            return True
    return False


def _in_margin(rec):
    return rec['inputs'].get('mode') == 'decl' and rec['inputs'].get('context', '').endswith('margin')


MARGIN_NAMES = ('@top-left-corner', '@top-left', '@top-center', '@top-right', '@top-right-corner', '@bottom-left-corner', '@bottom-left', '@bottom-center', '@bottom-right',
                '@bottom-right-corner', '@left-top', '@left-middle', '@left-bottom', '@right-top', '@right-middle', '@right-bottom')


_TOK = _re.compile(r'"(?:[^"\\]|\\.)*"|\'(?:[^\'\\]|\\.)*\'|url\([^)]*\)|/\*.*?\*/|@?(?:[-\w]|\\.)+\(?|\S', _re.S)


_OWN_TOKEN_ATKEYWORDS = ('@import', '@page', '@media', '@font-face', '@namespace', '@charset')   # tokens of their own type (IMPORT_SYM ...), not ATKEYWORD


def margin_box_scan(text, start):
    """what the UNCHANGED MarginRule grammar does with the body of a margin box from offset start (a declaration boundary) on - the model behind the two
    recorded margin box findings, written from their description, not from the code: (i) an ATKEYWORD token ANYWHERE (every at-keyword but the six that
    are tokens of their own) starts an 'unknown at-rule' that runs through the next ';' or '}' token whatever the nesting (C04-margin-box-atkeyword);
    (ii) the first '}' outside such a chunk ends the box (C04-margin-box-nested-block).
    -> {'chunks': [(start, end)] the at-rule chunks, 'unterminated': a chunk ends with the '}' that really closes the box (brace counting),
        'early_end': the box ends, by (ii), before the '}' that really closes it, 'end': offset of the '}' at which the scan stopped}"""
    chunks = []
    depth = 0
    in_chunk = None
    for m in _TOK.finditer(text, start):
        t = m.group(0)
        closes_box = t == '}' and depth == 0
        if t == '{':
            depth += 1
        elif t == '}':
            depth -= 1
        if in_chunk is not None:
            if t in (';', '}'):
                chunks.append((in_chunk, m.end()))
                in_chunk = None
                if closes_box:
                    return {'chunks': chunks, 'unterminated': True, 'early_end': False, 'end': m.start()}
            continue
        if t.startswith('@') and t.lower() not in _OWN_TOKEN_ATKEYWORDS:
            in_chunk = m.start()
        elif t == '}':
            return {'chunks': chunks, 'unterminated': False, 'early_end': not closes_box, 'end': m.start()}
    return {'chunks': chunks, 'unterminated': in_chunk is not None, 'early_end': False, 'end': len(text)}


def _replace_margin_items(p, sheet, path, items):
    """the sheet projection p with the declaration block of the margin box at path (container path of the abstract sheet) replaced by items"""
    def in_rule(r, a, path):
        if a[0] == 'media':
            i = path[0]
            return ('media', r[1], r[2][:i] + (in_rule(r[2][i], a[2][i], path[1:]),) + r[2][i + 1:])
        if a[0] == 'page' and len(path) == 1:
            j = path[0] - len(a[2])
            return ('page', r[1], r[2], r[3][:j] + (('margin', r[3][j][1], items),) + r[3][j + 1:])
        raise ValueError(a[0])
    i = path[0]
    return p[:i] + (in_rule(p[i], sheet[i], path[1:]),) + p[i + 1:]


def _margin_model(sheet, path, index, garbage, semi, tight, r):
    """for a failure of a malformed declaration inside a margin box: the scan above plus 'at_asif' - the damaged DOM is EXACTLY the undamaged DOM with the
    declarations of that margin box replaced by what a declaration block makes of the body of the box with the at-rule chunks cut out (the symptom of
    C04-margin-box-atkeyword: what is left of the declaration merges with what follows the chunk)"""
    text, at = assemble_at(sheet, tight, inject=(path, index, garbage, semi))
    if at is None:
        return None
    sc = margin_box_scan(text, at)
    out = {'unterminated': sc['unterminated'], 'early_end': sc['early_end'], 'chunks': len(sc['chunks']), 'at_asif': False}
    if sc['chunks'] and not sc['unterminated'] and not sc['early_end'] and r[0] != CL_CRASH and len(r) > 2:
        body = text[text.rfind('{', 0, at) + 1:sc['end']]
        off = text.rfind('{', 0, at) + 1
        for a, b in reversed(sc['chunks']):
            body = body[:a - off] + ' ' + body[b - off:]
        out['asif_body'] = body
        try:
            import cssutils
            cssutils.log.setLevel(logging.FATAL)
            cssutils.log.raiseExceptions = False   # as inside parseString
            try:
                with gen.lenient():
                    items = gen.project_style(cssutils.css.CSSStyleDeclaration(cssText=body))
            finally:
                cssutils.log.raiseExceptions = True
            out['at_asif'] = _replace_margin_items(_orig(sheet, tight)[1], sheet, path, tuple(items)) == r[2]
        except Exception as e:  # noqa: BLE001 - no as-if DOM: the failure is not attributed
            out['asif_error'] = '%s: %s' % (type(e).__name__, str(e)[:100])
    return out


def _k_margin_at(rec):
    """malformed declaration inside a @page margin box that holds an at-keyword, where EITHER the damaged DOM is exactly the DOM of the damaged text with
    every chunk 'at-keyword ... next ; or }' cut out (symptom: the rest of the declaration merges with what follows; an unknown at-rule that is complete,
    '@foo x;' or '@foo { x }', is contained and is not in the class) OR such a chunk runs into the '}' that closes the margin box (at-keyword without a
    ';' in last place: the box loses its end); or a prefix that ends in an at-keyword which is not the name of a margin box, behind a complete margin box
    of a @page rule"""
    if rec['inputs'].get('mode') == 'trunc':
        import re
        m = re.search(r'@page[^{}]*\{.*\}\s*(@[-\w]*)$', rec['inputs']['text'], re.S)
        return bool(m) and m.group(1).lower() not in MARGIN_NAMES and rec['inputs']['full'][len(rec['inputs']['text']):].split('{')[0].strip(' -abcdefghijklmnopqrstuvwxyz') == ''
    mm = rec['inputs'].get('margin_model')
    return _in_margin(rec) and bool(mm) and mm['chunks'] > 0 and (mm['at_asif'] or mm['unterminated'])


def _k_margin_brace(rec):
    """malformed declaration inside a @page margin box with a '}' in it that is NOT the end of an 'at-keyword ... ; or }' chunk (a {} block in the
    declaration; the second '}' of an at-rule with a nested block): the margin box ends there, before its own '}'"""
    mm = rec['inputs'].get('margin_model')
    return _in_margin(rec) and bool(mm) and mm['early_end']


def _k_function_first_statement(rec):
    """statement (rule with an invalid selector) whose first token is a FUNCTION token (name glued to '(')"""
    if rec['inputs'].get('mode') != 'rule':
        return False
    toks = _garbage_tokens(rec)
    return bool(toks) and toks[0][0] == 'open' and toks[0][1].endswith('(') and len(toks[0][1]) > 1


def _k_before_import(rec):
    """rule with an invalid selector at the top level ahead of an @import or @namespace rule; the rule is dropped and the damaged DOM is the DOM the
    sheet has without these @import / @namespace rules"""
    return rec['inputs'].get('mode') == 'rule' and rec['inputs'].get('as_if_without_later_imports') in (True, 'dropped')


def _k_lenient_selector_before_import(rec):
    """as above, but cssutils accepts the invalid selector ('| x', '#1', 'x | y', ':nth-child(x y)'), KEEPS the rule as a style rule, and the kept rule
    then ends the @import / @namespace section: the damaged DOM is the undamaged one plus that rule minus the later @import / @namespace rules"""
    return rec['inputs'].get('mode') == 'rule' and rec['inputs'].get('as_if_without_later_imports') == 'kept'


def _k_page_margin_keyword_nested(rec):
    """malformed declaration in the block of a @page rule (not in a margin box) that holds the name of a margin box inside brackets"""
    if rec['inputs'].get('mode') != 'decl' or not rec['inputs'].get('context', '').endswith('page'):
        return False
    return any(k == 'atom' and t.lower() in MARGIN_NAMES and d > 0 for k, t, d in _garbage_tokens(rec))


def _k_namespace_same_uri(rec):
    """prefix of a sheet that ends inside an @namespace rule whose URI (as closed at the cut) is the URI of an earlier, complete @namespace rule"""
    if rec['inputs'].get('mode') != 'trunc':
        return False
    import re
    text = rec['inputs']['text']
    done = re.findall(r'@namespace\s*(?:[-\w]+\s*)?(?:"([^"]*)"|url\(\s*"?([^")]*)"?\s*\))\s*;', text)
    uris = {a or b for a, b in done}
    m = re.search(r'@namespace\s*(?:[-\w]+\s*)?(?:"([^"]*)"?|url\(\s*"?([^")]*)"?\s*\)?)\s*$', text[text.rfind(';') + 1:] if ';' in text else text)
    return bool(m) and bool(uris) and ((m.group(1) if m.group(1) is not None else (m.group(2) or '')) in uris)


def _k_exclamation(rec):
    """malformed declaration that does not start with an identifier and holds a '!' outside all brackets, of which a property stays in the DOM"""
    if rec['inputs'].get('mode') != 'decl' or rec['clause'] != CL_DECL_KEPT:
        return False
    toks = _garbage_tokens(rec)
    import re
    return bool(toks) and not re.match(r'^-?[_a-zA-Z\\]', toks[0][1]) and any(t == '!' and d == 0 for k, t, d in toks[1:])


KNOWN = [
    ('C04-skip-ends-at-exclamation', _k_exclamation),
    ('C04-page-margin-keyword-nested', _k_page_margin_keyword_nested),
    ('C04-namespace-same-uri-merged', _k_namespace_same_uri),
    ('C04-function-first-statement', _k_function_first_statement),
    ('C04-invalid-statement-before-import', _k_before_import),
    ('C04-lenient-selector-before-import', _k_lenient_selector_before_import),
    ('C04-margin-box-atkeyword', _k_margin_at),
    ('C04-margin-box-nested-block', _k_margin_brace),
    ('C04-bracket-first-declaration', _k_bracket_first),
]


def classify(rec):
    for fid, pred in KNOWN:
        try:
            if pred(rec):
                return fid
        except Exception:  # noqa: BLE001
            continue
    return None


# ---------------------------------------------------------------------------------------------------------------------- drivers

def _pool_run(ctx, worker, tasks):
    jobs = max(1, ctx.jobs)
    if jobs > 1 and len(tasks) > 1:
        with multiprocessing.get_context('fork').Pool(jobs) as pool:
            return pool.map(worker, tasks, chunksize=1)
    return [worker(t) for t in tasks]


def _chunks(n, ctx, extra, target=48):
    step = max(1, -(-n // (max(1, ctx.jobs) * 4)))
    step = min(step, max(1, n // target) or 1) if n > target else step
    return [(lo, min(n, lo + step)) + tuple(extra) for lo in range(0, n, step)]


def _report(ctx, results, name, rule, bound, samples, t0, exhaustive=False, extra=None):
    evals = sum(r['n'] for r in results)
    kinds = set()
    hits = {}
    shown = {}
    for r in results:
        kinds.update(r['kinds'])
        for f in r['fails']:
            fid = classify(f)
            if fid:
                h = hits.setdefault(fid, {'count': 0, 'rec': f})
                h['count'] += 1
                if len(f['inputs'].get('text', '')) < len(h['rec']['inputs'].get('text', '')):
                    h['rec'] = f
                continue
            key = (f['clause'], f['cls'])
            s = shown.setdefault(key, {'count': 0, 'rec': f})
            s['count'] += 1
            if len(f['inputs'].get('text', '')) < len(s['rec']['inputs'].get('text', '')):
                s['rec'] = f
    # one violation per (clause, garbage class), shortest input first; at most 60 are listed, the count of the rest is stated
    items = sorted(shown.items(), key=lambda kv: (len(kv[1]['rec']['inputs'].get('text', '')), str(kv[0])))
    for (clause, cls), s in items[:60]:
        ctx.violation(clause, '%s (%d input(s) of this shape fail)' % (s['rec']['detail'], s['count']), True, s['rec']['inputs'])
    if len(items) > 60:
        ctx.violation('bounded: further failing garbage shapes', '%d more shapes fail (%d inputs); first: %s' % (len(items) - 60, sum(s['count'] for _, s in items[60:]), items[60][1]['rec']['detail']), True,
                      items[60][1]['rec']['inputs'])
    for fid, h in sorted(hits.items()):
        ctx.violation('bounded: recorded finding %s' % fid, '%s (%d inputs of the class in this run)' % (h['rec']['detail'], h['count']), True, h['rec']['inputs'], known_id=fid)
    rec = {'name': name, 'evaluations': evals, 'distinct_nontrivial': len(kinds), 'rule': rule, 'samples': samples, 'bound': bound, 'exhaustive': exhaustive,
           'wall_s': round(time.time() - t0, 1), 'known_class_inputs': {k: v['count'] for k, v in sorted(hits.items())}}
    kept = sum(r.get('kept', 0) for r in results)
    if kept:
        ks = {}
        for r in results:
            for k, v in r.get('kept_samples', {}).items():
                ks.setdefault('%s:%s' % k, v)
        rec['damaged_construct_kept_in_dom'] = {'inputs': kept, 'note': 'the DOM differs from the undamaged one by exactly one additional child in the damaged container: cssutils keeps the '
                                                'damaged construct in some form (unknown at-rule as CSSUnknownRule, a prelude it accepts as selector, a name hack as property ...); not a failure of C04',
                                                'samples': dict(sorted(ks.items())[:25])}
    if extra:
        rec.update(extra)
    ctx.bounded.append(rec)


def hosts_parse(ctx):
    """the hand-made hosts parse to the trees they were assembled from (both spacings) - the precondition of the garbage-exhaustive domains"""
    _init_placements()
    dh, rh = _hosts()
    n = 0
    for label, sheet, _ in dh + rh:
        for tight in (False, True):
            text, _nodes = assemble(sheet, tight)
            p, err = _project(text)
            n += 1
            if err or p != gen.canon(sheet):
                ctx.violation(CL_HOST, '%s %r: %s' % (label, text, err or gen.diff(p, gen.canon(sheet))), True, {'text': text})
    ctx.bounded.append({'name': 'hosts', 'evaluations': n, 'distinct_nontrivial': n, 'rule': 'every host sheet of the garbage-exhaustive domains in both spacings', 'samples': [
        {'text': assemble(dh[0][1])[0]}, {'text': assemble(rh[1][1], True)[0]}], 'bound': '%d hosts x 2 spacings' % (len(dh) + len(rh)), 'exhaustive': True})


def damaged_declarations(ctx):
    """domain 1a"""
    _init_placements()
    t0 = time.time()
    npl = len(_PLACEMENTS['decl'])
    thorough = ctx.tier == 'thorough'
    plan = [(1, False, npl), (2, False, npl), (3, False, npl if thorough else 2), (4, not thorough, 1)]
    tasks = []
    sizes = []
    for n, small, per in plan:
        seqs = decl_garbage(n, small)
        sizes.append('%d sequences of %d token(s)%s x %s placements' % (len(seqs), n, ' (reduced alphabet of %d)' % len(DECL_ALPHABET_SMALL) if small else '', 'all %d' % npl if per >= npl else '%d of %d (rotating)' % (per, npl)))
        tasks += [(n, small, lo, hi, per) for lo, hi in _chunks(len(seqs), ctx, ())]
    results = _pool_run(ctx, _w_decl_garbage, tasks)
    _report(ctx, results, 'malformed declarations x declaration boundaries of the hosts',
            'balanced token sequences (alphabet of %d token kinds, one space between tokens) that are not IDENT : any+, written as one declaration at every declaration boundary of %d host placements '
            '(style rule at top level / in @media / in nested @media, with a comment, with !important, @page, @page with margin boxes, inside a margin box, @font-face, @page in @media; a garbage '
            'declaration in last place with and without its semicolon); distinct = (host, token-kind sequence)' % (len(DECL_ALPHABET), npl),
            '; '.join(sizes), [{'garbage': text_of(decl_garbage(3)[1234]), 'damaged': assemble(_PLACEMENTS['decl'][1][1], inject=((0,), 1, text_of(decl_garbage(3)[1234]), True))[0]}], t0)


def damaged_rules(ctx):
    """domains 1b and 1c"""
    _init_placements()
    thorough = ctx.tier == 'thorough'
    npl = len(_PLACEMENTS['rule'])
    t0 = time.time()
    plan = [(0, False, npl), (1, False, npl), (2, False, npl), (3, False, npl // 2 if thorough else 1), (4, not thorough, 1)]
    tasks = []
    sizes = []
    for n, small, per in plan:
        seqs = rule_preludes(n, small)
        sizes.append('%d invalid preludes of %d token(s)%s x %s placements' % (len(seqs), n, ' (reduced alphabet of %d)' % len(RULE_ALPHABET_SMALL) if small else '', 'all %d' % npl if per >= npl else '%d of %d (rotating)' % (per, npl)))
        tasks += [(n, small, lo, hi, per) for lo, hi in _chunks(len(seqs), ctx, ())]
    results = _pool_run(ctx, _w_rule_garbage, tasks)
    _report(ctx, results, 'rules with an invalid selector x statement boundaries of the hosts',
            'token sequences without ; { } (alphabet of %d token kinds, one space between tokens) that are not a selector group by the Selectors 3 grammar, followed by a declaration block (%s), written as one '
            'statement at every statement boundary of %d host placements (top level between style rules, in @media, in nested @media, behind @import, behind @charset+@namespace, around @page/@font-face, '
            'around an unknown rule and a comment); distinct = (host, token-kind sequence, body)' % (len(RULE_ALPHABET), ' | '.join(RULE_BODIES), npl),
            '; '.join(sizes), [{'garbage': text_of(rule_preludes(2)[77]) + ' { y : z }'}], t0)
    t0 = time.time()
    plan = [(0, False, npl), (1, False, npl), (2, False, npl if thorough else 4), (3, not thorough, 2)]
    tasks = []
    sizes = []
    for n, small, per in plan:
        seqs = at_preludes(n, small)
        sizes.append('%d preludes of %d token(s)%s x %s placements' % (len(seqs), n, ' (reduced alphabet)' if small else '', 'all %d' % npl if per >= npl else '%d of %d (rotating)' % (per, npl)))
        tasks += [(n, small, lo, hi, per) for lo, hi in _chunks(len(seqs), ctx, ())]
    results = _pool_run(ctx, _w_at_garbage, tasks)
    _report(ctx, results, 'unknown at-rules x statement boundaries of the hosts',
            "'@foo' + a balanced token sequence without ; { } + one of the ends (%s), at every statement boundary of the %d host placements; the DOM may keep it as one unknown rule at that place; "
            'distinct = (host, token-kind sequence, end)' % (' | '.join(AT_ENDS), npl), '; '.join(sizes), [{'garbage': '@foo ' + text_of(at_preludes(2)[5]) + ' { b { y : z } }'}], t0)


def extras(ctx):
    """domain 1d"""
    _init_placements()
    t0 = time.time()
    cases = _extras_cases()
    tasks = _chunks(len(cases), ctx, ()) + _chunks(len(cases), ctx, ('log-off',))
    results = _pool_run(ctx, _w_extras, tasks)
    _report(ctx, results, 'hand-picked garbage and misplaced at-rules x all placements of the hosts x both spacings x error handler on / switched off',
            '%d malformed declarations and %d invalid selectors outside the token bound or with glued tokens, and the at-rules not allowed at the position (@import / @namespace / @charset behind other '
            'rules or in @media, a margin box outside @page), each at every placement of the hosts, written with and without optional white space' % (len(DECL_EXTRAS), len(RULE_EXTRAS)),
            '%d cases x 2 settings of cssutils.log.enabled' % len(cases), [{'garbage': DECL_EXTRAS[3]}, {'garbage': RULE_EXTRAS[0] + ' { }'}], t0, exhaustive=True)


def damaged_sheets(ctx):
    """domain 2"""
    t0 = time.time()
    sheets = gen.enumerate_sheets(ctx.tier, ctx.seed)
    per = 3 if ctx.tier == 'quick' else 4
    tasks = [(ctx.tier, ctx.seed, lo, hi, per) for lo, hi in _chunks(len(sheets), ctx, (), target=96)]
    results = _pool_run(ctx, _w_sheets, tasks)
    nb = sum(n + 1 for _, sh in sheets for _, _, n, _ in containers(sh))
    _report(ctx, results, 'generator sheets x every boundary x representative garbage',
            'every abstract sheet of bounded/gen.py (%s) x every declaration boundary and statement boundary x %d of %d representative malformed declarations (one per first-token kind, the nesting '
            'forms) / %d of %d representative invalid rules and unknown at-rules (rotating with the sheet and boundary index) + one misplaced at-rule; distinct = (sheet label kind, context, garbage)'
            % (gen.ENUMERATION[ctx.tier], per, len(_decl_reps()), per, len(_rule_reps())),
            '%d sheets, %d boundaries' % (len(sheets), nb), [{'label': sheets[-1][0], 'text': assemble(sheets[-1][1])[0][:300]}], t0,
            extra={'sheets_skipped_original_raises': sum(r.get('skipped', 0) for r in results)})


def truncation(ctx):
    """domain 3"""
    t0 = time.time()
    sheets = gen.enumerate_sheets(ctx.tier, ctx.seed)
    tights = (False,) if ctx.tier == 'quick' else (False, True)
    tasks = [(ctx.tier, ctx.seed, lo, hi, tights) for lo, hi in _chunks(len(sheets), ctx, (), target=96)]
    results = _pool_run(ctx, _w_trunc, tasks)
    _report(ctx, results, 'every prefix of every generator sheet',
            'every abstract sheet of bounded/gen.py assembled with recorded construct positions (%s), cut at EVERY character offset (token boundaries included)%s; '
            'distinct = (sheet label kind, chain of constructs open at the cut)' % ('one space where optional' if len(tights) == 1 else 'with and without optional white space',
                                                                                   '' if len(tights) == 1 else '; the sheets that only the thorough enumeration has: one spacing, cut at every token boundary'),
            '%d sheets x %d spacing(s): %d prefixes' % (len(sheets), len(tights), sum(r.get('prefixes', 0) for r in results)),
            [{'full': assemble(sheets[-1][1])[0][:200], 'cut': 17}], t0, exhaustive=True,
            extra={'texts_skipped_full_text_not_canonical(C02 findings)': sum(r.get('skipped', 0) for r in results)})


# ---------------------------------------------------------------------------------------------------- witnesses of the recorded findings

def _differs(damaged, original):
    d, e1 = _project(damaged)
    o, e2 = _project(original)
    return bool(e1 or e2 or d != o)


# (id, damaged text, undamaged text): the DOMs must be equal once the finding is fixed
WITNESSES = [
    ('C04-bracket-first-declaration', 'a{ (x) ; color:red; top:1px }', 'a{ color:red; top:1px }'),
    ('C04-function-first-statement', 'a{color:red} f(x) {} b{top:1px}', 'a{color:red} b{top:1px}'),
    ('C04-invalid-statement-before-import', '$ {} @import "a.css"; a{color:red}', '@import "a.css"; a{color:red}'),
    ('C04-margin-box-atkeyword', '@page { @top-left { $ @foo; color: red; top: 1px } }', '@page { @top-left { color: red; top: 1px } }'),
    ('C04-margin-box-nested-block', '@page { color: red; @top-left { x { } y; color: red; top: 1px } }', '@page { color: red; @top-left { color: red; top: 1px } }'),
    ('C04-page-margin-keyword-nested', '@page { @top-left { color: red } $ ( @top-left { y : z } ) }', '@page { @top-left { color: red } }'),
    ('C04-skip-ends-at-exclamation', 'a{ $ ! x : y; color: red }', 'a{ color: red }'),
]
# (id, prefix, complete text whose DOM must be a prefix of the DOM of the prefix)
TRUNC_WITNESSES = [
    ('C04-namespace-same-uri-merged', '@namespace q "u"; @namespace "u', '@namespace q "u";'),
]


def witnesses(ctx):
    n = 0
    for fid, damaged, original in WITNESSES:
        n += 1
        ctx.known_finding(fid, _differs(damaged, original))
    for fid, prefix, complete in TRUNC_WITNESSES:
        n += 1
        d, e1 = _project(prefix)
        o, e2 = _project(complete)
        ctx.known_finding(fid, bool(e1 or e2 or d[:len(o)] != o))
    ctx.bounded.append({'name': 'witnesses of recorded findings', 'evaluations': n, 'distinct_nontrivial': n, 'rule': 'one minimal witness per recorded finding of known/C04.json',
                        'samples': [{'id': WITNESSES[0][0], 'damaged': WITNESSES[0][1], 'original': WITNESSES[0][2]}], 'bound': '%d witnesses' % n, 'exhaustive': True})
