"""Abstract stylesheets: generator, renderer, projection (DESIGN.md Appendix C, "Abstract sheets").

Shared by the bounded checks C02, C03 (and later C04, C06, C19).  This module holds NO property-specific check.

Public API
----------
``enumerate_sheets(tier, seed=0)``   -> list of ``(label, abstract sheet)`` (deterministic; exhaustive up to the stated size, pairwise over construct
                                        kinds in the quick tier; ``ENUMERATION[tier]`` is the bound as text; the label names the construct kinds, e.g.
                                        ``value/pair:ident/calc``).  Parts: ``enumerate_values``, ``enumerate_selectors``, ``enumerate_media``.
``spellings(tier, seed=0, level)``   -> list of ``Spelling``: the default, every single-field variation, a pairwise covering array of the fields (quick) or
                                        the product of coarse field values (thorough); level='full' adds case / escape / comments restricted to each single part
``render(sheet, spelling=None)``     -> CSS source text of the abstract sheet in that spelling (``render_rules``: one text per top-level rule;
                                        ``render_rule / render_value / render_selector / render_media / render_items`` for single nodes)
``project(dom, lenient=False)``      -> the parsed cssutils sheet projected to the *projection form* through PUBLIC accessors only: cssRules, rule.type,
                                        selectorList + Selector.seq, style.children(), Property.name/priority/propertyValue, PropertyValue.seq,
                                        Value.type/value/dimension/uri, ColorValue channels, seq of functions and calc(), MediaList items + MediaQuery.seq,
                                        href/name, prefix/namespaceURI, CSSPageRule.selectorText/cssRules, MarginRule.margin, CSSComment.cssText,
                                        CSSUnknownRule.atkeyword/seq.  Raises ``ProjectionError`` if the DOM has a shape outside the abstract grammar;
                                        lenient=True projects such parts to ('raw', kind, own text) instead (for DOM-to-DOM comparisons, C03).
``canon(sheet)``                     -> the projection form the abstract sheet denotes (expected value, known by construction)
``strip_comments(p)``                -> a projection form without its rule-level and declaration-level comments
``project_rule / project_style / project_selector / project_media / project_mediaquery / project_value``  -> projections of single DOM nodes
``canon_rule / canon_items / canon_selector / canon_media / canon_value``                                  -> the matching expected forms
``diff(got, want)``                  -> first difference of two projection forms as text
``urls(sheet)``                      -> the (kind, url) list of the abstract sheet in source order (for C19)
``specificity(selector)``            -> CSS3 specificity of an abstract selector (for C16)
``real_sheets()``                    -> paths of the style sheets shipped under <repo>/sheets
``parse(text, **options)``           -> cssutils.parseString with the log silenced (helper)
``pairwise_rows(domains, seed)``     -> greedy strength-2 covering array (used for the spellings; reusable for preference combinations, C06)

Abstract tree (plain nested tuples, hashable, JSON-able via ``to_json``)
-----------------------------------------------------------------------
sheet      := (rule, ...)
rule       := ('charset', enc) | ('import', href, media, name|None) | ('namespace', prefix|None, uri)
            | ('style', (selector, ...), items) | ('media', media, (rule, ...)) | ('page', (name|None, pseudo|None), items, (margin, ...))
            | ('fontface', items) | ('unknown', '@keyword', (token, ...)) | ('comment', text)
margin     := ('margin', '@top-left', items)
items      := (item, ...);  item := ('decl', name, value, important: bool) | ('comment', text)
value      := ((sep, component), ...)   sep of the first is None, else ' ' | ',' | '/'
component  := ('ident', text) | ('number', dec) | ('dimension', dec, unit) | ('percentage', dec) | ('string', content)
            | ('url', content) | ('hash', hexdigits) | ('function', name, value) | ('calc', (operand, op, operand, ...)) | ('urange', text) | ('var', name)
              dec is a canonical decimal text ('-1.5', '10', '0.25'); calc operands are number/dimension/percentage components, op in + - * /
selector   := ((combinator, compound), ...)  combinator of the first is None, else ' ' | '>' | '+' | '~'
compound   := (typesel|None, (simple, ...));  typesel := (nsprefix, name|'*'), nsprefix in None (none written) | '' ('|a') | '*' | declared prefix
simple     := ('id', name) | ('class', name) | ('attr', nsprefix, name, op|None, val|None, 'ident'|'string') | ('pclass', name, arg|None)
            | ('pelem', name, colons 1|2) | ('not', simple | ('type', typesel))
              arg := ('anb', a, b) | ('ident', text) | ('string', content)
media      := (query, ...); query := (None|'only'|'not', type|None, ((feature, component|None), ...))
token      := (kind, text) for the opaque content of unknown at-rules, kind in ident number dimension percentage string hash char

Names of the case-insensitive parts (at-keywords, property names, units, pseudo and function names, hex digits) are stored in lower case;
the spelling decides how they are written.  Everything case-sensitive (class names, ident values, strings, URLs) is stored exactly.

Projection form: the same tree with (i) numbers as floats, (ii) hash colours as (r, g, b), (iii) namespace prefixes resolved to URIs
('*' = any namespace, None = no default namespace declared), (iv) import without the string/url() distinction.
"""
from __future__ import annotations

import dataclasses
import itertools
import logging
import random
import re

# ----------------------------------------------------------------------------------------------------------------- constructors

def Charset(enc): return ('charset', enc)
def Import(href, media=(), name=None): return ('import', href, tuple(media), name)
def Namespace(prefix, uri): return ('namespace', prefix, uri)
def Style(selectors, items): return ('style', tuple(selectors), tuple(items))
def Media(media, rules): return ('media', tuple(media), tuple(rules))
def Page(selector, items, margins=()): return ('page', tuple(selector), tuple(items), tuple(margins))
def Margin(name, items): return ('margin', name, tuple(items))
def FontFace(items): return ('fontface', tuple(items))
def Unknown(keyword, tokens): return ('unknown', keyword, tuple(tokens))
def Comment(text): return ('comment', text)
def Decl(name, value, important=False): return ('decl', name, tuple(value), bool(important))


def V(*parts):
    """value from components and separators: V(c1, ',', c2, c3) -> ((None,c1), (',',c2), (' ',c3))"""
    out = []
    sep = None
    for p in parts:
        if isinstance(p, str):
            sep = p
        else:
            out.append((sep if out else None, p))
            sep = ' '
    return tuple(out)


def Sel(*parts):
    """selector from compounds and combinators: Sel(c1, '>', c2, c3)"""
    out = []
    comb = None
    for p in parts:
        if isinstance(p, str):
            comb = p
        else:
            out.append((comb if out else None, p))
            comb = ' '
    return tuple(out)


def C(typesel=None, *simples):
    """compound; typesel: None | 'a' | '*' | (nsprefix, name)"""
    if isinstance(typesel, str):
        typesel = (None, typesel)
    return (typesel, tuple(simples))


# ------------------------------------------------------------------------------------------------------------------- spelling

WS_CHOICES = ('none', 'space', 'tab', 'lf', 'crlf', 'ff', 'alt0', 'alt1', 'mix')
_WS = {'none': '', 'space': ' ', 'tab': '\t', 'lf': '\n', 'crlf': '\r\n', 'ff': '\f'}
# the parts of a sheet whose letter case CSS defines as insignificant (C02 statement), split finely so that a finding can name its class:
#   atkeyword (top-level @import/@namespace/@media/@page/@font-face), atkeyword-nested (at-rules inside @media), atkeyword-margin (@top-left ...),
#   atkeyword-unknown; property; unit; important; pseudo (pseudo-classes/-elements), not (the negation pseudo-class), pagepseudo (@page :first);
#   function (all function names but the following), colorfn (rgb rgba hsl hsla), calc; hex (hex digits of colours and unicode-ranges)
CASE_PARTS = ('atkeyword', 'atkeyword-nested', 'atkeyword-margin', 'atkeyword-unknown', 'property', 'unit', 'important', 'pseudo', 'not', 'pagepseudo',
              'function', 'colorfn', 'calc', 'hex')
# identifiers that may carry a CSS escape of an ordinary name character: the CASE_PARTS names (but hex) plus
#   ident (identifier values), selname (type/class/id/attribute names and identifier attribute values, namespace prefixes, page names),
#   media (only/not/and, media types, media features)
ESCAPE_PARTS = CASE_PARTS[:-1] + ('ident', 'selname', 'media')
# further case-insensitive parts that are NOT in the default case_parts of a Spelling (callers that want them name them in case_parts, alone or as
# CASE_PARTS + CASE_PARTS_OPTIONAL; the default spellings and gen.spellings() are unchanged by them):
#   media-keyword (the media query keywords only / not / and - ASCII case-insensitive like every CSS keyword; media types and feature names are not varied)
CASE_PARTS_OPTIONAL = ('media-keyword',)
# positions inside a construct where the grammar admits white space and therefore a comment
COMMENT_PARTS = ('selector', 'pseudo-arg', 'attr', 'decl', 'value', 'before-operator', 'function', 'calc', 'prelude', 'media')


@dataclasses.dataclass(frozen=True)
class Spelling:
    """one concrete way of writing an abstract sheet.

    ws        white space where the grammar makes it optional: none|space|tab|lf|crlf|ff|alt0|alt1|mix (alt0/alt1: a space at every other optional
              position, starting with the first/second - one-sided white space such as 'a> b', 'f( 1,2 )'; mix: seeded choice per position);
              where white space is required at least one character is written.  ws_plain: white-space categories (e.g. 'calc-operator') that are
              always written as one space whatever ws says
    comments  'none' | 'all' | 'some': a comment /*~*/ at every (some: seeded half of the) position(s) of the kinds in comment_parts
              (subset of COMMENT_PARTS) - always INSIDE a construct where the grammar admits white space, never at rule or declaration
              level: those comments are DOM nodes and part of the abstract tree
    case      'lower' | 'upper' | 'mixed' for the parts listed in case_parts (subset of CASE_PARTS)
    quote     quote character of strings
    urlquote  None | '"' | "'" : url(x) or url("x") (content that cannot be written bare is always quoted)
    escape    None | 'simple' (c\\olor) | 'hex' (\\63 olor) | 'hex6' (\\000063olor) | 'hexcrlf' (\\63<CR><LF>olor) of one ordinary name
              character in the identifiers of the kinds listed in escape_parts (subset of ESCAPE_PARTS), at escape_pos first|mid|last
    lastsemi  write the optional last semicolon of a declaration block
    num       'plain' | 'padded' (01.50) | 'bare' (.5, no leading zero) | 'plus' (explicit + on positive plain numbers in values)
    importurl write @import / @namespace targets as url(...) instead of a string
    seed      seed of the per-position choices (ws=mix, comments=some)
    """
    ws: str = 'space'
    ws_plain: tuple = ()
    comments: str = 'none'
    comment_parts: tuple = COMMENT_PARTS
    case: str = 'lower'
    case_parts: tuple = CASE_PARTS
    quote: str = '"'
    urlquote: str | None = None
    escape: str | None = None
    escape_parts: tuple = ESCAPE_PARTS
    escape_pos: str = 'mid'
    lastsemi: bool = False
    num: str = 'plain'
    importurl: bool = False
    seed: int = 0

    def describe(self):
        """the fields that differ from the default spelling"""
        d = dataclasses.asdict(self)
        dflt = dataclasses.asdict(Spelling())
        out = {k: (list(v) if isinstance(v, tuple) else v) for k, v in d.items() if v != dflt[k]}
        if self.case == 'lower':
            out.pop('case_parts', None)
        if self.escape is None:
            out.pop('escape_parts', None)
            out.pop('escape_pos', None)
        if self.comments == 'none':
            out.pop('comment_parts', None)
        return out

    def to_json(self):
        d = dataclasses.asdict(self)
        return {k: (list(v) if isinstance(v, tuple) else v) for k, v in d.items()}

    @staticmethod
    def from_json(d):
        d = dict(d)
        for k in ('case_parts', 'escape_parts', 'comment_parts', 'ws_plain'):
            if k in d:
                d[k] = tuple(d[k])
        return Spelling(**d)


DEFAULT = Spelling()


class _Mark:
    """white-space position in the piece list: required or optional, with the comment category (None: no comment possible) and the
    white-space category (default: the comment category)"""
    __slots__ = ('required', 'cat', 'wcat')

    def __init__(self, required, cat, wcat):
        self.required = required
        self.cat = cat
        self.wcat = wcat

    def __repr__(self):
        return ('R' if self.required else 'O') + '<%s>' % self.cat


_MARKS = {}


def O(cat, wcat=None):
    """optional white space; a comment of category cat is admitted"""
    return _MARKS.setdefault((False, cat, wcat), _Mark(False, cat, wcat or cat))


def R(cat, wcat=None):
    """required white space; a comment of category cat is admitted"""
    return _MARKS.setdefault((True, cat, wcat), _Mark(True, cat, wcat or cat))


W = O(None)    # optional white space, NO comment (rule / declaration level - a comment there would be a DOM node; inside url( ))


class _Ctx:
    def __init__(self, sp):
        self.sp = sp
        self.rnd = random.Random(sp.seed * 7919 + 13)
        self.nmark = 0

    # -- names
    def case(self, text, part):
        sp = self.sp
        if sp.case == 'lower' or part not in sp.case_parts:
            return text
        if sp.case == 'upper':
            return text.upper()
        return ''.join(ch.upper() if i % 2 == 0 else ch.lower() for i, ch in enumerate(text))

    def esc(self, text, part):
        """escape one ordinary name character (a letter, or a non-leading digit for the hex forms) of text"""
        sp = self.sp
        if not sp.escape or part not in sp.escape_parts:
            return text
        if sp.escape == 'simple':
            # a backslash before a hex digit would start a hex escape: only g-z qualify
            cand = [i for i, ch in enumerate(text) if ch.isascii() and ch.isalpha() and ch.lower() not in 'abcdef']
        else:
            cand = [i for i, ch in enumerate(text) if ch.isascii() and (ch.isalpha() or (ch.isdigit() and i > 0))]
        if not cand:
            return text
        i = {'first': cand[0], 'last': cand[-1]}.get(sp.escape_pos, cand[len(cand) // 2])
        ch = text[i]
        if sp.escape == 'simple':
            e = '\\' + ch
        elif sp.escape == 'hex':
            e = '\\%x ' % ord(ch)
        elif sp.escape == 'hex6':
            # white space after a hex escape is part of the escape (CSS 2.1 4.1.3) also after six digits: at the end of the
            # identifier write the terminator explicitly so that following (significant) white space survives
            e = '\\%06x' % ord(ch) + (' ' if i == len(text) - 1 else '')
        elif sp.escape == 'hexcrlf':
            e = '\\%X\r\n' % ord(ch)
        else:
            raise ValueError(sp.escape)
        return text[:i] + e + text[i + 1:]

    def name(self, text, part):
        return self.esc(self.case(text, part), part)

    def at(self, kw, part='atkeyword'):
        """@keyword (kw given with or without the @)"""
        return '@' + self.name(kw.lstrip('@'), part)

    # -- strings, urls, numbers
    def string(self, content):
        return css_string(content, self.sp.quote)

    def url(self, content):
        q = self.sp.urlquote
        if q is None and (content == '' or re.search(r'''[\s()'"\;,]''', content)):
            q = self.sp.quote
        # the url( token itself is not varied (it is a token of its own, not a function name)
        if q is None:
            return ['url(', W, content, W, ')']
        return ['url(', W, css_string(content, q), W, ')']

    def num(self, dec, in_value=True):
        st = self.sp.num
        neg = dec.startswith('-')
        body = dec.lstrip('-')
        ip, _, fp = body.partition('.')
        if st == 'padded':
            ip = '0' + ip
            fp = (fp + '0') if fp else fp
        elif st == 'bare':
            if ip == '0' and fp:
                ip = ''
        sign = '-' if neg else ('+' if st == 'plus' and in_value else '')
        return sign + ip + ('.' + fp if fp else '')


def css_string(content, q='"'):
    """independent CSS string writer (CSS 2.1 4.3.7): the quote and the backslash escaped, line breaks as hex escapes"""
    out = [q]
    for ch in content:
        if ch == q or ch == '\\':
            out.append('\\' + ch)
        elif ch in '\n\r\f':
            out.append('\\%x ' % ord(ch))
        else:
            out.append(ch)
    out.append(q)
    return ''.join(out)


def _finish(pieces, cx):
    sp = cx.sp
    out = []

    def ws(p):
        if p.wcat in sp.ws_plain:
            return ' '
        if sp.ws == 'mix':
            w = cx.rnd.choice(['', ' ', '\t', '\n', '\r\n', '\f', '  ', ' \n '])
        elif sp.ws in ('alt0', 'alt1'):
            cx.nmark += 1
            w = ' ' if (cx.nmark + (sp.ws == 'alt1')) % 2 else ''
        else:
            w = _WS[sp.ws]
        if p.required and not w:
            w = ' '
        return w

    for p in _flatten(pieces):
        if isinstance(p, str):
            out.append(p)
            continue
        cm = False
        if p.cat is not None and sp.comments != 'none' and p.cat in sp.comment_parts:
            cm = sp.comments == 'all' or cx.rnd.random() < 0.5
        if cm:
            out.append(ws(p) + '/*~*/' + ws(p))
        else:
            out.append(ws(p))
    return ''.join(out)


def _flatten(pieces):
    for p in pieces:
        if isinstance(p, (list, tuple)):
            yield from _flatten(p)
        else:
            yield p


# ------------------------------------------------------------------------------------------------------------------- renderer

def render(sheet, spelling=None):
    """source text of the abstract sheet in the given spelling"""
    return ''.join(render_rules(sheet, spelling))


def render_rules(sheet, spelling=None):
    """one source text per top-level rule; render() is their concatenation"""
    cx = _Ctx(spelling or DEFAULT)
    out = []
    for r in sheet:
        out.append(_finish([_rule(r, cx), W], cx))
    return out


def render_rule(rule, spelling=None):
    cx = _Ctx(spelling or DEFAULT)
    return _finish(_rule(rule, cx), cx)


def render_value(value, spelling=None):
    cx = _Ctx(spelling or DEFAULT)
    return _finish(_value(value, cx), cx)


def render_selector(sel, spelling=None):
    cx = _Ctx(spelling or DEFAULT)
    return _finish(_selector(sel, cx), cx)


def render_media(media, spelling=None):
    cx = _Ctx(spelling or DEFAULT)
    return _finish(_media(media, cx), cx)


def render_items(items, spelling=None):
    cx = _Ctx(spelling or DEFAULT)
    return _finish(_items(items, cx), cx)


def _rule(r, cx, nested=False):
    k = r[0]
    atpart = 'atkeyword-nested' if nested else 'atkeyword'
    P = 'prelude'
    if k == 'charset':
        return ['@charset "%s";' % r[1]]  # CSS 2.1 4.4: exactly this spelling
    if k == 'comment':
        return [_comment(r[1])]
    if k == 'import':
        _, href, media, name = r
        # '@importurl(' would be one at-keyword: white space is required before url(, optional before a string
        p = [cx.at('import', atpart), R(P) if cx.sp.importurl else O(P)]
        p += cx.url(href) if cx.sp.importurl else [cx.string(href)]
        if media:
            p += [O(P), _media(media, cx)]
        if name is not None:
            p += [O(P), cx.string(name)]
        p += [O(P), ';']
        return p
    if k == 'namespace':
        _, prefix, uri = r
        p = [cx.at('namespace', atpart)]
        if prefix is not None:
            p += [R(P), cx.esc(prefix, 'selname'), R(P) if cx.sp.importurl else O(P)]
        else:
            p += [R(P) if cx.sp.importurl else O(P)]
        p += cx.url(uri) if cx.sp.importurl else [cx.string(uri)]
        p += [O(P), ';']
        return p
    if k == 'style':
        _, sels, items = r
        p = []
        for i, s in enumerate(sels):
            if i:
                p += [O('selector'), ',', O('selector')]
            p += _selector(s, cx)
        p += [O('selector'), '{', W, _items(items, cx), W, '}']
        return p
    if k == 'media':
        _, media, rules = r
        p = [cx.at('media', atpart), R(P), _media(media, cx), O(P), '{', W]
        for x in rules:
            p += [_rule(x, cx, nested=True), W]
        p += ['}']
        return p
    if k == 'page':
        _, (name, pseudo), items, margins = r
        p = [cx.at('page', atpart)]
        if name is not None:
            p += [R(P), cx.esc(name, 'selname')]
            if pseudo is not None:
                p += [':' + cx.name(pseudo, 'pagepseudo')]
        elif pseudo is not None:
            p += [O(P), ':' + cx.name(pseudo, 'pagepseudo')]
        p += [O(P), '{', W, _items(items, cx, force_semi=bool(margins))]
        for m in margins:
            p += [W, cx.at(m[1], 'atkeyword-margin'), O(P), '{', W, _items(m[2], cx), W, '}']
        p += [W, '}']
        return p
    if k == 'fontface':
        return [cx.at('font-face', atpart), O(P), '{', W, _items(r[1], cx), W, '}']
    if k == 'unknown':
        _, kw, toks = r
        p = [cx.at(kw, 'atkeyword-unknown')]
        prev = None
        for kind, text in toks:
            if kind == 'string':
                text = css_string(text, cx.sp.quote)
            if prev is None:
                p += [R(None), text]      # the content of an unknown rule is opaque: white space, no comments
            else:
                p += [R(None) if (kind != 'char' and prev[0] != 'char') else W, text]
            prev = (kind, text)
        return p
    raise ValueError(k)


def _comment(text):
    return '/*' + text + '*/'


def _items(items, cx, force_semi=False):
    """declaration block content.  A declaration that is followed by anything gets its semicolon (a comment before the semicolon
    would belong to the value); the semicolon of the very last declaration is the spelling's choice"""
    p = []
    n = len(items)
    for i, it in enumerate(items):
        if it[0] == 'comment':
            p += [_comment(it[1]), W]
            continue
        _, name, value, imp = it
        p += [cx.name(name, 'property'), O('decl'), ':', O('decl'), _value(value, cx)]
        if imp:
            p += [O('decl'), '!', O('decl'), cx.name('important', 'important')]
        if i + 1 < n or cx.sp.lastsemi or force_semi:
            p += [O('decl'), ';', W]
    return p


def _value(value, cx, cat='value'):
    p = []
    for sep, comp in value:
        if sep == ' ':
            p += [R(cat)]
        elif sep in (',', '/'):
            p += [O('before-operator' if cat == 'value' else cat), sep, O(cat)]
        p += _component(comp, cx, cat == 'value')
    return p


_COLORFNS = ('rgb', 'rgba', 'hsl', 'hsla')


def _component(c, cx, in_value=True):
    k = c[0]
    if k == 'ident':
        return [cx.esc(c[1], 'ident')]
    if k == 'number':
        return [cx.num(c[1], in_value)]
    if k == 'dimension':
        return [cx.num(c[1], in_value) + cx.name(c[2], 'unit')]
    if k == 'percentage':
        return [cx.num(c[1], in_value) + '%']
    if k == 'string':
        return [cx.string(c[1])]
    if k == 'url':
        return cx.url(c[1])
    if k == 'hash':
        return ['#' + cx.case(c[1], 'hex')]
    if k == 'urange':
        return [cx.case(c[1], 'hex')]
    if k == 'var':
        # var() is a function of its own in cssutils (CSSVariable); its name follows the 'function' part of the spelling
        return [cx.name('var', 'function') + '(', O('function'), c[1], O('function'), ')']
    if k == 'function':
        p = [cx.name(c[1], 'colorfn' if c[1] in _COLORFNS else 'function') + '(', O('function')]
        p += _value(c[2], cx, 'function')
        p += [O('function'), ')']
        return p
    if k == 'calc':
        p = [cx.name('calc', 'calc') + '(', O('calc')]
        for x in c[1]:
            if isinstance(x, str):
                p += [R('calc'), x, R('calc')] if x in '+-' else [O('calc', 'calc-operator'), x, O('calc', 'calc-operator')]
            else:
                p += _component(x, cx, in_value=False)
        p += [O('calc'), ')']
        return p
    raise ValueError(k)


def _selector(sel, cx):
    p = []
    for comb, compound in sel:
        if comb == ' ':
            p += [R('selector')]
        elif comb is not None:
            p += [O('selector'), comb, O('selector')]
        p += _compound(compound, cx)
    return p


def _nsprefix(ns, cx):
    if ns is None:
        return ''
    if ns in ('', '*'):
        return ns + '|'
    return cx.esc(ns, 'selname') + '|'


def _typesel(ts, cx):
    ns, name = ts
    return _nsprefix(ns, cx) + (name if name == '*' else cx.esc(name, 'selname'))


def _compound(compound, cx):
    ts, simples = compound
    p = []
    if ts is not None:
        p.append(_typesel(ts, cx))
    for s in simples:
        p += _simple(s, cx)
    return p


def _anb(a, b):
    if a == 0:
        return [str(b)]
    sa = {1: 'n', -1: '-n'}.get(a, '%dn' % a)
    if b == 0:
        return [sa]
    return [sa, '+' if b > 0 else '-', str(abs(b))]


def _simple(s, cx):
    k = s[0]
    if k == 'id':
        return ['#' + cx.esc(s[1], 'selname')]
    if k == 'class':
        return ['.' + cx.esc(s[1], 'selname')]
    if k == 'attr':
        _, ns, name, op, val, vk = s
        p = ['[', O('attr'), _nsprefix(ns, cx) + cx.esc(name, 'selname'), O('attr')]
        if op is not None:
            p += [op, O('attr'), cx.string(val) if vk == 'string' else cx.esc(val, 'selname'), O('attr')]
        p += [']']
        return p
    if k == 'pclass':
        _, name, arg = s
        if arg is None:
            return [':' + cx.name(name, 'pseudo')]
        A = 'pseudo-arg'
        p = [':' + cx.name(name, 'pseudo') + '(', O(A)]
        if arg[0] == 'anb':
            parts = _anb(arg[1], arg[2])
            if len(parts) == 3:
                # CSS3 selectors 6.6.5.2: white space is admitted around the sign
                p += [parts[0], O(A), parts[1], O(A), parts[2]]
            else:
                p += [parts[0]]
        elif arg[0] == 'ident':
            p += [arg[1]]
        else:
            p += [cx.string(arg[1])]
        p += [O(A), ')']
        return p
    if k == 'pelem':
        return [':' * s[2] + cx.name(s[1], 'pseudo')]
    if k == 'not':
        inner = s[1]
        A = 'pseudo-arg'
        p = [':' + cx.name('not', 'not') + '(', O(A)]
        if inner[0] == 'type':
            p += [_typesel(inner[1], cx)]
        else:
            p += _simple(inner, cx)
        p += [O(A), ')']
        return p
    raise ValueError(k)


def _media(media, cx):
    M = 'media'
    p = []
    for i, (qual, typ, feats) in enumerate(media):
        if i:
            p += [O(M), ',', O(M)]
        first = True
        if qual:
            p += [cx.esc(cx.case(qual, 'media-keyword'), 'media'), R(M)]
        if typ:
            p += [cx.esc(typ, 'media')]
            first = False
        for fname, fval in feats:
            if not first:
                p += [R(M), cx.esc(cx.case('and', 'media-keyword'), 'media'), R(M)]
            first = False
            p += ['(', O(M), cx.esc(fname, 'media')]
            if fval is not None:
                p += [O(M), ':', O(M), _component(fval, cx, in_value=False)]
            p += [O(M), ')']
    return p


# --------------------------------------------------------------------------------------------------- expected projection (canon)

ANY = '*'


def _f(dec):
    return float(dec)


def canon(sheet):
    """the projection form an abstract sheet denotes"""
    ns = {}
    for r in sheet:
        if r[0] == 'namespace':
            ns[r[1] or ''] = r[2]
    return tuple(canon_rule(r, ns) for r in sheet)


def canon_rule(r, ns=None):
    ns = ns or {}
    k = r[0]
    if k in ('charset', 'comment'):
        return r
    if k == 'import':
        # an @import without a media list applies to all media (DOM: "an empty list is the same as a list that contains the medium all")
        return ('import', r[1], canon_media(r[2]) or ((None, 'all', ()),), r[3])
    if k == 'namespace':
        return ('namespace', r[1] or '', r[2])
    if k == 'style':
        return ('style', tuple(canon_selector(s, ns) for s in r[1]), canon_items(r[2]))
    if k == 'media':
        return ('media', canon_media(r[1]), tuple(canon_rule(x, ns) for x in r[2]))
    if k == 'page':
        return ('page', tuple(r[1]), canon_items(r[2]), tuple(('margin', m[1], canon_items(m[2])) for m in r[3]))
    if k == 'fontface':
        return ('fontface', canon_items(r[1]))
    if k == 'unknown':
        return ('unknown', r[1], tuple(r[2]))
    raise ValueError(k)


def canon_items(items):
    out = []
    for it in items:
        if it[0] == 'comment':
            out.append(it)
        else:
            out.append(('decl', it[1], canon_value(it[2]), it[3]))
    return tuple(out)


def canon_value(value):
    return tuple((sep, canon_component(c)) for sep, c in value)


def canon_component(c):
    k = c[0]
    if k == 'number':
        return ('number', _f(c[1]))
    if k == 'dimension':
        return ('dimension', _f(c[1]), c[2])
    if k == 'percentage':
        return ('percentage', _f(c[1]))
    if k == 'hash':
        h = c[1]
        if len(h) == 3:
            h = ''.join(ch * 2 for ch in h)
        return ('hash', (int(h[0:2], 16), int(h[2:4], 16), int(h[4:6], 16)))
    if k == 'function':
        return ('function', c[1], canon_value(c[2]))
    if k == 'calc':
        return ('calc', tuple(x if isinstance(x, str) else canon_component(x) for x in c[1]))
    return c


def _resolve(nsprefix, ns, attribute=False):
    if nsprefix is None:
        return None if attribute else ns.get('', None)
    if nsprefix == '':
        # selectors 6.3.3: [|att] is the attribute without a namespace - the same as [att]
        return None if attribute else ''
    if nsprefix == '*':
        return ANY
    return ns[nsprefix]


def canon_selector(sel, ns=None):
    ns = ns or {}
    return tuple((comb, canon_compound(cp, ns)) for comb, cp in sel)


def canon_compound(cp, ns):
    ts, simples = cp
    if ts is not None:
        ts = (_resolve(ts[0], ns), ts[1])
    return (ts, tuple(canon_simple(s, ns) for s in simples))


def canon_simple(s, ns):
    if s[0] == 'attr':
        _, p, name, op, val, vk = s
        return ('attr', _resolve(p, ns, attribute=True), name, op, val, vk if op is not None else None)
    if s[0] == 'not':
        inner = s[1]
        if inner[0] == 'type':
            return ('not', ('type', (_resolve(inner[1][0], ns), inner[1][1])))
        return ('not', canon_simple(inner, ns))
    if s[0] == 'pelem':
        return s
    return s


def canon_media(media):
    return tuple((q, t, tuple((fn, canon_component(fv) if fv is not None else None) for fn, fv in feats)) for q, t, feats in media)


def strip_comments(p):
    """projection form without rule-level and declaration-level comments (what parseComments=False must give)"""
    out = []
    for r in p:
        k = r[0]
        if k == 'comment':
            continue
        if k == 'style':
            r = ('style', r[1], _strip_items(r[2]))
        elif k == 'media':
            r = ('media', r[1], strip_comments(r[2]))
        elif k == 'page':
            r = ('page', r[1], _strip_items(r[2]), tuple(('margin', m[1], _strip_items(m[2])) for m in r[3]))
        elif k == 'fontface':
            r = ('fontface', _strip_items(r[1]))
        out.append(r)
    return tuple(out)


def _strip_items(items):
    return tuple(i for i in items if i[0] != 'comment')


def specificity(sel):
    """CSS3 selectors section 9 specificity (a=0, b, c, d) of an abstract selector"""
    b = c = d = 0

    def simple(s):
        nonlocal b, c, d
        if s[0] == 'id':
            b += 1
        elif s[0] in ('class', 'attr', 'pclass'):
            c += 1
        elif s[0] == 'pelem':
            d += 1
        elif s[0] == 'not':
            if s[1][0] == 'type':
                if s[1][1][1] != '*':
                    d += 1
            else:
                simple(s[1])

    for _, (ts, simples) in sel:
        if ts is not None and ts[1] != '*':
            d += 1
        for s in simples:
            simple(s)
    return (0, b, c, d)


def urls(sheet):
    """(kind, url) of every URL in source order: ('import', href) and ('url', content) in declaration values"""
    out = []

    def comp(c):
        if c[0] == 'url':
            out.append(('url', c[1]))
        elif c[0] == 'function':
            for _, a in c[2]:
                comp(a)

    def items(its):
        for it in its:
            if it[0] == 'decl':
                for _, c in it[2]:
                    comp(c)

    def rule(r):
        k = r[0]
        if k == 'import':
            out.append(('import', r[1]))
        elif k == 'style':
            items(r[2])
        elif k == 'media':
            for x in r[2]:
                rule(x)
        elif k == 'page':
            items(r[2])
            for m in r[3]:
                items(m[2])
        elif k == 'fontface':
            items(r[1])

    for r in sheet:
        rule(r)
    return out


# ---------------------------------------------------------------------------------------------------------------- projection

def parse(text, **options):
    """cssutils.parseString with the log silenced; returns the sheet"""
    import cssutils
    cssutils.log.setLevel(logging.FATAL)
    return cssutils.parseString(text, **options)


class ProjectionError(Exception):
    """the DOM has a shape the projection form cannot express (reported by the checks as a contract failure)"""


_LENIENT = [False]


def project(sheet, lenient=False):
    """projection of a parsed cssutils style sheet through public accessors only.
    lenient=True (for DOM-to-DOM comparisons on arbitrary sheets): a value component, selector or media query outside the abstract grammar is
    projected to ('raw', kind, its own serialisation) instead of raising ProjectionError"""
    old = _LENIENT[0]
    _LENIENT[0] = lenient
    try:
        return tuple(project_rule(r) for r in sheet.cssRules)
    finally:
        _LENIENT[0] = old


class lenient:
    """context manager: projections of single nodes inside are lenient"""

    def __enter__(self):
        self.old = _LENIENT[0]
        _LENIENT[0] = True

    def __exit__(self, *a):
        _LENIENT[0] = self.old


def diff(got, want, path='sheet'):
    """first difference between two projection forms, as text"""
    if isinstance(got, tuple) and isinstance(want, tuple):
        if len(got) != len(want):
            return '%s: %d item(s) %s, expected %d item(s) %s' % (path, len(got), _short(got), len(want), _short(want))
        for i, (g, w) in enumerate(zip(got, want)):
            if g != w:
                tag = g[0] if isinstance(g, tuple) and g and isinstance(g[0], str) else ''
                return diff(g, w, '%s[%d]%s' % (path, i, ':' + tag if tag else ''))
    return '%s: got %s, expected %s' % (path, _short(got), _short(want))


def _short(x, n=160):
    s = repr(x)
    return s if len(s) <= n else s[:n] + '...'


def project_rule(r):
    t = r.type
    if t == r.CHARSET_RULE:
        return ('charset', r.encoding)
    if t == r.COMMENT:
        return ('comment', _comment_text(r.cssText))
    if t == r.IMPORT_RULE:
        return ('import', r.href, project_media(r.media), r.name)
    if t == r.NAMESPACE_RULE:
        return ('namespace', r.prefix, r.namespaceURI)
    if t == r.STYLE_RULE:
        return ('style', tuple(_lenient(project_selector, s, 'selector', 'selectorText') for s in r.selectorList), project_style(r.style))
    if t == r.MEDIA_RULE:
        return ('media', project_media(r.media), tuple(project_rule(x) for x in r.cssRules))
    if t == r.PAGE_RULE:
        return ('page', _page_selector(r.selectorText), project_style(r.style),
                tuple(('margin', m.margin, project_style(m.style)) for m in r.cssRules))
    if t == r.FONT_FACE_RULE:
        return ('fontface', project_style(r.style))
    if t == r.UNKNOWN_RULE:
        toks = []
        for it in r.seq:
            if it.type == 'S':
                continue
            if it.type == 'COMMENT':
                continue
            toks.append((_TOKKIND.get(it.type, it.type), it.value if isinstance(it.value, str) else _cssText(it.value)))
        return ('unknown', r.atkeyword, tuple(toks))
    if t == getattr(r, 'VARIABLES_RULE', -1):
        return ('variables', tuple((k, r.variables.getVariableValue(k)) for k in r.variables.keys()))
    if t == r.MARGIN_RULE:
        return ('margin', r.margin, project_style(r.style))
    if _LENIENT[0]:
        return ('raw', 'rule', r.cssText)
    raise ProjectionError('rule type %r' % t)


_TOKKIND = {'IDENT': 'ident', 'NUMBER': 'number', 'DIMENSION': 'dimension', 'PERCENTAGE': 'percentage', 'STRING': 'string', 'HASH': 'hash',
            'CHAR': 'char', 'URI': 'uri', 'FUNCTION': 'function'}


def _cssText(v):
    return getattr(v, 'cssText', repr(v))


def _comment_text(csstext):
    if not (csstext.startswith('/*') and csstext.endswith('*/') and len(csstext) >= 4):
        raise ProjectionError('comment text %r' % csstext)
    return csstext[2:-2]


_PAGESEL = re.compile(r'^([^:\s]+)?(?::(\S+))?$')


def _page_selector(text):
    m = _PAGESEL.match(re.sub(r'/\*.*?\*/', '', text, flags=re.S).strip())
    if not m and _LENIENT[0]:
        return ('raw', 'page', text)
    if not m:
        raise ProjectionError('page selector %r' % text)
    return (m.group(1), m.group(2))


def project_style(style):
    """declaration block: properties (name, value, priority) and comments, in order"""
    out = []
    for ch in style.children():
        if hasattr(ch, 'propertyValue'):
            pr = ch.priority
            if pr not in ('', 'important'):
                if not _LENIENT[0]:
                    raise ProjectionError('priority %r' % pr)
                out.append(('decl', ch.name, project_value(ch.propertyValue), pr))
                continue
            out.append(('decl', ch.name, project_value(ch.propertyValue), pr == 'important'))
        elif ch.__class__.__name__ == 'CSSComment':
            out.append(('comment', _comment_text(ch.cssText)))
        elif _LENIENT[0]:
            out.append(('raw', ch.__class__.__name__, getattr(ch, 'cssText', None)))
        else:
            raise ProjectionError('declaration block item %r' % (ch,))
    return tuple(out)


def project_value(pv):
    """PropertyValue: components with their separators; comments between components are not part of the value"""
    return _lenient(lambda x: _project_seq(x.seq), pv, 'value', 'cssText')


def _lenient(fn, node, kind, attr):
    if not _LENIENT[0]:
        return fn(node)
    try:
        return fn(node)
    except (ProjectionError, AttributeError, IndexError, TypeError, ValueError):
        return ('raw', kind, getattr(node, attr))


def _project_seq(seq):
    out = []
    sep = None
    for it in seq:
        v = it.value
        if it.type == 'operator' or (it.type == 'CHAR' and v in (',', '/')):
            if sep not in (None, ' ') or not out:
                raise ProjectionError('operator %r without a left operand' % v)
            sep = v
            continue
        if isinstance(v, str):
            if it.type == 'S':
                continue
            raise ProjectionError('value item %r %r' % (it.type, v))
        if v.__class__.__name__ == 'CSSComment':
            continue
        out.append(((sep or ' ') if out else None, project_component(v)))
        sep = None
    if sep not in (None,):
        raise ProjectionError('trailing operator %r' % sep)
    return tuple(out)


def project_component(v):
    t = v.type
    if t == 'IDENT':
        return ('ident', v.value)
    if t == 'STRING':
        return ('string', v.value)
    if t == 'URI':
        return ('url', v.uri)
    if t == 'NUMBER':
        if v.dimension is not None:
            raise ProjectionError('number with dimension %r' % v.dimension)
        return ('number', float(v.value))
    if t == 'DIMENSION':
        return ('dimension', float(v.value), v.dimension)
    if t == 'PERCENTAGE':
        if v.dimension != '%':
            raise ProjectionError('percentage with dimension %r' % v.dimension)
        return ('percentage', float(v.value))
    if t == 'UNICODE-RANGE':
        return ('urange', v.value)
    if t == 'COLOR_VALUE':
        ct = v.colorType
        if ct == 'HASH':
            if v.alpha != 1.0:
                raise ProjectionError('hash colour with alpha %r' % v.alpha)
            return ('hash', (v.red, v.green, v.blue))
        if ct == 'IDENT':
            return ('ident', v.value)
        return _project_function(v)
    if t == 'FUNCTION':
        return _project_function(v)
    if t == 'CALC':
        items = [it for it in v.seq if it.type != 'S' and it.value.__class__.__name__ != 'CSSComment']
        if not items or not isinstance(items[0].value, str) or not isinstance(items[-1].value, str) or items[-1].value != ')':
            raise ProjectionError('calc items')
        name = items[0].value
        if name.lower().replace('\\', '') != 'calc(':
            raise ProjectionError('calc name %r' % name)
        out = []
        for it in items[1:-1]:
            out.append(it.value if isinstance(it.value, str) else project_component(it.value))
        return ('calc', tuple(out)) if name == 'calc(' else ('calc', tuple(out), name)
    if t == 'VARIABLE':
        return ('var', v.name)
    raise ProjectionError('value type %r' % t)


def _project_function(v):
    items = list(v.seq)
    if len(items) < 2 or not isinstance(items[0].value, str) or not items[0].value.endswith('(') or items[-1].value != ')':
        raise ProjectionError('function items %r' % [(i.type, i.value) for i in items])
    return ('function', items[0].value[:-1], _project_seq(items[1:-1]))


_ATTR_OPS = {'equals': '=', 'includes': '~=', 'dashmatch': '|=', 'prefixmatch': '^=', 'suffixmatch': '$=', 'substringmatch': '*='}
_COMB = {'descendant': ' ', 'child': '>', 'adjacent-sibling': '+', 'following-sibling': '~'}


def _nsval(v):
    """seq value of a namespaced name -> (uri, name) in projection form"""
    import cssutils
    uri, name = v
    if uri == cssutils._ANYNS:
        uri = ANY
    return (uri, name)


def project_selector(sel):
    """Selector -> ((combinator, (typesel, simples)), ...) from Selector.seq (comments skipped)"""
    items = [it for it in sel.seq if it.type != 'COMMENT']
    # with the comments gone, a 'descendant' item next to another combinator or at either end is white space only
    keep = []
    for k, it in enumerate(items):
        if it.type == 'descendant':
            nxt = items[k + 1].type if k + 1 < len(items) else None
            if not keep or keep[-1].type in _COMB or nxt is None or nxt in _COMB:
                continue
        keep.append(it)
    items = keep
    out = []
    comb = None
    ts = None
    simples = []
    started = False
    i = 0
    n = len(items)

    def flush():
        nonlocal ts, simples, started, comb
        if not started:
            raise ProjectionError('combinator without compound')
        out.append((comb if out else None, (ts, tuple(simples))))
        ts, simples, started = None, [], False

    def simple_at(i):
        """parse one simple selector at items[i]; returns (simple, next index)"""
        it = items[i]
        t, v = it.type, it.value
        if t == 'id':
            return ('id', v[1:]), i + 1
        if t == 'class':
            return ('class', v[1:]), i + 1
        if t == 'attribute-start':
            j = i + 1
            a = items[j]
            if a.type != 'attribute-selector':
                raise ProjectionError('attribute name %r' % a.type)
            if isinstance(a.value, tuple):
                nsu, name = _nsval(a.value)
            else:
                nsu, name = None, a.value
            j += 1
            op = val = vk = None
            if items[j].type in _ATTR_OPS:
                op = _ATTR_OPS[items[j].type]
                j += 1
                vt = items[j]
                if vt.type == 'attribute-value':
                    vk = 'ident'
                elif vt.type == 'STRING':
                    vk = 'string'
                else:
                    raise ProjectionError('attribute value %r' % vt.type)
                val = vt.value
                j += 1
            if items[j].type != 'attribute-end':
                raise ProjectionError('attribute end %r' % items[j].type)
            return ('attr', nsu, name, op, val, vk), j + 1
        if t in ('pseudo-class', 'pseudo-element'):
            colons = 2 if v.startswith('::') else 1
            name = v.lstrip(':')
            if name.endswith('('):
                j = i + 1
                toks = []
                while items[j].type != 'function-end':
                    if items[j].type != 'S':
                        toks.append((items[j].type, items[j].value))
                    j += 1
                arg = _project_pseudo_arg(toks)
                if t == 'pseudo-element':
                    return ('pelem', name[:-1], colons, arg), j + 1
                return ('pclass', name[:-1], arg), j + 1
            if t == 'pseudo-element':
                return ('pelem', name, colons), i + 1
            return ('pclass', name, None), i + 1
        if t == 'negation-start':
            j = i + 1
            a = items[j]
            if a.type in ('negation-type-selector', 'universal', 'type-selector'):
                inner = ('type', _nsval(a.value))
                j += 1
            else:
                inner, j = simple_at(j)
            if items[j].type != 'negation-end':
                raise ProjectionError('negation end %r' % items[j].type)
            return ('not', inner), j + 1
        raise ProjectionError('selector item %r %r' % (t, v))

    try:
        while i < n:
            it = items[i]
            t, v = it.type, it.value
            if t in _COMB:
                # a descendant item directly before/after another combinator or a (skipped) comment is white space only
                if t == 'descendant' and (not started or (i + 1 < n and items[i + 1].type in _COMB)):
                    i += 1
                    continue
                flush()
                comb = _COMB[t]
                i += 1
                continue
            if t in ('type-selector', 'universal'):
                if started:
                    raise ProjectionError('type selector inside compound')
                ts = _nsval(v)
                started = True
                i += 1
                continue
            s, i = simple_at(i)
            simples.append(s)
            started = True
        if started:
            flush()
        elif out or comb:
            raise ProjectionError('selector ends with a combinator')
    except IndexError:
        raise ProjectionError('selector items end early: %r' % [(x.type, x.value) for x in items])
    return tuple(out)


_ANB = re.compile(r'^([+-]?\d*)n(?:([+-])(\d+))?$')


def _project_pseudo_arg(toks):
    if len(toks) == 1 and toks[0][0] == 'STRING':
        return ('string', toks[0][1])
    text = ''.join(v for _, v in toks)
    low = text.lower()
    if re.match(r'^[+-]?\d+$', low):
        return ('anb', 0, int(low))
    m = _ANB.match(low)
    if m and (len(toks) > 1 or toks[0][0] != 'IDENT' or low in ('n', '-n')):
        a = m.group(1)
        a = {'': 1, '+': 1, '-': -1}.get(a, None) if a in ('', '+', '-') else int(a)
        b = int(m.group(3)) * (-1 if m.group(2) == '-' else 1) if m.group(3) else 0
        return ('anb', a, b)
    if len(toks) == 1 and toks[0][0] == 'IDENT':
        return ('ident', toks[0][1])
    raise ProjectionError('pseudo argument %r' % (toks,))


def project_media(ml):
    """MediaList -> ((qualifier, type, ((feature, component|None), ...)), ...)"""
    out = []
    for item in ml:
        mq = item.value if hasattr(item, 'value') and not hasattr(item, 'mediaText') else item
        out.append(_lenient(project_mediaquery, mq, 'mediaquery', 'mediaText'))
    return tuple(out)


def project_mediaquery(mq):
    qual = None
    typ = None
    feats = []
    items = [it for it in mq.seq if it.value.__class__.__name__ != 'CSSComment']
    i = 0
    n = len(items)
    expect_and = False
    try:
        while i < n:
            it = items[i]
            v = it.value
            if isinstance(v, str) and it.type == 'IDENT' or (isinstance(v, str) and it.type not in ('CHAR', 'expression', 'media_feature', 'colon', 'expression END')
                                                             and v not in '():'):
                low = v.lower().replace('\\', '')
                if low in ('only', 'not') and qual is None and typ is None and not feats:
                    qual = low
                elif low == 'and' and expect_and:
                    expect_and = False
                elif typ is None and not feats:
                    typ = v
                    expect_and = True
                else:
                    raise ProjectionError('media query item %r' % v)
                i += 1
                continue
            if v == '(':
                name = items[i + 1].value
                j = i + 2
                val = None
                if items[j].value == ':':
                    val = project_component(items[j + 1].value)
                    j += 2
                if items[j].value != ')':
                    raise ProjectionError('media feature end %r' % (items[j].value,))
                feats.append((name, val))
                expect_and = True
                i = j + 1
                continue
            raise ProjectionError('media query item %r %r' % (it.type, v))
    except IndexError:
        raise ProjectionError('media query items end early')
    return (qual, typ, tuple(feats))


def to_json(x):
    """abstract tree / projection form -> JSON-able nested lists"""
    if isinstance(x, tuple):
        return [to_json(i) for i in x]
    return x


def from_json(x):
    if isinstance(x, list):
        return tuple(from_json(i) for i in x)
    return x


# ------------------------------------------------------------------------------------------------------------------ inventories
# Every inventory entry is (kind label, abstract node).  The kind labels are what "pairwise coverage of construct kinds" refers to.

def _n(t): return ('number', t)
def _d(t, u): return ('dimension', t, u)
def _p(t): return ('percentage', t)
def _i(t): return ('ident', t)
def _s(t): return ('string', t)
def _u(t): return ('url', t)
def _fn(name, *parts): return ('function', name, V(*parts))


COMPONENTS = [
    ('ident', _i('a')), ('ident', _i('Arial')), ('ident', _i('-x-y')), ('ident', _i('_z')), ('ident', _i('red')), ('ident', _i('inherit')), ('ident', _i('é')),
    ('number', _n('0')), ('number', _n('1')), ('number', _n('-1')), ('number', _n('1.5')), ('number', _n('0.25')), ('number', _n('-0.5')), ('number', _n('10')),
    ('dimension', _d('1', 'px')), ('dimension', _d('-2.5', 'em')), ('dimension', _d('10', 'deg')), ('dimension', _d('0.5', 's')), ('dimension', _d('0', 'px')),
    ('dimension', _d('3', 'x')),
    ('percentage', _p('50')), ('percentage', _p('-10')), ('percentage', _p('12.5')),
    ('string', _s('')), ('string', _s('s')), ('string', _s('a b')), ('string', _s("it's")), ('string', _s('q"q')), ('string', _s('é;}')), ('string', _s('/*x*/')),
    ('url', _u('x.png')), ('url', _u('a b')), ('url', _u('http://h/p?q=1&r=2#f')), ('url', _u('')), ('url', _u("o'k")), ('url', _u('p(1)')),
    ('hash', ('hash', 'abc')), ('hash', ('hash', 'aabbcc')), ('hash', ('hash', 'a1b2c3')), ('hash', ('hash', '000')), ('hash', ('hash', 'fe0')),
    ('function', _fn('f')), ('function', _fn('f', _n('1'))), ('function', _fn('f', _i('a'), _i('b'))), ('function', _fn('f', _n('1'), ',', _n('2'))),
    ('function', _fn('rgb', _n('1'), ',', _n('2'), ',', _n('3'))), ('function', _fn('rgba', _n('1'), ',', _n('2'), ',', _n('3'), ',', _n('0.5'))),
    ('function', _fn('hsl', _n('120'), ',', _p('100'), ',', _p('50'))), ('function', _fn('rgb', _p('10'), ',', _p('20'), ',', _p('30'))),
    ('function', _fn('counter', _i('a'), ',', _i('b'))), ('function', _fn('attr', _i('x'))), ('function', _fn('f', _fn('g', _n('1')))),
    ('function', _fn('format', _s('woff'))), ('function', _fn('local', _i('x'))), ('function', _fn('f', _u('x'), ',', _d('1', 'px'), ('hash', 'abc'))),
    ('function', _fn('f', _i('a'), '/', _i('b'))),
    # calc() with each operator and var() as arguments of another function (depth 2), first / middle / last argument
    ('function-calc', _fn('translate', ('calc', (_p('100'), '-', _d('10', 'px'))), ',', _n('0'))),
    ('function-calc', _fn('min', _d('10', 'em'), ',', ('calc', (_p('50'), '+', _d('2', 'px'))))),
    ('function-calc', _fn('f', _i('a'), ('calc', (_d('1', 'px'), '*', _n('2'))), _i('b'))),
    ('function-calc', _fn('f', ('calc', (_d('1', 'em'), '/', _n('2'))))),
    ('function-calc', _fn('f', _fn('g', ('calc', (_d('1', 'px'), '+', _d('2', 'px'), '-', _d('3', 'px')))), ',', ('calc', (_d('1', 'px'),)))),
    ('function-var', _fn('f', ('var', 'y'))), ('function-var', _fn('min', _d('1', 'px'), ',', ('var', 'y'), ',', ('calc', (('var', 'z'), '+', _d('1', 'px'))))),
    ('var', ('var', 'y')), ('var', ('var', 'Some-Name')),
    ('calc', ('calc', (_d('1', 'px'), '+', _d('2', 'px')))), ('calc', ('calc', (_d('1', 'px'), '*', _n('2')))), ('calc', ('calc', (_p('100'), '-', _d('10', 'px')))),
    ('calc', ('calc', (_d('1', 'em'), '/', _n('2')))), ('calc', ('calc', (_d('1', 'px'), '+', _d('2', 'em'), '*', _n('3')))), ('calc', ('calc', (_d('1', 'px'),))),
    ('calc', ('calc', (_d('1', 'px'), '+', _d('-2', 'px')))),
    ('urange', ('urange', 'u+0-7f')), ('urange', ('urange', 'u+4??')), ('urange', ('urange', 'u+26')), ('urange', ('urange', 'u+a5')),
]
COMPONENT_KINDS = ['ident', 'number', 'dimension', 'percentage', 'string', 'url', 'hash', 'function', 'function-calc', 'calc', 'urange', 'var']
SEPARATORS = [' ', ',', '/']

TYPESELS = [('none', None), ('type', (None, 'a')), ('universal', (None, '*')), ('type-upper', (None, 'DIV')), ('ns-type', ('p', 'a')), ('no-ns-type', ('', 'a')),
            ('any-ns-type', ('*', 'a')), ('ns-universal', ('p', '*')), ('any-ns-universal', ('*', '*')), ('no-ns-universal', ('', '*'))]
SIMPLES = [
    ('id', ('id', 'i')), ('id', ('id', 'I-d_1')), ('class', ('class', 'c')), ('class', ('class', 'Cls-2')), ('class', ('class', 'é')),
    ('attr', ('attr', None, 'x', None, None, 'ident')), ('attr', ('attr', None, 'x', '=', 'y', 'ident')), ('attr', ('attr', None, 'x', '=', 'y z', 'string')),
    ('attr', ('attr', None, 'x', '~=', 'y', 'ident')), ('attr', ('attr', None, 'x', '|=', 'y', 'ident')), ('attr', ('attr', None, 'x', '^=', 'y', 'string')),
    ('attr', ('attr', None, 'x', '$=', 'y', 'ident')), ('attr', ('attr', None, 'x', '*=', 'y', 'string')), ('attr', ('attr', 'p', 'x', '=', 'y', 'ident')),
    ('attr', ('attr', '*', 'x', None, None, 'ident')), ('attr', ('attr', '', 'x', None, None, 'ident')), ('attr', ('attr', None, 'x', '=', ']', 'string')),
    ('pclass', ('pclass', 'hover', None)), ('pclass', ('pclass', 'first-child', None)), ('pclass', ('pclass', 'lang', ('ident', 'en'))),
    ('pclass-anb', ('pclass', 'nth-child', ('anb', 2, 1))), ('pclass-anb', ('pclass', 'nth-child', ('anb', 2, -1))), ('pclass-anb', ('pclass', 'nth-child', ('anb', 0, 3))),
    ('pclass-anb', ('pclass', 'nth-child', ('anb', 1, 0))), ('pclass-anb', ('pclass', 'nth-of-type', ('anb', -1, 3))), ('pclass-anb', ('pclass', 'nth-last-child', ('anb', 2, 0))),
    ('pclass-anb', ('pclass', 'nth-child', ('anb', -2, 3))), ('pclass', ('pclass', 'nth-child', ('ident', 'odd'))), ('pclass-anb', ('pclass', 'nth-child', ('anb', 1, 2))),
    ('not', ('not', ('class', 'e'))), ('not', ('not', ('type', (None, 'b')))), ('not', ('not', ('type', (None, '*')))), ('not', ('not', ('attr', None, 'x', '=', 'y', 'ident'))),
    ('not', ('not', ('pclass', 'hover', None))), ('not', ('not', ('id', 'j'))), ('not', ('not', ('type', ('p', 'b')))), ('not', ('not', ('pclass', 'nth-child', ('anb', 2, 1)))),
    ('pelem', ('pelem', 'after', 2)), ('pelem', ('pelem', 'before', 1)), ('pelem', ('pelem', 'first-line', 1)), ('pelem', ('pelem', 'selection', 2)),
    ('pelem', ('pelem', 'first-letter', 2)),
]
SIMPLE_KINDS = ['id', 'class', 'attr', 'pclass', 'pclass-anb', 'not', 'pelem']
COMBINATORS = [' ', '>', '+', '~']

MEDIA_QUERIES = [
    ('type', (None, 'screen', ())), ('type', (None, 'all', ())), ('type', (None, 'print', ())),
    ('only', ('only', 'screen', ())), ('not', ('not', 'print', ())),
    ('type-feature', (None, 'screen', (('min-width', _d('100', 'px')),))), ('type-feature', (None, 'screen', (('color', None),))),
    ('type-features', (None, 'tv', (('min-width', _d('1', 'em')), ('max-width', _d('2', 'em'))))),
    ('only-feature', ('only', 'screen', (('orientation', _i('landscape')),))), ('not-feature', ('not', 'handheld', (('color', _n('1')),))),
    ('feature', (None, None, (('min-width', _d('100', 'px')),))), ('features', (None, None, (('color', None), ('max-height', _d('10', 'cm'))))),
    ('feature', (None, None, (('min-resolution', _d('2', 'dppx')),))),
]

DECL_NAMES = ['color', 'margin-top', '-moz-x', 'x', 'background']
NS_P = Namespace('p', 'http://example.org/p')
NS_D = Namespace(None, 'http://example.org/d')

ENUMERATION = {
    'quick': 'sheets of <= 2 rules x <= 2 selectors x <= 2 declarations; every inventory entry alone (value components also as first / second of two); every ordered pair of construct kinds '
             '(component kinds x separator, simple-selector kinds in one compound, type-selector kind x simple kind, compound x combinator x compound, '
             'rule kind x rule kind in every order the grammar allows, media-query kinds) with one representative per kind',
    'thorough': 'the quick set plus every ordered pair of inventory ENTRIES (components x separator, simple selectors, media queries), '
                'triples of component kinds, selectors of 3 compounds, sheets of 3 rules',
}


def _rep(inv, kinds=None):
    """first entry per kind"""
    seen = {}
    for k, x in inv:
        seen.setdefault(k, x)
    return seen


def _decl1(value=None, name='color', important=False):
    return Decl(name, value if value is not None else V(_i('red')), important)


def _style1(sel=None, items=None):
    return Style([sel if sel is not None else Sel(C('a'))], items if items is not None else [_decl1()])


def _needs_ns(node):
    """set of namespace prefixes (None for 'default not needed') used by a selector tree"""
    out = set()

    def walk(x):
        if isinstance(x, tuple):
            if len(x) == 2 and x[1] is not None and isinstance(x[1], str) and x[0] not in (None, '', '*') and isinstance(x[0], str) and x[0] == 'p':
                out.add('p')
            if x and x[0] == 'attr' and x[1] == 'p':
                out.add('p')
            for y in x:
                walk(y)
    walk(node)
    return out


def _wrap_selector(sel, default_ns=False):
    rules = []
    if 'p' in _needs_ns(sel):
        rules.append(NS_P)
    if default_ns:
        rules.append(NS_D)
    rules.append(_style1(sel))
    return tuple(rules)


def enumerate_values(tier):
    """[(label, value)] - the value domain (also used on its own by C03/C18-like checks)"""
    out = []
    for k, c in COMPONENTS:
        out.append(('single:' + k, V(c)))
    rep = _rep(COMPONENTS)
    for k1, k2 in itertools.product(COMPONENT_KINDS, repeat=2):
        for sep in SEPARATORS:
            out.append(('pair:%s%s%s' % (k1, sep, k2), V(rep[k1], sep, rep[k2])))
    # every inventory entry as second component (after an identifier) and as first component (before one)
    for k, c in COMPONENTS:
        out.append(('second:' + k, V(_i('a'), c)))
        out.append(('first:' + k, V(c, _i('b'))))
    if tier == 'thorough':
        for (k1, c1), (k2, c2) in itertools.product(COMPONENTS, repeat=2):
            for sep in SEPARATORS:
                out.append(('pairx:%s%s%s' % (k1, sep, k2), V(c1, sep, c2)))
        for k1, k2, k3 in itertools.product([k for k in COMPONENT_KINDS if k not in ('function-calc', 'var')], repeat=3):
            for s1, s2 in itertools.product(SEPARATORS, repeat=2):
                out.append(('triple:%s%s%s%s%s' % (k1, s1, k2, s2, k3), V(rep[k1], s1, rep[k2], s2, rep[k3])))
    else:
        # separators mix in a list of three
        for s1, s2 in itertools.product(SEPARATORS, repeat=2):
            out.append(('triple:ident%sdimension%shash' % (s1, s2), V(rep['ident'], s1, rep['dimension'], s2, rep['hash'])))
    return out


def enumerate_selectors(tier):
    """[(label, selector)]"""
    out = []
    reps = _rep(SIMPLES)
    # every simple alone and on a type selector
    for k, s in SIMPLES:
        out.append(('simple:' + k, Sel((None, (s,)))))
        out.append(('type+simple:' + k, Sel(((None, 'a'), (s,)))))
    # every type selector form alone and with each simple kind
    for tk, ts in TYPESELS:
        if ts is not None:
            out.append(('typesel:' + tk, Sel((ts, ()))))
        for k in SIMPLE_KINDS:
            out.append(('typesel+simple:%s+%s' % (tk, k), Sel((ts, (reps[k],)))))
    # ordered pairs of simple kinds in one compound (a pseudo-element is last)
    pairs = itertools.product(SIMPLES, repeat=2) if tier == 'thorough' else ((('%s' % k1, reps[k1]), ('%s' % k2, reps[k2])) for k1, k2 in itertools.product(SIMPLE_KINDS, repeat=2))
    for (k1, s1), (k2, s2) in pairs:
        if k1 == 'pelem':
            continue
        out.append(('compound:%s,%s' % (k1, k2), Sel((None, (s1, s2)))))
    # compound x combinator x compound
    comp_reps = [('type', C('a')), ('class', C(None, ('class', 'c'))), ('type+id', C('b', ('id', 'i'))), ('attr', C(None, ('attr', None, 'x', '=', 'y', 'ident'))),
                 ('pclass-anb', C('a', ('pclass', 'hover', None), ('pclass', 'nth-child', ('anb', 2, 1)))), ('not', C('*', ('not', ('class', 'e')))),
                 ('ns-type', C(('p', 'a')))]
    last_only = [('pelem', C('a', ('pelem', 'after', 2)))]
    for (k1, c1), comb, (k2, c2) in itertools.product(comp_reps, COMBINATORS, comp_reps + last_only):
        out.append(('combine:%s%s%s' % (k1, comb, k2), Sel(c1, comb, c2)))
    if tier == 'thorough':
        small = comp_reps[:4] + comp_reps[5:6]
        for (k1, c1), b1, (k2, c2), b2, (k3, c3) in itertools.product(small, COMBINATORS, small, COMBINATORS, small + last_only):
            out.append(('combine3:%s%s%s%s%s' % (k1, b1, k2, b2, k3), Sel(c1, b1, c2, b2, c3)))
    else:
        for b1, b2 in itertools.product(COMBINATORS, repeat=2):
            out.append(('combine3:%s%s' % (b1, b2), Sel(C('a'), b1, C(None, ('class', 'c')), b2, C('b', ('pelem', 'after', 2)))))
    return out


SAME_TYPE_MEDIA = [
    # MediaList removes duplicates of SIMPLE media types only (C17): queries of one media type that differ in their features, or in only/not, all stay
    ('same-type', ((None, 'screen', (('color', None),)), (None, 'screen', (('min-width', _d('100', 'px')),)))),
    ('same-type', ((None, 'screen', (('min-width', _d('100', 'px')),)), (None, 'screen', (('min-width', _d('200', 'px')),)), (None, 'screen', (('color', None), ('max-width', _d('1', 'em')))))),
    ('same-type', ((None, 'tv', (('color', None),)), (None, 'tv', (('monochrome', None),)), (None, 'print', ()))),
    ('same-type', ((None, 'print', ()), (None, 'tv', (('color', None),)), (None, 'tv', (('monochrome', None),)))),
    ('same-type-qualifier', (('not', 'screen', ()), ('only', 'screen', ()), (None, 'screen', (('color', None),)))),
    ('same-type-qualifier', ((None, 'screen', ()), ('only', 'screen', (('color', None),)), ('not', 'screen', (('color', None),)))),
    ('all-feature', ((None, 'all', (('color', None),)), (None, 'print', ()))),
    ('all-feature', ((None, 'print', ()), (None, 'all', (('min-width', _d('100', 'px')),)), (None, 'screen', ()))),
    ('all-feature', ((None, 'all', (('color', None),)), (None, 'all', (('monochrome', None),)))),
    ('all-feature', (('only', 'all', ()), (None, 'print', ()))),
]


def enumerate_media(tier):
    """[(label, media list)]: lists of distinct SIMPLE media types ('all' alone only alone: MediaList canonicalises those, C17), plus lists whose
    queries share a media type but are not simple (features, only/not) - those must all be kept"""
    out = []
    for k, q in MEDIA_QUERIES:
        out.append(('mq:' + k, (q,)))
    for k, m in SAME_TYPE_MEDIA:
        out.append(('mqsame:' + k, m))
    qs = [(k, q) for k, q in MEDIA_QUERIES if q[1] != 'all']
    seen = set()
    for (k1, q1), (k2, q2) in itertools.product(qs, repeat=2):
        if q1[1] is not None and q1[1] == q2[1]:
            continue
        if tier != 'thorough' and (k1, k2) in seen:
            continue
        seen.add((k1, k2))
        out.append(('mq2:%s,%s' % (k1, k2), (q1, q2)))
    out.append(('mq3', (MEDIA_QUERIES[0][1], MEDIA_QUERIES[4][1], MEDIA_QUERIES[10][1])))
    return out


def _rule_variants(tier):
    """[(kind, rule, prerequisites)] every rule kind with its variants"""
    D = _decl1()
    mq = ((None, 'screen', ()),)
    mqf = ((None, 'screen', (('min-width', _d('100', 'px')),)), (None, 'print', ()))
    out = [
        ('charset', Charset('utf-8')), ('charset', Charset('iso-8859-1')),
        ('import', Import('a.css')), ('import', Import('a.css', mq)), ('import', Import('b c.css', mqf)), ('import', Import('a.css', (), 'nm')),
        ('import', Import('a.css', mq, 'nm')), ('import', Import('http://h/x.css?a=1', ())),
        ('namespace', NS_P), ('namespace', NS_D), ('namespace', Namespace('q', '')),
        ('comment', Comment('c')), ('comment', Comment('')), ('comment', Comment(' a * / b\n')), ('comment', Comment('*')), ('comment', Comment('{;}')),
        ('style', _style1()), ('style', Style([Sel(C('a')), Sel(C('b'))], [D, _decl1(V(_d('1', 'px')), 'margin-top')])),
        ('style', Style([Sel(C('a'))], [])), ('style', Style([Sel(C('a'))], [Comment('x')])),
        ('style', Style([Sel(C('a'))], [Comment('x'), D])), ('style', Style([Sel(C('a'))], [D, Comment('x')])),
        ('style', Style([Sel(C('a'))], [D, Comment('x'), _decl1(V(_i('blue')))])), ('style', Style([Sel(C('a'))], [D, _decl1(V(_i('blue')), 'color', True)])),
        ('style', Style([Sel(C('a'))], [_decl1(None, 'color', True), _decl1(V(_n('0')), '-moz-x')])),
        ('media', Media(mq, [_style1()])), ('media', Media(mqf, [_style1(), _style1(Sel(C('b')))])), ('media', Media(mq, [])),
        ('media', Media(mq, [Comment('m'), _style1()])), ('media', Media(mq, [_style1(), Comment('m')])),
        ('media-nested', Media(mq, [Media(((None, 'print', ()),), [_style1()])])), ('media-nested', Media(mq, [_style1(), Media(mqf, [_style1(Sel(C('b')))]), _style1(Sel(C('c')))])),
        ('media', Media(mq, [('page', (None, None), (D,), ())])), ('media', Media(mq, [Unknown('@foo', [('ident', 'x'), ('char', ';')])])),
        ('page', Page((None, None), [D])), ('page', Page((None, 'first'), [D])), ('page', Page(('nm', None), [D])), ('page', Page(('nm', 'left'), [D])),
        ('page', Page((None, 'right'), [])), ('page', Page((None, None), [D, Comment('x')])),
        ('page-margin', Page((None, 'first'), [D], [Margin('@top-left', [_decl1(V(_s('x')), 'content')])])),
        ('page-margin', Page((None, None), [], [Margin('@bottom-center', [D])])),
        ('page-margin', Page((None, None), [D], [Margin('@top-left', [D]), Margin('@right-middle', [D, _decl1(V(_n('1')), 'x')])])),
        ('page-margin', Page((None, None), [D], [Margin('@top-left-corner', [])])),
        ('fontface', FontFace([_decl1(V(_i('x')), 'font-family'), _decl1(V(_u('y'), _fn('format', _s('woff')), ',', _fn('local', _i('z'))), 'src')])),
        ('fontface', FontFace([_decl1(V(('urange', 'u+0-7f'), ',', ('urange', 'u+4??')), 'unicode-range')])), ('fontface', FontFace([])),
        ('unknown', Unknown('@foo', [('ident', 'bar'), ('char', ';')])), ('unknown', Unknown('@foo', [('char', ';')])),
        ('unknown', Unknown('@foo', [('ident', 'bar'), ('char', '{'), ('ident', 'baz'), ('char', '}')])),
        ('unknown', Unknown('@x-y', [('string', 's'), ('dimension', '1px'), ('char', '{'), ('ident', 'a'), ('char', ':'), ('number', '1'), ('char', ';'), ('char', '{'), ('ident', 'b'), ('char', '}'), ('char', '}')])),
        ('unknown', Unknown('@foo', [('char', '{'), ('char', '}')])),
        ('unknown', Unknown('@keyframes', [('ident', 'k'), ('char', '{'), ('ident', 'from'), ('char', '{'), ('ident', 'left'), ('char', ':'), ('number', '0'), ('char', '}'),
                                           ('percentage', '50%'), ('char', '{'), ('ident', 'left'), ('char', ':'), ('dimension', '1px'), ('char', '}'), ('char', '}')])),
    ]
    return out


_ORDER = {'charset': 0, 'import': 1, 'namespace': 2}


def _valid_sequence(rules):
    """the grammar's order: @charset first and once, then @import, then @namespace, then the rest; comments anywhere after @charset"""
    level = -1
    for i, r in enumerate(rules):
        k = r[0]
        if k == 'comment':
            if level < 0:
                level = 0.5
            continue
        o = _ORDER.get(k, 3)
        if k == 'charset' and i != 0:
            return False
        if o < level:
            return False
        level = o
    prefixes = [r[1] for r in rules if r[0] == 'namespace']
    return len(prefixes) == len(set(prefixes))


def enumerate_sheets(tier='quick', seed=0):
    """list of (label, abstract sheet); deterministic; see ENUMERATION[tier] for the bound"""
    out = []
    # values
    for label, v in enumerate_values(tier):
        out.append(('value/' + label, (_style1(None, [_decl1(v, 'x')]),)))
    # declarations: names, priority, two declarations
    for name in DECL_NAMES:
        for imp in (False, True):
            out.append(('decl/%s/%s' % (name, imp), (_style1(None, [Decl(name, V(_i('a'), _d('1', 'px')), imp)]),)))
    rep = _rep(COMPONENTS)
    for k1, k2 in itertools.product(COMPONENT_KINDS, repeat=2):
        out.append(('decl2/%s;%s' % (k1, k2), (_style1(None, [Decl('x', V(rep[k1])), Decl('y', V(rep[k2]), True)]),)))
    # selectors
    for label, s in enumerate_selectors(tier):
        out.append(('selector/' + label, _wrap_selector(s)))
    sels = enumerate_selectors('quick')
    # default namespace resolution on the type selector forms
    for tk, ts in TYPESELS:
        if ts is not None:
            out.append(('selector-defaultns/' + tk, _wrap_selector(Sel((ts, ())), default_ns=True)))
    out.append(('selector-defaultns/attr', _wrap_selector(Sel((None, (('attr', None, 'x', None, None, 'ident'),))), default_ns=True)))
    out.append(('selector-defaultns/not-type', _wrap_selector(Sel((None, (('not', ('type', (None, 'b'))),))), default_ns=True)))
    # selector lists of two: pairwise over representatives
    lrep = [Sel(C('a')), Sel(C(None, ('class', 'c'))), Sel(C('a'), '>', C('b')), Sel(C(None, ('attr', None, 'x', '=', 'y,z', 'string'))), Sel(C('a', ('pelem', 'after', 2))),
            Sel(C(None, ('pclass', 'nth-child', ('anb', 2, 1)))), Sel(C(None, ('not', ('class', 'e')))), Sel(C('*')), Sel(C(None, ('id', 'i')), ' ', C('b'))]
    for s1, s2 in itertools.product(lrep, repeat=2):
        out.append(('selectorlist/2', (Style([s1, s2], [_decl1()]),)))
    out.append(('selectorlist/3', (Style(lrep[:3], [_decl1()]),)))
    # media lists (on @media and on @import)
    nimp = 0
    for label, m in enumerate_media(tier):
        out.append(('media/' + label, (Media(m, [_style1()]),)))
        if label.startswith('mqsame'):
            out.append(('media-nested/' + label, (Media(((None, 'print', ()),), [Media(m, [_style1()])]),)))
        if tier == 'thorough' or not label.startswith('mq2') or nimp < 12:
            out.append(('import-media/' + label, (Import('a.css', m),)))
            nimp += label.startswith('mq2')
    # rules: every variant alone, every ordered pair of kinds the grammar allows (one representative per kind), and with all variants in thorough
    variants = _rule_variants(tier)
    for k, r in variants:
        out.append(('rule/' + k, (r,)))
    if tier == 'thorough':
        pairs = itertools.product(variants, repeat=2)
    else:
        reps = list(_rep(variants).items())
        pairs = itertools.chain(itertools.product(reps, repeat=2), ((a, b) for a in variants for b in reps if a[0] in ('comment', 'style', 'unknown')),
                                ((b, a) for a in variants for b in reps if a[0] in ('comment', 'style', 'unknown')))
    seen = set()
    for (k1, r1), (k2, r2) in pairs:
        sh = (r1, r2)
        if sh in seen or not _valid_sequence(sh):
            continue
        seen.add(sh)
        out.append(('rules2/%s,%s' % (k1, k2), sh))
    # full-inventory sheet(s)
    full = (Charset('utf-8'), Comment('top'), Import('a.css', ((None, 'screen', ()),)), NS_P, NS_D,
            Style([Sel(C(('p', 'a')), '>', C('b', ('class', 'c'), ('id', 'd'), ('attr', None, 'x', '=', 'y', 'ident'), ('pclass', 'hover', None), ('pelem', 'after', 2))),
                   Sel(C('*', ('not', ('class', 'e')), ('pclass', 'nth-child', ('anb', 2, 1))))],
                  [Decl('color', V(_i('red')), True), Comment('x'), Decl('margin', V(_d('1', 'px'), _d('2', 'em'), '/', _p('3'))),
                   Decl('background', V(_u('x.png'), _s('s'), ('hash', 'abc'), _fn('rgb', _n('1'), ',', _n('2'), ',', _n('3')), ('calc', (_d('1', 'px'), '+', _d('2', 'px'))),
                                        ',', _fn('f', _n('1'), ',', _n('2'))))]),
            Media(((None, 'screen', (('min-width', _d('100', 'px')),)), (None, 'print', ())),
                  [_style1(), Media(((None, 'print', ()),), [_style1(Sel(C('b')))])]),
            Page((None, 'first'), [_decl1(V(_d('1', 'cm')), 'margin')], [Margin('@top-left', [_decl1(V(_s('x')), 'content')])]),
            FontFace([_decl1(V(_i('x')), 'font-family'), _decl1(V(_u('y')), 'src'), _decl1(V(('urange', 'u+0-7f')), 'unicode-range')]),
            Unknown('@foo', [('ident', 'bar'), ('char', '{'), ('ident', 'baz'), ('char', '}')]), Comment('end'))
    out.append(('full', full))
    if tier == 'thorough':
        reps = list(_rep(variants).items())
        for (k1, r1), (k2, r2), (k3, r3) in itertools.product(reps, repeat=3):
            sh = (r1, r2, r3)
            if _valid_sequence(sh):
                out.append(('rules3/%s,%s,%s' % (k1, k2, k3), sh))
    # deduplicate, keep first label
    seen = set()
    res = []
    for label, sh in out:
        if sh in seen:
            continue
        seen.add(sh)
        res.append((label, sh))
    return res


# -------------------------------------------------------------------------------------------------------------------- spellings

_FIELDS = {
    'ws': ['space', 'none', 'tab', 'lf', 'crlf', 'ff', 'alt0', 'alt1', 'mix'],
    'comments': ['none', 'all', 'some'],
    'case': ['lower', 'upper', 'mixed'],
    'quote': ['"', "'"],
    'urlquote': [None, '"', "'"],
    'escape': [None, 'simple', 'hex', 'hex6', 'hexcrlf'],
    'escape_pos': ['mid', 'first', 'last'],
    'lastsemi': [False, True],
    'num': ['plain', 'padded', 'bare', 'plus'],
    'importurl': [False, True],
}


def spellings(tier='quick', seed=0, level='full'):
    """list of Spelling.
    level 'core': the default, every single-field variation, then a pairwise covering array over the fields (quick) or the full product
    over coarse field values (thorough).  level 'full' adds the restricted variations: case, escape and comments applied to each single
    part (CASE_PARTS, ESCAPE_PARTS, COMMENT_PARTS) - the form in which a spelling-dependent defect shows with its sharpest class."""
    out = [DEFAULT]
    for f, vals in _FIELDS.items():
        for v in vals[1:]:
            if f == 'escape_pos':
                for e in ('simple', 'hex'):
                    out.append(dataclasses.replace(DEFAULT, escape=e, escape_pos=v))
                continue
            out.append(dataclasses.replace(DEFAULT, **{f: v}))
    if level == 'full':
        for part in CASE_PARTS:
            for c in ('upper', 'mixed'):
                out.append(dataclasses.replace(DEFAULT, case=c, case_parts=(part,)))
        for part in ESCAPE_PARTS:
            for e in _FIELDS['escape'][1:]:
                out.append(dataclasses.replace(DEFAULT, escape=e, escape_parts=(part,)))
        for part in COMMENT_PARTS:
            out.append(dataclasses.replace(DEFAULT, comments='all', comment_parts=(part,)))
            out.append(dataclasses.replace(DEFAULT, comments='all', comment_parts=(part,), ws='none'))
    names = list(_FIELDS)
    if tier == 'thorough':
        coarse = {'ws': ['space', 'none', 'lf', 'alt0', 'mix'], 'comments': ['none', 'all'], 'case': ['lower', 'upper', 'mixed'], 'quote': ['"', "'"], 'urlquote': [None, "'"],
                  'escape': [None, 'simple', 'hex', 'hexcrlf'], 'escape_pos': ['mid', 'first'], 'lastsemi': [False, True], 'num': ['plain', 'padded'], 'importurl': [False, True]}
        for i, combo in enumerate(itertools.product(*[coarse[n] for n in names])):
            out.append(Spelling(seed=seed + i, **dict(zip(names, combo))))
    else:
        coarse = dict(_FIELDS, ws=['space', 'none', 'lf', 'crlf', 'alt0', 'alt1', 'mix'], escape=[None, 'simple', 'hex', 'hexcrlf'], num=['plain', 'padded', 'bare'])
        for i, row in enumerate(pairwise_rows([coarse[n] for n in names], seed)):
            out.append(Spelling(seed=seed + i, **dict(zip(names, row))))
    seen = set()
    res = []
    for s in out:
        if s not in seen:
            seen.add(s)
            res.append(s)
    return res


def pairwise_rows(domains, seed=0):
    """greedy covering array of strength 2: rows over the given value lists such that every pair of values of two different columns occurs"""
    rnd = random.Random(seed)
    k = len(domains)
    uncovered = set()
    for i, j in itertools.combinations(range(k), 2):
        for a in range(len(domains[i])):
            for b in range(len(domains[j])):
                uncovered.add((i, a, j, b))
    rows = []
    while uncovered:
        best = None
        best_gain = -1
        for _ in range(40):
            # seed a candidate with one uncovered pair, fill the rest greedily at random
            i, a, j, b = rnd.choice(sorted(uncovered)) if len(uncovered) < 50 else next(iter(sorted(uncovered)[rnd.randrange(len(uncovered)):]))
            row = [rnd.randrange(len(d)) for d in domains]
            row[i], row[j] = a, b
            gain = sum(1 for (p, x, q, y) in uncovered if row[p] == x and row[q] == y)
            if gain > best_gain:
                best, best_gain = row, gain
        rows.append(best)
        uncovered = {(p, x, q, y) for (p, x, q, y) in uncovered if not (best[p] == x and best[q] == y)}
    return [[d[i] for d, i in zip(domains, row)] for row in rows]


def real_sheets(repo=None):
    """paths of the real-world style sheets shipped with the repository (sorted)"""
    import glob
    import os
    repo = repo or os.environ.get('VERIF_REPO', '/repo')
    return sorted(p for p in glob.glob(os.path.join(repo, 'sheets', '**', '*.css'), recursive=True))
