"""C10 bounded stand-in: the real CSSStyleDeclaration / CSSVariablesDeclaration run in lock-step with a small independent
reference model (ordered list of (literal name, value, priority) entries with the semantics of the property statement) over ALL
operation sequences up to a length bound from a fixed pool; the DOM-name mapping over EVERY known property name (finite, complete).

The model never looks at cssutils internals: names are normalised through a table that is known by construction (the pool fixes the
spellings), values are canonical fixpoints of the value serialiser (checked once up front), priorities are '' or 'important'."""
import itertools
import logging
import multiprocessing
import re

# ----------------------------------------------------------------------------------------------------------------------------
# names: spelling -> normalised name, known by construction (case folded, backslash before a non-hex letter dropped)
NORM = {'color': 'color', 'COLOR': 'color', 'c\\olor': 'color', 'C\\OLOR': 'color', 'Color': 'color',
        'left': 'left', 'LEFT': 'left', 'background-color': 'background-color', 'top': 'top'}
PROBE_NAMES = ['color', 'COLOR', 'c\\olor', 'C\\OLOR', 'left', 'LEFT', 'background-color', 'top']
DOM_OF = {'color': 'color', 'left': 'left', 'backgroundColor': 'background-color'}
VALUES = ['red', '1px', '#fff', 'url(x)', '"s"', 'rgb(1, 2, 3)', '50%', '1px solid red', '-2.5em', 'a, b', 'f(1)', 'blue', '0']


def lit(spelling):
    """the literal name of an entry: the spelling as written, escapes kept; letter case is not significant in CSS names and
    both sides are compared case-folded so that the oracle does not demand a particular case"""
    return spelling.lower()


def prio_of(p):
    """'' / important / !important in any case -> '' or 'important'"""
    if not p:
        return ''
    p = p.strip()
    if p.startswith('!'):
        p = p[1:].strip()
    assert p.lower() == 'important'
    return 'important'


KNOWN_LITERAL_UPDATE = 'C10-literal-update-not-effective'


class Model:
    """ordered list of entries ['p', literal name, value, priority] and ['c', comment text]"""

    def __init__(self):
        self.e = []
        self.hit = None  # id of a recorded finding whose input class the last operation fell into

    # ---- views
    def props(self):
        return [x for x in self.e if x[0] == 'p']

    def effective(self, nname):
        found = None
        for x in self.props():
            if NORM[x[1]] == nname and x[3]:
                found = x
        if found is None:
            for x in self.props():
                if NORM[x[1]] == nname:
                    found = x
        return found

    def effective_literal(self, literal):
        found = None
        for x in self.props():
            if x[1] == literal and x[3]:
                found = x
        if found is None:
            for x in self.props():
                if x[1] == literal:
                    found = x
        return found

    def names(self):
        """distinct normalised names, ordered by last occurrence"""
        out = []
        for x in reversed(self.props()):
            n = NORM[x[1]]
            if n not in out:
                out.append(n)
        return list(reversed(out))

    def text(self):
        parts = []
        for x in self.e:
            if x[0] == 'c':
                parts.append(x[1])
            else:
                parts.append(f'{x[1]}: {x[2]}' + (' !important' if x[3] else '') + ';')
        return ' '.join(parts)

    # ---- operations
    def set(self, spelling, value, prio, normalize=True, replace=True):
        if not value:
            return self.remove(spelling)
        prio = prio_of(prio)
        if replace:
            e = self.effective(NORM[spelling]) if normalize else self.effective_literal(spelling)
            if not normalize and e is not None and e is not [x for x in self.props() if x[1] == spelling][-1]:
                # class of C10-literal-update-not-effective: the effective entry of the literal name is not its last entry
                self.hit = KNOWN_LITERAL_UPDATE
            if e is not None:
                e[2] = value
                e[3] = prio
                return None
        self.e.append(['p', lit(spelling), value, prio])
        return None

    def remove(self, spelling, normalize=True):
        if normalize:
            e = self.effective(NORM[spelling])
            self.e = [x for x in self.e if not (x[0] == 'p' and NORM[x[1]] == NORM[spelling])]
        else:
            e = self.effective_literal(spelling)
            self.e = [x for x in self.e if not (x[0] == 'p' and x[1] == spelling)]
        return e[2] if e is not None else ''


TEXTS = [
    ('', []),
    ('color: red; COLOR: blue !important; left: 0',
     [['p', 'color', 'red', ''], ['p', 'color', 'blue', 'important'], ['p', 'left', '0', '']]),
    ('c\\olor: a; /*c*/ color: b !IMPORTANT; C\\OLOR: c',
     [['p', 'c\\olor', 'a', ''], ['c', '/*c*/'], ['p', 'color', 'b', 'important'], ['p', 'c\\olor', 'c', '']]),
    ('left: 1px ! important; top: 2px; LEFT: 3px;',
     [['p', 'left', '1px', 'important'], ['p', 'top', '2px', ''], ['p', 'left', '3px', '']]),
]


def style_pool():
    P = []
    for n in ('color', 'COLOR', 'c\\olor', 'left'):
        for p in ('', 'important', '!IMPORTANT'):
            P.append(('set', n, p, True, True))
    P.append(('set', 'C\\OLOR', '!important', True, True))
    P.append(('set', 'color', 'Important', True, True))
    for n in ('color', 'C\\OLOR', 'left'):
        for p in ('', '!important'):
            P.append(('set', n, p, True, False))
    for n in ('color', 'c\\olor'):
        for p in ('', 'important'):
            P.append(('set', n, p, False, True))
    P.append(('set', 'c\\olor', '', False, False))
    P.append(('setnone', 'color', ''))
    P.append(('setnone', 'COLOR', None))
    P.append(('setprop', 'COLOR', 'important'))
    P.append(('setprop', 'left', ''))
    for n in ('color', 'COLOR', 'c\\olor', 'left', 'top'):
        P.append(('rm', n, True))
    for n in ('color', 'c\\olor'):
        P.append(('rm', n, False))
    P.append(('setitem', 'c\\olor', None))
    P.append(('setitem', 'COLOR', 'important'))
    P.append(('setitem', 'left', None))
    P.append(('delitem', 'C\\OLOR'))
    P.append(('delitem', 'left'))
    for d in ('color', 'left', 'backgroundColor'):
        P.append(('setattr', d))
    for d in ('color', 'backgroundColor'):
        P.append(('delattr', d))
    for i in range(len(TEXTS)):
        P.append(('text', i))
    P.append(('addtext', 'color', ''))
    P.append(('addtext', 'COLOR', '!important'))
    P.append(('addtext', 'c\\olor', ''))
    P.append(('addtext', 'left', '! IMPORTANT'))
    P.append(('bad', 'color'))
    return P


# the core pool of the deeper run: one representative per (operation kind, name class, priority class)
def style_core_pool():
    keep = []
    for op in style_pool():
        k = op[0]
        if k == 'set' and op[3] and op[4] and op[1] in ('color', 'COLOR', 'left') and op[2] in ('', 'important'):
            keep.append(op)
        elif k == 'set' and op[3] and op[4] and op[1] == 'c\\olor' and op[2] == '!IMPORTANT':
            keep.append(op)
        elif k == 'set' and op[3] and not op[4] and op[1] in ('color', 'C\\OLOR'):
            keep.append(op)
        elif k == 'set' and not op[3] and op[4]:
            keep.append(op)
        elif k == 'rm' and op[1] in ('COLOR', 'left') and op[2]:
            keep.append(op)
        elif k == 'rm' and not op[2] and op[1] == 'c\\olor':
            keep.append(op)
        elif k in ('setitem',) and op[1] != 'left':
            keep.append(op)
        elif k == 'delitem' and op[1] == 'C\\OLOR':
            keep.append(op)
        elif k in ('setattr', 'delattr') and op[1] == 'color':
            keep.append(op)
        elif k == 'text' and op[1] in (1, 2):
            keep.append(op)
        elif k == 'addtext' and op[1] in ('COLOR', 'c\\olor'):
            keep.append(op)
        elif k == 'setprop' and op[1] == 'COLOR':
            keep.append(op)
    return keep


def _quiet():
    import cssutils
    cssutils.log.setLevel(logging.FATAL)
    cssutils.log.raiseExceptions = True
    cssutils.ser.prefs.useDefaults()
    return cssutils


def value_at(pool_index, step):
    return VALUES[(pool_index + 5 * step) % len(VALUES)]


def apply_style(style, model, op, value, css):
    """apply one operation to both sides; returns (real result, model result, rejected) for operations that return something"""
    import xml.dom
    k = op[0]
    real = want = None
    try:
        if k == 'set':
            _, n, p, normalize, replace = op
            want = model.set(n, value, p, normalize, replace)
            real = style.setProperty(n, value, p, normalize=normalize, replace=replace)
        elif k == 'setnone':
            want = model.remove(op[1])
            real = style.setProperty(op[1], op[2])
        elif k == 'setprop':
            want = model.set(op[1], value, op[2])
            real = style.setProperty(css.Property(op[1], value, op[2]))
        elif k == 'rm':
            want = model.remove(op[1], op[2])
            real = style.removeProperty(op[1], normalize=op[2])
        elif k == 'setitem':
            want = model.set(op[1], value, op[2] or '')
            if op[2] is None:
                style[op[1]] = value
            else:
                style[op[1]] = (value, op[2])
        elif k == 'delitem':
            model.remove(op[1])
            del style[op[1]]
        elif k == 'setattr':
            model.set(DOM_OF[op[1]], value, '')
            setattr(style, op[1], value)
        elif k == 'delattr':
            model.remove(DOM_OF[op[1]])
            delattr(style, op[1])
        elif k == 'text':
            model.e = [list(x) for x in TEXTS[op[1]][1]]
            style.cssText = TEXTS[op[1]][0]
        elif k == 'addtext':
            text = model.text() + ' ' + f'{op[1]}: {value}' + (' ' + op[2] if op[2] else '')
            model.e.append(['p', lit(op[1]), value, prio_of(op[2])])
            style.cssText = text
        elif k == 'bad':
            # a rejected set changes nothing (the value is not parsable)
            try:
                style.setProperty(op[1], '(')
            except xml.dom.DOMException:
                pass
        else:
            raise AssertionError(op)
    except xml.dom.DOMException as e:
        return ('<%s>' % type(e).__name__, want, True)
    return (real, want, False)


def parse_decl_text(text):
    """independent reader for the serialised block (default preferences: one item per line)"""
    items = []
    for line in text.split('\n'):
        line = line.strip()
        if not line:
            continue
        if line.startswith('/*'):
            items.append(('c', line))
            continue
        if line.endswith(';'):
            line = line[:-1]
        name, _, rest = line.partition(':')
        rest = rest.strip()
        prio = ''
        m = re.search(r'\s*!\s*important$', rest, re.I)
        if m:
            prio = 'important'
            rest = rest[:m.start()]
        items.append(('p', name.strip().lower(), rest, prio))
    return items


def observe_style(style, model, cssutils):
    """every observation named by the property, compared with the model; returns [(clause, detail)]"""
    bad = []
    props = model.props()
    got_all = [(p.literalname.lower(), p.name, p.value, p.priority) for p in style.getProperties(all=True)]
    want_all = [(x[1], NORM[x[1]], x[2], x[3]) for x in props]
    if got_all != want_all:
        bad.append(('bounded: getProperties(all=True) is the ordered entry list of the model', f'got {got_all!r} want {want_all!r}'))
    names = model.names()
    for sp in PROBE_NAMES:
        e = model.effective(NORM[sp])
        wv, wp = (e[2], e[3]) if e is not None else ('', '')
        gv, gp = style.getPropertyValue(sp), style.getPropertyPriority(sp)
        if (gv, gp) != (wv, wp):
            bad.append(('bounded: getPropertyValue/Priority give the effective entry (last !important, else last)',
                        f'name {sp!r}: got {(gv, gp)!r} want {(wv, wp)!r}'))
        if (sp in style) != (NORM[sp] in names):
            bad.append(('bounded: membership enumerates the distinct normalised names', f'{sp!r} in style = {sp in style}, names {names!r}'))
        if style[sp] != wv:
            bad.append(('bounded: style[name] gives the effective value', f'name {sp!r}: got {style[sp]!r} want {wv!r}'))
        ga = [(p.literalname.lower(), p.value, p.priority) for p in style.getProperties(sp, all=True)]
        wa = [(x[1], x[2], x[3]) for x in props if NORM[x[1]] == NORM[sp]]
        if ga != wa:
            bad.append(('bounded: getProperties(name, all=True) lists every entry of the name', f'name {sp!r}: got {ga!r} want {wa!r}'))
    for sp in ('color', 'c\\olor', 'left'):
        e = model.effective_literal(sp)
        wv = e[2] if e is not None else ''
        gv = style.getPropertyValue(sp, normalize=False)
        if gv != wv:
            bad.append(('bounded: getPropertyValue(normalize=False) gives the effective entry of the literal name', f'name {sp!r}: got {gv!r} want {wv!r}'))
    for dom, cssname in DOM_OF.items():
        e = model.effective(cssname)
        wv = e[2] if e is not None else ''
        if getattr(style, dom) != wv:
            bad.append(('bounded: attribute-style read equals access by CSS name', f'style.{dom} = {getattr(style, dom)!r} want {wv!r}'))
    if style.length != len(names):
        bad.append(('bounded: length counts the distinct normalised names', f'length {style.length} names {names!r}'))
    if set(style.keys()) != set(names) or len(style.keys()) != len(names):
        bad.append(('bounded: keys() enumerates exactly the distinct normalised names', f'keys {style.keys()!r} names {names!r}'))
    elif list(style.keys()) != names:
        bad.append(('bounded: keys() orders the names by last occurrence', f'keys {style.keys()!r} names {names!r}'))
    items = [style.item(i) for i in range(len(names))]
    if items != list(style.keys()) or style.item(len(names)) != '' or (names and style.item(-1) != list(style.keys())[-1]):
        bad.append(('bounded: item(i) indexes the same names as keys(), empty string beyond the end',
                    f'items {items!r} item(len)={style.item(len(names))!r} keys {style.keys()!r}'))
    it = [(p.name, p.value, p.priority) for p in style]
    wit = [(n, model.effective(n)[2], model.effective(n)[3]) for n in names]
    if sorted(it) != sorted(wit):
        bad.append(('bounded: iteration yields the effective entry of every distinct name', f'got {it!r} want {wit!r}'))
    elif it != wit:
        bad.append(('bounded: iteration orders the names by last occurrence', f'got {it!r} want {wit!r}'))
    eff = [(p.name, p.value, p.priority) for p in style.getProperties()]
    if eff != it:
        bad.append(('bounded: getProperties() equals iteration', f'got {eff!r} iteration {it!r}'))
    # serialisation: all entries (default), effective entries only (keepAllProperties off)
    text = style.cssText
    got = [(x[0], NORM.get(x[1], x[1]), x[2], x[3]) if x[0] == 'p' else x for x in parse_decl_text(text)]
    want = [('p', NORM[x[1]], x[2], x[3]) if x[0] == 'p' else ('c', x[1]) for x in model.e]
    if got != want:
        bad.append(('bounded: cssText lists every entry of the model in order', f'cssText {text!r} model {model.e!r}'))
    try:
        cssutils.ser.prefs.keepAllProperties = False
        text2 = style.cssText
    finally:
        cssutils.ser.prefs.keepAllProperties = True
    got = [(x[0], NORM.get(x[1], x[1]), x[2], x[3]) if x[0] == 'p' else x for x in parse_decl_text(text2)]
    effs = [model.effective(n) for n in names]
    want = [('p', NORM[x[1]], x[2], x[3]) if x[0] == 'p' else ('c', x[1]) for x in model.e if x[0] == 'c' or any(x is y for y in effs)]
    if got != want:
        bad.append(('bounded: cssText without keepAllProperties lists exactly the effective entries', f'cssText {text2!r} model {model.e!r}'))
    return bad


def run_style_sequence(seq_idx, pool, cssutils):
    """returns (failures [(clause, detail, known id or None)], final model)"""
    css = cssutils.css
    style = css.CSSStyleDeclaration()
    model = Model()
    bad = []
    for step, pi in enumerate(seq_idx):
        op = pool[pi]
        value = value_at(pi, step)
        model.hit = None
        real, want, rejected = apply_style(style, model, op, value, css)
        if rejected:
            bad.append(('bounded: an operation of the pool is accepted', f'step {step} {op!r} value {value!r}: {real}', None))
            return bad, model
        if op[0] in ('rm', 'setnone') and real != want:
            bad.append(('bounded: removal returns the effective value', f'step {step} {op!r}: returned {real!r} want {want!r}', None))
        if model.hit:
            # the operation fell into the input class of a recorded finding: compare right here; a difference at this point belongs to
            # that finding and ends the history (the two sides have parted), no difference means the finding is gone and the run goes on
            now = observe_style(style, model, cssutils)
            if now:
                bad.extend((w, d, model.hit) for w, d in now)
                return bad, model
    bad.extend((w, d, None) for w, d in observe_style(style, model, cssutils))
    return bad, model


def _style_worker(args):
    first, maxlen, poolname = args
    cssutils = _quiet()
    pool = style_pool() if poolname == 'full' else style_core_pool()
    n = steps = 0
    kinds = set()
    fails = []
    try:
        for L in range(1, maxlen + 1):
            for rest in itertools.product(range(len(pool)), repeat=L - 1):
                seq = (first,) + rest
                n += 1
                steps += L
                try:
                    bad, model = run_style_sequence(seq, pool, cssutils)
                except Exception as e:  # a crash of the real code inside an operation is a failure of the contract
                    bad, model = [('bounded: no operation of the pool crashes', f'{type(e).__name__}: {e}', None)], None
                if model is not None:
                    kinds.add(tuple((x[0], NORM[x[1]], x[3]) if x[0] == 'p' else ('c',) for x in model.e))
                for what, detail, kid in bad:
                    if sum(1 for f in fails if f[0] == what and f[4] == kid) < 3:
                        fails.append((what, detail, [list(pool[i]) for i in seq], [value_at(pi, s) for s, pi in enumerate(seq)], kid))
    finally:
        cssutils.ser.prefs.useDefaults()
    return n, steps, kinds, fails


def _check_values(ctx):
    """the oracle's premise: every pool value is a fixpoint of the value serialiser (else the model's value column would be wrong)"""
    cssutils = _quiet()
    for v in VALUES + ['a', 'b', 'c', '2px', '3px', 'inherit']:
        p = cssutils.css.Property('x', v)
        if p.value != v or p.propertyValue.cssText != v:
            raise AssertionError(f'oracle premise: value {v!r} is not canonical ({p.value!r})')


def _run_pool(ctx, worker, tasks):
    if ctx.jobs and ctx.jobs > 1:
        with multiprocessing.get_context('fork').Pool(ctx.jobs) as mp:
            return mp.map(worker, tasks, chunksize=1)
    return [worker(t) for t in tasks]


def style_histories(ctx):
    _check_values(ctx)
    runs = [('full', style_pool(), 3)]
    if ctx.tier != 'quick':
        runs.append(('core', style_core_pool(), 4))
    cssutils = _quiet()
    try:
        s = cssutils.css.CSSStyleDeclaration('color: red !important; color: blue')
        s.setProperty('color', 'green', normalize=False)
        still = [p.value for p in s.getProperties(all=True)] == ['red', 'green']
    except Exception:
        still = True
    ctx.known_finding(KNOWN_LITERAL_UPDATE, still)
    for poolname, pool, maxlen in runs:
        res = _run_pool(ctx, _style_worker, [(i, maxlen, poolname) for i in range(len(pool))])
        n = sum(r[0] for r in res)
        steps = sum(r[1] for r in res)
        kinds = set().union(*[r[2] for r in res])
        seen = {}
        for r in res:
            for what, detail, ops, values, kid in r[3]:
                seen.setdefault((what, kid), []).append((len(ops), ops, values, detail))
        for (what, kid), lst in seen.items():
            lst.sort(key=lambda t: (t[0], repr(t[1])))
            for _, ops, values, detail in lst[:3]:
                ctx.violation(what, f'history {ops!r} values {values!r}: {detail}', True, {'pool': poolname, 'ops': ops, 'values': values}, known_id=kid)
        ctx.bounded.append({'name': f'style declaration histories ({poolname} pool)', 'evaluations': n, 'distinct_nontrivial': len(kinds), 'exhaustive': True,
                            'rule': f'every sequence of length 1..{maxlen} over a pool of {len(pool)} operations (setProperty with/without replace/normalize, names '
                                    'color/COLOR/c\\olor/C\\OLOR/left, priorities ""/important/!IMPORTANT/Important, setProperty(name, ""/None), setProperty(Property), '
                                    'removeProperty (normalised/literal/absent), style[name] = value / (value, priority), del style[name], style.color = .., del style.backgroundColor, '
                                    'cssText replacement (4 texts incl. duplicates, comment, escapes), duplicates added through cssText, one rejected set); after the last step every '
                                    'observation is compared with the reference model (each prefix is itself an enumerated sequence); '
                                    f'{steps} operations applied; distinct = final model state as (name, priority) list',
                            'samples': [{'ops': [list(pool[0]), list(pool[20])]}], 'bound': f'length <= {maxlen}, pool of {len(pool)}'})


# ----------------------------------------------------------------------------------------------------------------------------
# DOM (camel-case) names: finite, complete over every known property name
def ref_dom(cssname):
    parts = cssname.split('-')
    return parts[0] + ''.join(p[:1].upper() + p[1:] for p in parts[1:])


def ref_css(domname):
    return re.sub('[A-Z]', lambda m: '-' + m.group(0).lower(), domname)


KNOWN_DOM_SINGLE = 'C10-dom-name-single-letter-segment'


def dom_names(ctx):
    cssutils = _quiet()
    from cssutils.css import CSSStyleDeclaration
    from cssutils.css.cssproperties import CSS2Properties, _toCSSname, _toDOMname
    import cssutils.profiles as profiles
    names = set(cssutils.profile.knownNames)
    for group in profiles.properties:
        names.update(profiles.properties[group])
    names = sorted(names)
    n = 0
    kinds = set()
    witness_fails = False
    for p in names:
        d = ref_dom(p)
        # class of the recorded finding: a hyphen followed by exactly one letter and then the end or another hyphen
        kid = KNOWN_DOM_SINGLE if re.search(r'-[a-z](-|$)', p) else None
        inp = {'name': p}
        kinds.add((p.count('-'), p.startswith('-'), kid is not None))
        n += 1
        if ref_css(d) != p:
            raise AssertionError(f'oracle premise: reference converters are not inverse on {p!r}')
        if _toDOMname(p) != d:
            ctx.violation('bounded: _toDOMname gives the camel-case name', f'{p!r} -> {_toDOMname(p)!r} want {d!r}', True, inp)
        if _toCSSname(d) != p or _toCSSname(_toDOMname(p)) != p:
            ctx.violation('bounded: _toCSSname is the inverse of _toDOMname on every known property name', f'{p!r} -> {_toDOMname(p)!r} -> {_toCSSname(_toDOMname(p))!r}', True, inp,
                          known_id=kid)
            if kid and p == 'overflow-x':
                witness_fails = True
        if _toDOMname(_toCSSname(d)) != d:
            ctx.violation('bounded: _toDOMname is the inverse of _toCSSname on every DOM name', f'{d!r} -> {_toCSSname(d)!r} -> {_toDOMname(_toCSSname(d))!r}', True, inp)
        if d not in CSS2Properties._properties or not isinstance(getattr(CSSStyleDeclaration, d, None), property):
            ctx.violation('bounded: every known property name has a generated DOM attribute', f'{p!r}: no attribute {d!r}', True, inp)
            continue
        # wiring: write by DOM name, read by CSS name
        s = CSSStyleDeclaration()
        setattr(s, d, 'inherit')
        got = [(x.name, x.value, x.priority) for x in s.getProperties(all=True)]
        if got != [(p, 'inherit', '')] or s.getPropertyValue(p) != 'inherit' or p not in s:
            ctx.violation('bounded: writing by DOM name sets the property of the CSS name', f'style.{d} = "inherit" gives entries {got!r}', True, inp, known_id=kid)
        # write by CSS name, read by DOM name (duplicates with mixed priorities: the effective one)
        s = CSSStyleDeclaration()
        s.setProperty(p, 'a', 'important')
        s.setProperty(p, 'b', '', replace=False)
        if getattr(s, d) != 'a' or getattr(s, d) != s.getPropertyValue(p):
            ctx.violation('bounded: reading by DOM name equals reading by CSS name', f'{p!r}: style.{d} = {getattr(s, d)!r}, getPropertyValue = {s.getPropertyValue(p)!r}', True, inp,
                          known_id=kid)
        # update through the DOM name modifies the effective entry in place, like setProperty(name, value)
        setattr(s, d, 'c')
        got = [(x.name, x.value, x.priority) for x in s.getProperties(all=True)]
        if got != [(p, 'c', ''), (p, 'b', '')]:
            ctx.violation('bounded: updating by DOM name equals setProperty by CSS name', f'{p!r}: entries {got!r}', True, inp, known_id=kid)
        # delete by DOM name removes every entry of the CSS name
        s.setProperty('x-other', '1')
        delattr(s, d)
        got = [(x.name, x.value, x.priority) for x in s.getProperties(all=True)]
        if got != [('x-other', '1', '')] or p in s:
            ctx.violation('bounded: deleting by DOM name removes the property of the CSS name', f'{p!r}: entries {got!r}', True, inp, known_id=kid)
    ctx.known_finding(KNOWN_DOM_SINGLE, witness_fails)
    ctx.bounded.append({'name': 'DOM names', 'evaluations': n, 'distinct_nontrivial': len(kinds), 'exhaustive': True,
                        'rule': 'every name of cssutils.profile.knownNames and of every profiles.properties group: converters against independent reference converters, both '
                                'round trips, generated attribute present, write/read/update/delete by DOM name against access by CSS name; distinct = (hyphen count, vendor prefix, '
                                'single-letter segment)',
                        'samples': [{'name': 'background-color', 'dom': 'backgroundColor'}], 'bound': f'all {len(names)} known property names'})


# ----------------------------------------------------------------------------------------------------------------------------
# variables declaration block: ordered map name -> value
VNORM = {'xy': 'xy', 'XY': 'xy', 'x\\y': 'xy', 'X\\Y': 'xy', 'z': 'z', 'Z': 'z', 'q': 'q'}
VPROBE = ['xy', 'XY', 'x\\y', 'z', 'Z', 'q']
VVALUES = ['1', '2px', 'red', '"s"', 'url(x)', '#abc', 'a b', '50%', 'f(1)', '-1.5em', '0']
KNOWN_VAR_REMOVE = 'C10-variables-remove-not-normalised'
KNOWN_VAR_LITERAL = 'C10-variables-literal-spelling-in-item-list'
KNOWN_VAR_COMMENT = 'C10-variables-comment-in-item-list'

# (text, entries ['v', normalised name, value, spelling in the text] / ['c', text], known class of the text)
VTEXTS = [
    ('', [], None),
    ('xy: 1; z: 2', [['v', 'xy', '1', 'xy'], ['v', 'z', '2', 'z']], None),
    ('XY: 1; z: 2', [['v', 'xy', '1', 'XY'], ['v', 'z', '2', 'z']], None),
    ('xy: 1; z: 2; X\\Y: 3', [['v', 'xy', '3', 'X\\Y'], ['v', 'z', '2', 'z']], None),
    ('xy: 1; /*c*/ z: 2;', [['v', 'xy', '1', 'xy'], ['c', '/*c*/'], ['v', 'z', '2', 'z']], None),
    ('/*c*/ xy: 1; XY: 2', [['c', '/*c*/'], ['v', 'xy', '2', 'XY']], KNOWN_VAR_COMMENT),
]


class VModel:
    def __init__(self):
        self.e = []
        self.hit = None

    def vars(self):
        return [x for x in self.e if x[0] == 'v']

    def find(self, nname):
        for x in self.vars():
            if x[1] == nname:
                return x
        return None

    def text(self):
        return ' '.join(x[1] if x[0] == 'c' else f'{x[3]}: {x[2]};' for x in self.e)

    def set(self, spelling, value, from_text=False):
        n = VNORM[spelling]
        x = self.find(n)
        if x is not None:
            if any(y[0] == 'c' for y in (self.e if from_text else self.e[:self.e.index(x)])):
                # a comment stands before the variable that is set again through the API, or before the second occurrence in a text
                self.hit = KNOWN_VAR_COMMENT
            elif not from_text and x[3] != n:
                self.hit = KNOWN_VAR_LITERAL
            x[2] = value
            if from_text:
                x[3] = spelling
            # an API update keeps the recorded source spelling: it only serves to recognise the input class of the recorded finding
        else:
            self.e.append(['v', n, value, spelling if from_text else n])

    def remove(self, spelling):
        n = VNORM[spelling]
        x = self.find(n)
        if x is None:
            return ''
        if spelling != n:
            self.hit = KNOWN_VAR_REMOVE
        elif any(y[0] == 'c' for y in self.e):
            self.hit = KNOWN_VAR_COMMENT
        elif x[3] != n:
            self.hit = KNOWN_VAR_LITERAL
        self.e = [y for y in self.e if y is not x]
        return x[2]


def vars_pool():
    P = []
    for sp in ('xy', 'XY', 'x\\y', 'z'):
        P.append(('set', sp))
    for sp in ('xy', 'XY', 'x\\y', 'z', 'q'):
        P.append(('rm', sp))
    P += [('setitem', 'xy'), ('setitem', 'Z'), ('delitem', 'xy'), ('delitem', 'z')]
    for i in range(len(VTEXTS)):
        P.append(('text', i))
    P += [('addtext', 'XY'), ('addtext', 'z')]
    return P


def vvalue_at(pi, step):
    return VVALUES[(pi + 3 * step) % len(VVALUES)]


def apply_vars(block, model, op, value):
    import xml.dom
    k = op[0]
    real = want = None
    try:
        if k == 'set':
            model.set(op[1], value)
            block.setVariable(op[1], value)
        elif k == 'rm':
            want = model.remove(op[1])
            real = block.removeVariable(op[1])
        elif k == 'setitem':
            model.set(op[1], value)
            block[op[1]] = value
        elif k == 'delitem':
            model.remove(op[1])
            del block[op[1]]
        elif k == 'text':
            text, entries, kid = VTEXTS[op[1]]
            model.e = [list(x) for x in entries]
            model.hit = kid
            block.cssText = text
        elif k == 'addtext':
            text = model.text() + f' {op[1]}: {value}'
            model.set(op[1], value, from_text=True)
            block.cssText = text
        else:
            raise AssertionError(op)
    except xml.dom.DOMException as e:
        return ('<%s>' % type(e).__name__, want, True)
    return (real, want, False)


def observe_vars(block, model):
    bad = []
    vs = model.vars()
    names = [x[1] for x in vs]
    keys = list(block.keys())
    if keys != names:
        bad.append(('bounded: variables keys() enumerates the set variables in map order', f'keys {keys!r} model {names!r}'))
    if block.length != len(names):
        bad.append(('bounded: variables length counts the set variables', f'length {block.length} model {names!r}'))
    items = [block.item(i) for i in range(len(keys))]
    if items != keys or block.item(len(keys)) != '':
        bad.append(('bounded: variables item(i) indexes keys(), empty string beyond the end', f'items {items!r} keys {keys!r}'))
    if list(block) != keys:
        bad.append(('bounded: variables iteration equals keys()', f'iter {list(block)!r} keys {keys!r}'))
    for sp in VPROBE:
        x = model.find(VNORM[sp])
        wv = x[2] if x is not None else ''
        gv = block.getVariableValue(sp)
        if gv != wv or block[sp] != wv:
            bad.append(('bounded: getVariableValue gives the value of the normalised name', f'{sp!r}: got {gv!r} want {wv!r}'))
        if (sp in block) != (x is not None):
            bad.append(('bounded: variables membership follows the normalised name', f'{sp!r} in block = {sp in block}, model {names!r}'))
    text = block.cssText
    got = parse_decl_text(text)
    listed = sorted((VNORM.get(x[1], x[1]), x[2]) for x in got if x[0] == 'p')
    reported = sorted((k, block.getVariableValue(k)) for k in keys)
    if listed != reported:
        bad.append(('bounded: the serialisation lists exactly the variables the API reports', f'cssText {text!r} API {reported!r}'))
    want = [('p', x[1], x[2], '') if x[0] == 'v' else ('c', x[1]) for x in model.e]
    got = [('p', VNORM.get(x[1], x[1]), x[2], x[3]) if x[0] == 'p' else x for x in got]
    if got != want:
        bad.append(('bounded: variables cssText lists the entries of the model in order', f'cssText {text!r} model {model.e!r}'))
    return bad


def run_vars_sequence(seq_idx, pool, cssutils):
    block = cssutils.css.CSSVariablesDeclaration()
    model = VModel()
    bad = []
    for step, pi in enumerate(seq_idx):
        op = pool[pi]
        value = vvalue_at(pi, step)
        model.hit = None
        try:
            real, want, rejected = apply_vars(block, model, op, value)
        except Exception as e:
            bad.append(('bounded: no operation of the pool crashes', f'step {step} {op!r}: {type(e).__name__}: {e}', model.hit))
            return bad, model
        if rejected:
            bad.append(('bounded: an operation of the pool is accepted', f'step {step} {op!r} value {value!r}: {real}', model.hit))
            return bad, model
        if op[0] == 'rm' and real != want:
            bad.append(('bounded: removeVariable returns the value of the variable', f'step {step} {op!r}: returned {real!r} want {want!r}', model.hit))
            if not model.hit:
                continue
        if model.hit:
            now = observe_vars(block, model)
            bad.extend((w, d, model.hit) for w, d in now)
            if bad:
                return bad, model
    bad.extend((w, d, None) for w, d in observe_vars(block, model))
    return bad, model


def _vars_worker(args):
    first, maxlen = args
    cssutils = _quiet()
    pool = vars_pool()
    n = steps = 0
    kinds = set()
    fails = []
    for L in range(1, maxlen + 1):
        for rest in itertools.product(range(len(pool)), repeat=L - 1):
            seq = (first,) + rest
            n += 1
            steps += L
            try:
                bad, model = run_vars_sequence(seq, pool, cssutils)
            except Exception as e:
                bad, model = [('bounded: no observation crashes', f'{type(e).__name__}: {e}', None)], None
            if model is not None:
                kinds.add(tuple((x[0], x[1], x[3] == x[1]) if x[0] == 'v' else ('c',) for x in model.e))
            for what, detail, kid in bad:
                if sum(1 for f in fails if f[0] == what and f[4] == kid) < 3:
                    fails.append((what, detail, [list(pool[i]) for i in seq], [vvalue_at(pi, s) for s, pi in enumerate(seq)], kid))
    return n, steps, kinds, fails


def variables_histories(ctx):
    cssutils = _quiet()
    for v in VVALUES + ['1', '2', '3']:
        if cssutils.css.PropertyValue(v).cssText != v:
            raise AssertionError(f'oracle premise: value {v!r} is not canonical')
    pool = vars_pool()
    maxlen = 3 if ctx.tier == 'quick' else 4
    res = _run_pool(ctx, _vars_worker, [(i, maxlen) for i in range(len(pool))])
    n = sum(r[0] for r in res)
    steps = sum(r[1] for r in res)
    kinds = set().union(*[r[2] for r in res])
    seen = {}
    for r in res:
        for what, detail, ops, values, kid in r[3]:
            seen.setdefault((what, kid), []).append((len(ops), ops, values, detail))
    for (what, kid), lst in seen.items():
        lst.sort(key=lambda t: (t[0], repr(t[1])))
        for _, ops, values, detail in lst[:3]:
            ctx.violation(what, f'history {ops!r} values {values!r}: {detail}', True, {'ops': ops, 'values': values}, known_id=kid)
    # witnesses of the recorded findings
    V = cssutils.css.CSSVariablesDeclaration
    try:
        b = V('xy: 1')
        still = b.removeVariable('XY') != '1' or 'xy' in b.keys()
    except Exception:
        still = True
    ctx.known_finding(KNOWN_VAR_REMOVE, still)
    try:
        b = V('X: 1; y: 2')
        b.removeVariable('x')
        still = 'x' not in b.keys() and '1' in b.cssText
        b = V('X: 1')
        b.setVariable('x', '2')
        still = still or (b.getVariableValue('x') == '2' and '2' not in b.cssText)
    except Exception:
        still = True
    ctx.known_finding(KNOWN_VAR_LITERAL, still)
    try:
        b = V('/*c*/ x: 1; x: 2')
        still = b.getVariableValue('x') != '2'
    except TypeError:
        still = True
    except Exception:
        still = False
    ctx.known_finding(KNOWN_VAR_COMMENT, still)
    ctx.bounded.append({'name': 'variables declaration histories', 'evaluations': n, 'distinct_nontrivial': len(kinds), 'exhaustive': True,
                        'rule': f'every sequence of length 1..{maxlen} over a pool of {len(pool)} operations (setVariable / removeVariable over the spellings xy, XY, x\\y, z and an '
                                'absent name, block[name] = value, del block[name], cssText replacement with 6 texts (empty, lower-case, upper-case, duplicate by escape, comment, '
                                'comment + duplicate), variables added through cssText); keys/length/item/iteration/in/getVariableValue/cssText compared with an ordered-map model, and '
                                f'the serialisation with the API; {steps} operations applied; distinct = final model state',
                        'samples': [{'ops': [['text', 2], ['rm', 'xy']]}], 'bound': f'length <= {maxlen}, pool of {len(pool)}'})
