"""C11 bounded stand-in: a rejected DOM mutation changes nothing; read-only objects reject every mutator.

The public mutators of every DOM class are enumerated mechanically (AST of the real classes: public methods and property
setters that store to ``self``, directly or through another mutator / ``_checkReadonly``).  Every enumerated mutator must
have an input table below (or an explicit exclusion with a reason); a mutator that is in neither is reported as undecided.
Each (prior state, target, mutator, input) case is run on a freshly parsed state in raising mode; whenever the call ends in
``xml.dom.DOMException`` the snapshot (cssText of target / owner rule / sheet and the structural lists) taken before the call
must equal the snapshot taken after it.  The snapshot holds the serialisation under the default serializer preferences and under
every preference at a non-default value (``pref_profiles``): state that only a non-default serializer writes (literal at-keyword,
literal property name / priority, shadowed properties, empty rules, ...) is observable state.  The read-only clause is run in both
error modes (``cssutils.log.raiseExceptions`` True and False): the guard must not depend on the error handler raising.
"""
import ast
import inspect
import json
import logging
import operator
import textwrap
import xml.dom

# --------------------------------------------------------------------------------------------------------------------
# 1. mechanical enumeration of the public mutators


def dom_classes():
    import cssutils
    import cssutils.css
    import cssutils.stylesheets
    import cssutils.util
    out = []
    for mod in (cssutils.css, cssutils.stylesheets):
        for n in mod.__all__:
            c = getattr(mod, n)
            if inspect.isclass(c) and c not in out:
                out.append(c)
    out.append(cssutils.util._Namespaces)
    return out


_PUBLIC_DUNDER = ('__setitem__', '__delitem__', '__iadd__', '__imul__')


def _is_public(name):
    return not name.startswith('_') or name in _PUBLIC_DUNDER


def _unwrap(fn):
    """look through decorator closures (cssutils.helper.Deprecated keeps the real function in the cell ``func``)"""
    for _ in range(4):
        code = getattr(fn, '__code__', None)
        if code is None or not fn.__closure__ or 'func' not in code.co_freevars:
            break
        inner = fn.__closure__[code.co_freevars.index('func')].cell_contents
        if not inspect.isfunction(inner):
            break
        fn = inner
    return fn


def _fn_ast(fn):
    fn = _unwrap(fn)
    try:
        src = textwrap.dedent(inspect.getsource(fn))
        tree = ast.parse(src)
    except (OSError, TypeError, SyntaxError, IndentationError):
        return None
    for node in ast.walk(tree):
        if isinstance(node, (ast.FunctionDef, ast.Lambda)):
            return node
    return None


def _self_name(fnode):
    args = fnode.args.args
    return args[0].arg if args else None


def _rooted_at(node, selfname):
    """is the expression an attribute / subscript chain that starts at ``self``"""
    while isinstance(node, (ast.Attribute, ast.Subscript)):
        node = node.value
    return isinstance(node, ast.Name) and node.id == selfname


def _writes_self(cls, fn, memo, depth=0):
    """does the function store to ``self`` (or to something reachable from it), directly or through a self-call"""
    key = (cls, getattr(fn, '__qualname__', repr(fn)), getattr(fn, '__code__', None))
    if key in memo:
        return memo[key]
    memo[key] = False  # cycle guard
    fnode = _fn_ast(fn)
    if fnode is None:
        memo[key] = True  # source not available: assume the worst
        return True
    selfname = _self_name(fnode)
    if selfname is None:
        return False
    res = False
    for node in ast.walk(fnode):
        targets = []
        if isinstance(node, ast.Assign):
            targets = node.targets
        elif isinstance(node, (ast.AugAssign, ast.AnnAssign)):
            targets = [node.target]
        elif isinstance(node, ast.Delete):
            targets = node.targets
        for t in targets:
            for tt in ast.walk(t):
                if isinstance(tt, (ast.Attribute, ast.Subscript)) and isinstance(tt.ctx, (ast.Store, ast.Del)) and _rooted_at(tt, selfname):
                    res = True
        if isinstance(node, ast.Call) and isinstance(node.func, ast.Attribute):
            f = node.func
            if isinstance(f.value, ast.Name) and f.value.id == selfname:
                if f.attr == '_checkReadonly':
                    res = True
                elif depth < 6:
                    callee = inspect.getattr_static(cls, f.attr, None)
                    if inspect.isfunction(callee) and _writes_self(cls, callee, memo, depth + 1):
                        res = True
            # list-style writes through an attribute of self: self.seq.append(..), self._seq.insert(..)
            elif _rooted_at(f.value, selfname) and f.attr in ('append', 'insert', 'extend', 'pop', 'remove', 'clear', 'replace', 'appendItem', 'update'):
                res = True
        if res:
            break
    memo[key] = res
    return res


_ENUM_CACHE = []


def enumerate_mutators():
    if not _ENUM_CACHE:
        _ENUM_CACHE.append(_enumerate_mutators())
    return _ENUM_CACHE[0]


def _enumerate_mutators():
    """-> list of (class, kind, name) with kind in 'set' (property setter) / 'call' (method); mechanically from the classes"""
    memo = {}
    out = []
    for cls in dom_classes():
        for name in sorted(set(dir(cls))):
            if not _is_public(name):
                continue
            a = inspect.getattr_static(cls, name, None)
            if isinstance(a, property):
                if a.fset is not None and _writes_self(cls, a.fset, memo):
                    out.append((cls, 'set', name))
            elif inspect.isfunction(a):
                if name == '__init__':
                    continue
                if _writes_self(cls, a, memo):
                    out.append((cls, 'call', name))
    return out

# extras the AST criterion cannot see (the write goes through another object): documented, fixed list
EXTRA_MUTATORS = [
    ('_Namespaces', 'call', '__setitem__'),  # inserts / rewrites @namespace rules of the parent sheet
    ('_Namespaces', 'call', '__delitem__'),
    ('CSSRuleList', 'call', 'append'),  # routed to the owner's insertRule when the list is attached
    ('CSSRuleList', 'call', 'extend'),
    ('CSSRuleList', 'call', '__setitem__'),
    ('CSSRuleList', 'call', '__delitem__'),  # inherited from list
    ('CSSRuleList', 'call', 'insert'),
    ('CSSRuleList', 'call', 'pop'),
    ('CSSRuleList', 'call', 'remove'),
    ('CSSRuleList', 'call', 'clear'),
]


# --------------------------------------------------------------------------------------------------------------------
# 2. snapshots (public accessors only)


def _g(f):
    try:
        v = f()
    except Exception as e:  # an accessor that raises is part of the observable state, too
        return 'EXC:' + type(e).__name__
    if isinstance(v, bytes):
        v = v.decode('utf-8', 'replace')
    return v


def _props(style):
    return _g(lambda: [(p.name, p.literalname, p.value, p.priority) for p in style.getProperties(all=True)])


def _ns(obj):
    """the prefix -> URI mapping a selector / selector list / style rule resolves its prefixes with: the documented ``_namespaces``
    property (the sheet's mapping when attached, the object's own when detached) - these classes have no other accessor for it"""
    return _g(lambda: sorted(obj._namespaces.items(), key=repr))


def snap(obj):  # noqa: C901
    """JSON-able snapshot of what the statement calls observable: serialisation + structural queries"""
    import cssutils
    import cssutils.css as C
    import cssutils.stylesheets as S
    import cssutils.util as U
    if obj is None:
        return None
    d = {'class': type(obj).__name__}
    if isinstance(obj, C.CSSStyleSheet):
        d['cssText'] = _g(lambda: obj.cssText)
        d['rules'] = _g(lambda: [r.type for r in obj.cssRules])
        d['length'] = _g(lambda: obj.cssRules.length)
        d['ruleTexts'] = _g(lambda: [r.cssText for r in obj.cssRules])
        d['namespaces'] = _g(lambda: sorted(obj.namespaces.items(), key=repr))
        d['encoding'] = _g(lambda: obj.encoding)
    elif isinstance(obj, C.CSSRuleList):
        d['rules'] = _g(lambda: [r.type for r in obj])
        d['ruleTexts'] = _g(lambda: [r.cssText for r in obj])
        d['length'] = _g(lambda: obj.length)
    elif isinstance(obj, C.CSSRule):
        d['cssText'] = _g(lambda: obj.cssText)
        d['type'] = _g(lambda: obj.type)
        d['atkeyword'] = _g(lambda: obj.atkeyword)
        if isinstance(obj, C.CSSStyleRule):
            d['selectorText'] = _g(lambda: obj.selectorText)
            d['selectors'] = _g(lambda: [s.selectorText for s in obj.selectorList])
            d['style'] = _g(lambda: obj.style.cssText)
            d['properties'] = _props(obj.style)
            d['namespaces'] = _ns(obj)
        if isinstance(obj, (C.CSSMediaRule, C.CSSImportRule)):
            d['mediaText'] = _g(lambda: obj.media.mediaText)
            d['media'] = _g(lambda: [mq.value.mediaText for mq in obj.media])
            d['name'] = _g(lambda: obj.name)
        if isinstance(obj, (C.CSSMediaRule, C.CSSPageRule)):
            d['rules'] = _g(lambda: [r.type for r in obj.cssRules])
            d['ruleTexts'] = _g(lambda: [r.cssText for r in obj.cssRules])
        if isinstance(obj, C.CSSPageRule):
            d['selectorText'] = _g(lambda: obj.selectorText)
            d['specificity'] = _g(lambda: obj.specificity)
            d['margins'] = _g(lambda: obj.keys())
            d['style'] = _g(lambda: obj.style.cssText)
            d['properties'] = _props(obj.style)
        if isinstance(obj, (C.CSSFontFaceRule, C.MarginRule)):
            d['style'] = _g(lambda: obj.style.cssText)
            d['properties'] = _props(obj.style)
        if isinstance(obj, C.MarginRule):
            d['margin'] = _g(lambda: obj.margin)
        if isinstance(obj, C.CSSImportRule):
            d['href'] = _g(lambda: obj.href)
            d['imported'] = _g(lambda: obj.styleSheet.cssText if obj.styleSheet is not None else None)
        if isinstance(obj, C.CSSNamespaceRule):
            d['prefix'] = _g(lambda: obj.prefix)
            d['namespaceURI'] = _g(lambda: obj.namespaceURI)
        if isinstance(obj, C.CSSCharsetRule):
            d['encoding'] = _g(lambda: obj.encoding)
        if isinstance(obj, C.CSSVariablesRule):
            d['variables'] = _g(lambda: [(k, obj.variables[k]) for k in obj.variables.keys()])
    elif isinstance(obj, C.CSSStyleDeclaration):
        d['cssText'] = _g(lambda: obj.cssText)
        d['properties'] = _props(obj)
        d['length'] = _g(lambda: obj.length)
        d['items'] = _g(lambda: [obj.item(i) for i in range(obj.length)])
        d['keys'] = _g(lambda: obj.keys())
    elif isinstance(obj, C.CSSVariablesDeclaration):
        d['cssText'] = _g(lambda: obj.cssText)
        d['variables'] = _g(lambda: [(k, obj[k]) for k in obj.keys()])
        d['length'] = _g(lambda: obj.length)
    elif isinstance(obj, C.Property):
        d['cssText'] = _g(lambda: obj.cssText)
        d['name'] = _g(lambda: (obj.name, obj.literalname))
        d['value'] = _g(lambda: obj.value)
        d['priority'] = _g(lambda: (obj.priority, obj.literalpriority))
        d['values'] = _g(lambda: [v.cssText for v in obj.propertyValue])
    elif isinstance(obj, C.PropertyValue):
        d['cssText'] = _g(lambda: obj.cssText)
        d['value'] = _g(lambda: obj.value)
        d['values'] = _g(lambda: [(v.type, v.cssText) for v in obj])
        d['length'] = _g(lambda: obj.length)
    elif isinstance(obj, C.Value):
        d['cssText'] = _g(lambda: obj.cssText)
        d['type'] = _g(lambda: obj.type)
        d['value'] = _g(lambda: obj.value)
        for extra in ('dimension', 'uri', 'red', 'green', 'blue', 'alpha', 'colorType'):
            if hasattr(type(obj), extra):
                d[extra] = _g(lambda extra=extra: getattr(obj, extra))
    elif isinstance(obj, C.SelectorList):
        d['selectorText'] = _g(lambda: obj.selectorText)
        d['selectors'] = _g(lambda: [s.selectorText for s in obj])
        d['length'] = _g(lambda: obj.length)
        d['namespaces'] = _ns(obj)
    elif isinstance(obj, C.Selector):
        d['selectorText'] = _g(lambda: obj.selectorText)
        d['specificity'] = _g(lambda: obj.specificity)
        d['element'] = _g(lambda: obj.element)
        d['namespaces'] = _ns(obj)
    elif isinstance(obj, S.MediaList):
        d['mediaText'] = _g(lambda: obj.mediaText)
        d['media'] = _g(lambda: [mq.value.mediaText for mq in obj])
        d['length'] = _g(lambda: obj.length)
    elif isinstance(obj, S.MediaQuery):
        d['mediaText'] = _g(lambda: obj.mediaText)
        d['mediaType'] = _g(lambda: obj.mediaType)
    elif isinstance(obj, U._Namespaces):
        d['items'] = _g(lambda: sorted(obj.items(), key=repr))
        d['prefixes'] = _g(lambda: sorted(obj.keys(), key=repr))
    else:
        d['repr'] = _g(lambda: repr(obj))
    return json.loads(json.dumps(d, default=repr))


# "serialises exactly as before" is a statement about the serializer the application has configured, not only about the default
# one: parts of the DOM state (literal at-keyword / property name / priority spelling, shadowed properties, empty rules, variable
# references, href notation, full colour hashes ...) are written only under non-default preferences.  The snapshot therefore also
# records the serialisation under every preference of cssutils.serialize.Preferences at a non-default value, one at a time
# (enumerated mechanically from the preference object), under the shipped minified profile and with everything flipped at once.
# Quick tier: the boolean / enumerated preferences one at a time, the string-valued (spacing) ones only jointly (useMinified() and
# the all-flipped profile set every one of them to ''); thorough tier: those one at a time as well, at two values each.

_STR_ALTERNATIVES = {'quick': (), 'thorough': ('', '\t')}  # differ from every default (' ', 4 spaces, '\n')
_PROFILE_CACHE = {}


def pref_profiles(tier='quick'):
    """-> (ordered {profile name: {preference: value}}, [preferences of a type the rule below cannot vary])"""
    if tier in _PROFILE_CACHE:
        return _PROFILE_CACHE[tier]
    import cssutils.serialize
    defaults = dict(vars(cssutils.serialize.Preferences()))
    profiles, unhandled, first = {}, [], {}
    for k in sorted(defaults):
        v = defaults[k]
        if isinstance(v, bool):
            alts = [not v]
        elif isinstance(v, str):
            alts = list(_STR_ALTERNATIVES['quick' if tier == 'quick' else 'thorough'])
        elif v is None and k == 'importHrefFormat':
            alts = ['string', 'uri']  # the two documented values
        else:
            unhandled.append(k)
            continue
        first[k] = alts[0] if alts else ''
        for alt in alts:
            profiles[f'{k}={alt!r}'] = {k: alt}
    mini = cssutils.serialize.Preferences()
    mini.useMinified()
    profiles['useMinified()'] = {k: v for k, v in vars(mini).items() if defaults.get(k, v) != v or k not in defaults}
    profiles['all non-default'] = first
    _PROFILE_CACHE[tier] = (profiles, unhandled)
    return _PROFILE_CACHE[tier]


def _text(obj):
    """the serialisation of one object through its public text attribute(s)"""
    import cssutils.css as C
    if isinstance(obj, C.CSSRuleList):
        return _g(lambda: [r.cssText for r in obj])
    out = []
    for attr in ('cssText', 'selectorText', 'mediaText'):
        if isinstance(inspect.getattr_static(type(obj), attr, None), property):
            out.append(_g(lambda attr=attr: getattr(obj, attr)))
    return out


def snapshot(target, owner, sheet, tier='quick'):
    import cssutils
    old = cssutils.log.raiseExceptions
    cssutils.log.raiseExceptions = False
    prefs = cssutils.ser.prefs
    try:
        prefs.useDefaults()
        d = {'target': snap(target), 'owner': snap(owner), 'sheet': snap(sheet)}
        parts = [(n, o) for n, o in (('target', target), ('owner', owner), ('sheet', sheet)) if o is not None]
        for pname, settings in pref_profiles(tier)[0].items():
            prefs.useDefaults()
            for k, v in settings.items():
                setattr(prefs, k, v)
            seen = {}
            for n, o in parts:
                if id(o) not in seen:
                    seen[id(o)] = json.loads(json.dumps(_text(o), default=repr))
                d[n][f'text under prefs {pname}'] = seen[id(o)]
        return d
    finally:
        prefs.useDefaults()
        cssutils.log.raiseExceptions = old


def diff(a, b):
    """first differing path of two snapshots"""
    out = []
    for part in ('target', 'owner', 'sheet'):
        x, y = a[part], b[part]
        if x == y:
            continue
        if not isinstance(x, dict) or not isinstance(y, dict):
            out.append(f'{part}: {x!r} -> {y!r}')
            continue
        for k in sorted(set(x) | set(y)):
            if x.get(k) != y.get(k):
                out.append(f'{part}.{k}: {x.get(k)!r} -> {y.get(k)!r}')
    return out


# --------------------------------------------------------------------------------------------------------------------
# 3. prior states and targets

STATES = {
    'full': ('@charset "utf-8";\n/*c0*/\n@import "i.css" print, tv;\n@namespace p "u";\n@variables { c1: red; c2: 2px }\n'
             '@font-face { font-family: x; src: url(f) }\n'
             '@media print, screen { a { color: red } /*m*/ b { left: 1px } @page { margin: 1px } }\n'
             '@page :first { margin: 0; @top-left { content: "x" } @bottom-center { color: red } }\n'
             'p|a, b.c > d { color: red; left: 1px !important; color: blue; background: url(x) no-repeat 0 50%, rgb(1,2,3) "s" f(1) #abc calc(1px + 2px) }\n'
             '@x y;\n/*c1*/'),
    'small': 'a { color: red }',
    'mid': ('@import "i.css";\n@namespace "d";\n@namespace q "v";\n@media all { q|x { top: 0 } }\n@page { size: a4 }\n'
            'h1, h2 { margin: 0 -1.5em; margin: var(c1) }\n@media tv and (min-width: 10px), not print { e { top: 0 } }\n/*z*/'),
    'empty': '',
    # a prefix re-bound to a used namespace URI: the clean-up after a namespace insert has something to refuse
    'ns': '@namespace q "other";\n@namespace p "u";\nq|a { top: 0 }\np|b { left: 0 }',
}


QUICK_STATES = ('full', 'small', 'mid', 'empty', 'ns')


def _thorough_states():
    """more prior states for the thorough tier: every single construct alone, and each construct followed by a style rule"""
    parts = {'charset': '@charset "ascii";', 'comment': '/*c*/', 'import': '@import "i.css" tv "n";', 'namespace': '@namespace p "u";', 'namespace0': '@namespace "d";',
             'variables': '@variables { c1: red }', 'fontface': '@font-face { font-family: x }', 'media': '@media tv and (color), print { a { top: 0 } b { left: 0 } }',
             'medianamed': '@media print "n" { /*m*/ a { top: 0 } }', 'page': '@page n:left { margin: 0; @top-left { top: 0 } @top-right { left: 0 } }',
             'style': 'a b, c > d, e + f { color: red; COLOR: blue !important; c\\olor: green }', 'unknown': '@x { y }'}
    out = {}
    for k, v in parts.items():
        out['only-' + k] = v
        if k not in ('style',):
            out[k + '+style'] = v + '\nz { top: 0 }'
    return out


STATES.update(_thorough_states())


def _fetcher(url):
    return None, 'i { top: 1px }'


def build(state):
    """a fresh sheet for the prior state (parsed in the default, non-raising mode)"""
    import cssutils
    cssutils.log.raiseExceptions = False
    sheet = cssutils.CSSParser(fetcher=_fetcher).parseString(STATES[state], href='http://example.com/s.css')
    cssutils.log.raiseExceptions = True
    return sheet


def _first(rules, typ, nth=0):
    found = [r for r in rules if r.type == typ]
    return found[nth] if len(found) > nth else None


def _locators():  # noqa: C901
    """name -> f(sheet) -> (target, owner rule) or None; every target is found through public accessors"""
    import cssutils.css as C
    R = C.CSSRule
    loc = {}
    loc['sheet'] = lambda s: (s, None)
    loc['sheet.cssRules'] = lambda s: (s.cssRules, None)
    loc['sheet.namespaces'] = lambda s: (s.namespaces, None)
    for nm, typ in (('charset', R.CHARSET_RULE), ('import', R.IMPORT_RULE), ('namespace', R.NAMESPACE_RULE), ('variables', R.VARIABLES_RULE),
                    ('fontface', R.FONT_FACE_RULE), ('media', R.MEDIA_RULE), ('page', R.PAGE_RULE), ('style', R.STYLE_RULE), ('unknown', R.UNKNOWN_RULE),
                    ('comment', R.COMMENT)):
        loc[nm] = lambda s, typ=typ: (_first(s.cssRules, typ), None) if _first(s.cssRules, typ) is not None else None
    loc['media#2'] = lambda s: (_first(s.cssRules, R.MEDIA_RULE, 1), None) if _first(s.cssRules, R.MEDIA_RULE, 1) is not None else None
    loc['namespace#2'] = lambda s: (_first(s.cssRules, R.NAMESPACE_RULE, 1), None) if _first(s.cssRules, R.NAMESPACE_RULE, 1) is not None else None

    def inner(outer, typ, nth=0):
        def f(s):
            o = _first(s.cssRules, outer)
            if o is None:
                return None
            r = _first(o.cssRules, typ, nth)
            return (r, o) if r is not None else None
        return f
    loc['media>style'] = inner(R.MEDIA_RULE, R.STYLE_RULE)
    loc['media>style#2'] = inner(R.MEDIA_RULE, R.STYLE_RULE, 1)
    loc['media>comment'] = inner(R.MEDIA_RULE, R.COMMENT)
    loc['media>page'] = inner(R.MEDIA_RULE, R.PAGE_RULE)
    loc['page>margin'] = inner(R.PAGE_RULE, R.MARGIN_RULE)

    def sub(base, f, own=None):
        def g(s):
            b = loc[base](s)
            if b is None:
                return None
            t = f(b[0])
            if t is None:
                return None
            return (t, b[0] if own is None else own(b))
        return g
    loc['media.cssRules'] = sub('media', lambda r: r.cssRules)
    loc['page.cssRules'] = sub('page', lambda r: r.cssRules)
    loc['media.media'] = sub('media', lambda r: r.media)
    loc['media#2.media'] = sub('media#2', lambda r: r.media)
    loc['import.media'] = sub('import', lambda r: r.media)
    loc['media.media[0]'] = sub('media', lambda r: r.media[0] if len(r.media) else None)
    loc['media#2.media[0]'] = sub('media#2', lambda r: r.media[0] if len(r.media) else None)
    loc['media#2.media[1]'] = sub('media#2', lambda r: r.media[1] if len(r.media) > 1 else None)
    loc['variables.variables'] = sub('variables', lambda r: r.variables)
    for base in ('style', 'fontface', 'page', 'page>margin', 'media>style'):
        loc[base + '.style'] = sub(base, lambda r: r.style)
    for base in ('style', 'media>style'):
        loc[base + '.selectorList'] = sub(base, lambda r: r.selectorList)
        loc[base + '.selector[0]'] = sub(base, lambda r: r.selectorList[0] if len(r.selectorList) else None)
        loc[base + '.selector[-1]'] = sub(base, lambda r: r.selectorList[-1] if len(r.selectorList) > 1 else None)
    for base in ('style', 'fontface', 'page>margin', 'media>style'):
        def props(r):
            return r.style.getProperties(all=True)
        loc[base + '.prop[0]'] = sub(base, lambda r: props(r)[0] if props(r) else None)
        loc[base + '.prop[1]'] = sub(base, lambda r: props(r)[1] if len(props(r)) > 1 else None)
        loc[base + '.prop[-1]'] = sub(base, lambda r: props(r)[-1] if len(props(r)) > 2 else None)
        loc[base + '.prop[0].propertyValue'] = sub(base, lambda r: props(r)[0].propertyValue if props(r) else None)
        loc[base + '.prop[-1].propertyValue'] = sub(base, lambda r: props(r)[-1].propertyValue if len(props(r)) > 2 else None)

    def value_of(clsname):
        def f(r):
            for p in r.style.getProperties(all=True):
                for v in p.propertyValue:
                    if type(v).__name__ == clsname:
                        return v
            return None
        return f
    for clsname in ('Value', 'ColorValue', 'DimensionValue', 'URIValue', 'CSSFunction', 'CSSVariable', 'CSSCalc', 'MSValue'):
        loc['style.value:' + clsname] = sub('style', value_of(clsname))
    return loc


def _detached():
    """stand-alone objects (no sheet, no owner rule): name -> factory"""
    import cssutils.css as C
    import cssutils.stylesheets as S
    return {
        'new CSSStyleSheet': lambda: C.CSSStyleSheet(),
        'new CSSStyleRule': lambda: C.CSSStyleRule('a, b', 'color: red; left: 0'),
        'new CSSMediaRule': lambda: C.CSSMediaRule('print'),
        'new CSSPageRule': lambda: C.CSSPageRule(':left', 'margin: 0'),
        'new CSSImportRule': lambda: C.CSSImportRule('x.css', 'print', 'n'),
        'new CSSNamespaceRule': lambda: C.CSSNamespaceRule('u', 'p'),
        'new CSSCharsetRule': lambda: C.CSSCharsetRule('ascii'),
        'new CSSFontFaceRule': lambda: C.CSSFontFaceRule('font-family: x'),
        'new MarginRule': lambda: C.MarginRule('@top-left', 'color: red'),
        'new CSSUnknownRule': lambda: C.CSSUnknownRule('@x y;'),
        'new CSSComment': lambda: C.CSSComment('/*c*/'),
        'new CSSVariablesRule': lambda: C.CSSVariablesRule(variables=C.CSSVariablesDeclaration('c1: red')),
        'new CSSVariablesDeclaration': lambda: C.CSSVariablesDeclaration('c1: red; c2: 1px'),
        'new CSSStyleDeclaration': lambda: C.CSSStyleDeclaration('color: red; left: 0 !important'),
        'new Property': lambda: C.Property('color', 'red', 'important'),
        'new PropertyValue': lambda: C.PropertyValue('1px red'),
        'new Selector': lambda: C.Selector('a b'),
        'new SelectorList': lambda: C.SelectorList('a, b'),
        'new MediaList': lambda: S.MediaList('print, tv'),
        # a list that holds `all` BESIDE another medium: neither the parser nor mediaText produce it (both collapse it), item assignment does
        'new MediaList (all beside print, by item assignment)': lambda: _all_beside_print(),
        'new MediaQuery': lambda: S.MediaQuery('print and (min-width: 1px)'),
        # detached objects that resolve namespace prefixes with a mapping of their own (the (text, namespaces) constructor form): selector,
        # selector list, style rule, style rule inside a detached @media rule - and every selector / selector list inside them as target
        # (a factory may return (target, owner): the owner is snapshotted like an owning rule)
        'new Selector (namespaced)': lambda: C.Selector((NS_SELECTOR, dict(NS_DETACHED))),
        'new SelectorList (namespaced)': lambda: C.SelectorList((NS_SELECTORLIST, dict(NS_DETACHED))),
        'new SelectorList (namespaced)[0]': lambda: _inside(C.SelectorList((NS_SELECTORLIST, dict(NS_DETACHED))), lambda sl: sl[0]),
        'new SelectorList (namespaced)[-1]': lambda: _inside(C.SelectorList((NS_SELECTORLIST, dict(NS_DETACHED))), lambda sl: sl[-1]),
        'new CSSStyleRule (namespaced)': lambda: _ns_rule(),
        'new CSSStyleRule (namespaced).selectorList': lambda: _inside(_ns_rule(), lambda r: r.selectorList),
        'new CSSStyleRule (namespaced).selector[0]': lambda: _inside(_ns_rule(), lambda r: r.selectorList[0]),
        'new CSSStyleRule (namespaced).selector[-1]': lambda: _inside(_ns_rule(), lambda r: r.selectorList[-1]),
        'new CSSMediaRule>style (namespaced)': lambda: _inside(_ns_media(), lambda m: m.cssRules[0]),
        'new CSSMediaRule>style (namespaced).selectorList': lambda: _inside(_ns_media(), lambda m: m.cssRules[0].selectorList),
        'new CSSMediaRule>style (namespaced).selector[0]': lambda: _inside(_ns_media(), lambda m: m.cssRules[0].selectorList[0]),
    }


def _all_beside_print():
    import cssutils.stylesheets as S
    ml = S.MediaList('screen, print')
    ml[0] = 'all'
    return ml


NS_DETACHED = {'p': 'u', 'q': 'v', '': 'd'}
NS_SELECTOR = 'p|a > q|b[p|c] *|d |e'
NS_SELECTORLIST = 'p|a, q|b p|c, d'


def _inside(owner, f):
    return f(owner), owner


def _ns_rule():
    return _C().CSSStyleRule(selectorText=(NS_SELECTORLIST, dict(NS_DETACHED)), style='color: red; left: 0')


def _ns_media():
    m = _C().CSSMediaRule('print')
    m.add(_ns_rule())
    return m


# --------------------------------------------------------------------------------------------------------------------
# 4. inputs built to be rejected: (stage, args) with stage in
#    'immediate' (nothing of the new content is acceptable), 'prefix' (rejected after an acceptable prefix),
#    'nested' (rejected inside a nested object), 'position' (index / hierarchy / not-found errors of list operations)
#    args is a tuple or a callable (target, owner, sheet) -> tuple, so that rule objects are fresh per case

def _C():
    import cssutils.css as C
    return C


def _S():
    import cssutils.stylesheets as S
    return S


BAD_DECL = [('immediate', ('$',)), ('immediate', ('color',)), ('immediate', (': red',)),
            ('prefix', ('top: 1px; left',)), ('prefix', ('top: 1px; $x',)), ('prefix', ('top: 1px; color: ;',)), ('prefix', ('top: 1px; left: 0 !',)),
            ('nested', ('top: 1px; color: rgb(1,2',)), ('nested', ('top: 1px; left: 0 !foo',)), ('nested', ('top: 1px; color: red blue )',)),
            ('nested', ('color: url(',)), ('nested', ('top: 1px; left: calc(1px +)',)), ('nested', ('top: 1px; c\\olor: {',))]
BAD_VALUE = [('immediate', ('',)), ('immediate', ('}',)), ('immediate', (')',)), ('immediate', (';',)),
             ('prefix', ('1px }',)), ('prefix', ('1px,',)), ('prefix', ('red )',)), ('prefix', ('1px / ',)), ('prefix', ('1px !important',)),
             ('nested', ('1px rgb(1,2',)), ('nested', ('1px rgb(1,2,x)',)), ('nested', ('1px calc(1px +)',)), ('nested', ('red f(])',)), ('nested', ('1px var(',))]
BAD_SELECTOR = [('immediate', ('',)), ('immediate', ('$',)), ('immediate', (',',)), ('immediate', ('{',)),
                ('prefix', ('x >',)), ('prefix', ('x y[',)), ('prefix', ('x.',)), ('prefix', ('x:',)), ('prefix', ('x y $',)),
                ('nested', ('x:not(',)), ('nested', ('x[a=]',)), ('nested', ('zz|x',)), ('nested', ('x:not(zz|y)',))]
BAD_SELECTORLIST = BAD_SELECTOR + [('prefix', ('x, y,',)), ('prefix', ('x, , y',)), ('prefix', ('x, y[',)), ('nested', ('x, zz|y',)), ('nested', ('x, y:not(',)), ('prefix', ('x, $',))]
BAD_MEDIAQUERY = [('immediate', ('',)), ('immediate', ('$',)), ('immediate', ('3d',)), ('immediate', (',',)),
                  ('prefix', ('tv and',)), ('prefix', ('tv foo',)), ('prefix', ('tv and (',)), ('prefix', ('not',)), ('prefix', ('tv, print',)),
                  ('nested', ('tv and (min-width: )',)), ('nested', ('tv and (min-width: 1px',)), ('nested', ('tv and (min-width: rgb(1,))',)), ('nested', ('(color) and (x: })',))]
BAD_MEDIALIST = [('immediate', ('',)), ('immediate', ('$',)), ('immediate', (',',)), ('immediate', ('3d',)),
                 ('prefix', ('tv,',)), ('prefix', ('tv, $',)), ('prefix', ('tv, , tty',)), ('prefix', ('tv tty',)), ('prefix', ('/*k*/ tv, 3d',)),
                 ('nested', ('tv, tty and (',)), ('nested', ('tv, tty and (min-width: )',)), ('nested', ('tv, (x: })',)), ('nested', ('tv, not',))]
BAD_STYLERULE = [('immediate', ('',)), ('immediate', ('@x y;',)), ('immediate', ('{top:0}',)), ('immediate', ('$',)), ('immediate', ('/*c*/',)),
                 ('prefix', ('x {top:0} y',)), ('prefix', ('x {top:0} y {left:0}',)), ('prefix', ('x, {top:0}',)), ('prefix', ('x { top: 0; $ }',)), ('prefix', ('x { top: 0; left }',)),
                 ('prefix', ('x',)), ('prefix', ('x { top: 0 } }',)),
                 ('nested', ('x { top: 0; color: rgb(1,2 }',)), ('nested', ('x, zz|y { top: 0 }',)), ('nested', ('x:not( { top: 0 }',)), ('nested', ('x { top: 0; left: 0 !foo }',)),
                 ('nested', ('x[ { top: 0 }',)), ('nested', ('x { top: calc(1px +) }',))]
BAD_MEDIARULE = [('immediate', ('',)), ('immediate', ('x {top:0}',)), ('immediate', ('@page {}',)), ('immediate', ('@media',)), ('immediate', ('@media $ { }',)),
                 ('prefix', ('@media tv { x{top:0} } y',)), ('prefix', ('@media tv, { x{top:0} }',)), ('prefix', ('@media tv',)), ('prefix', ('@media tv; x{top:0}',)),
                 ('prefix', ('@media tv "n" foo { x{top:0} }',)), ('prefix', ('@media tv { x{top:0} } }',)),
                 ('nested', ('@media tv { x{top:0} @import "j.css"; }',)), ('nested', ('@media tv { x{top:0} @namespace z "zz"; }',)), ('nested', ('@media tv { x{top:0} @charset "a"; }',)),
                 ('nested', ('@media tv { x{top:0} y{left:} }',)), ('nested', ('@media tv { x{top:0} zz|y{left:0} }',)), ('nested', ('@media tv { x{top:0} $ }',)),
                 ('nested', ('@media tv { x{top:0} @font-face{font-family:x} }',)), ('nested', ('@media tv and (min-width: ) { x{top:0} }',)), ('nested', ('@media tv { /*k*/ x{top:0;left} }',)),
                 ('nested', ('@media tv { x{top:0} @media tty { y{left:} } }',)), ('nested', ('@media tv { x{top:0} @page { left: } }',)), ('nested', ('@media tv { @variables{a:b} }',))]
BAD_PAGERULE = [('immediate', ('',)), ('immediate', ('x {top:0}',)), ('immediate', ('@media tv {}',)), ('immediate', ('@page $ {}',)),
                ('prefix', ('@page :left { top: 0 } y',)), ('prefix', ('@page :left x { top: 0 }',)), ('prefix', ('@page :left',)), ('prefix', ('@page { top: 0; left }',)),
                ('prefix', ('@page :left { top: 0 } }',)), ('prefix', ('@page auto { top: 0 }',)), ('prefix', ('@page n: { top: 0 }',)),
                ('nested', ('@page { top: 0; @top-left { left: } }',)), ('nested', ('@page { top: 0; @top-left { left: 0 } @top-right { $ } }',)), ('nested', ('@page { top: 0; color: rgb(1,2 }',)),
                ('nested', ('@page { top: 0; @top-left { left: 0 !foo } }',)), ('nested', ('@page :left { @top-left { left: 0 } ; left: calc(1px +) }',))]
BAD_IMPORTRULE = [('immediate', ('',)), ('immediate', ('x {top:0}',)), ('immediate', ('@media tv {}',)), ('immediate', ('@import;',)), ('immediate', ('@import $;',)),
                  ('prefix', ('@import "j.css" tv,;',)), ('prefix', ('@import "j.css" $;',)), ('prefix', ('@import "j.css" tv "n" "m";',)), ('prefix', ('@import "j.css" tv; x',)),
                  ('prefix', ('@import url(j.css) "n" tv;',)), ('prefix', ('@import "j.css" "k.css";',)), ('prefix', ('@import "j.css" tv {',)),
                  ('nested', ('@import "j.css" tv and (;',)), ('nested', ('@import "j.css" tv, tty and (min-width: );',)), ('nested', ('@import "j.css" tv, 3d;',))]
BAD_NAMESPACERULE = [('immediate', ('',)), ('immediate', ('x {top:0}',)), ('immediate', ('@import "x";',)), ('immediate', ('@namespace;',)), ('immediate', ('@namespace $;',)),
                     ('prefix', ('@namespace z;',)), ('prefix', ('@namespace z "zz" x;',)), ('prefix', ('@namespace z "zz"; y',)), ('prefix', ('@namespace z y "zz";',)), ('prefix', ('@namespace "zz" z;',)),
                     ('prefix', ('@namespace z "zz" {',))]
BAD_CHARSETRULE = [('immediate', ('',)), ('immediate', ('x {top:0}',)), ('immediate', ('@import "x";',)), ('immediate', ('@charset;',)), ('immediate', ('@charset ascii;',)),
                   ('prefix', ('@charset "ascii"',)), ('prefix', ('@charset "ascii" x;',)), ('prefix', ('@charset "ascii"; x',)), ('prefix', ('@charset  "ascii";',)), ('prefix', ('@CHARSET "ascii";',)),
                   ('nested', ('@charset "no-such-encoding";',))]
BAD_FONTFACERULE = [('immediate', ('',)), ('immediate', ('x {top:0}',)), ('immediate', ('@media tv {}',)), ('immediate', ('@font-face;',)),
                    ('prefix', ('@font-face x { font-family: y }',)), ('prefix', ('@font-face { font-family: y } z',)), ('prefix', ('@font-face { font-family: y; $ }',)), ('prefix', ('@font-face { font-family: y } }',)),
                    ('nested', ('@font-face { font-family: y; src: url( }',)), ('nested', ('@font-face { font-family: y; src: rgb(1, }',)), ('nested', ('@font-face { font-family: y; left: 0 !foo }',))]
BAD_MARGINRULE = [('immediate', ('',)), ('immediate', ('x {top:0}',)), ('immediate', ('@media tv {}',)), ('immediate', ('@top-left;',)), ('immediate', ('@foo { top: 0 }',)),
                  ('prefix', ('@top-right x { top: 0 }',)), ('prefix', ('@top-right { top: 0 } z',)), ('prefix', ('@top-right { top: 0; $ }',)), ('prefix', ('@top-right { top: 0 } }',)),
                  ('nested', ('@top-right { top: 0; left: rgb(1, }',)), ('nested', ('@top-right { top: 0; left: 0 !foo }',))]
BAD_VARIABLESRULE = [('immediate', ('',)), ('immediate', ('x {top:0}',)), ('immediate', ('@media tv {}',)), ('immediate', ('@variables;',)),
                     ('prefix', ('@variables { a: b } z',)), ('prefix', ('@variables { a: b; $ }',)), ('prefix', ('@variables { a: b; c }',)), ('prefix', ('@variables x { a: b }',)),
                     ('nested', ('@variables { a: b; c: rgb(1, }',)), ('nested', ('@variables { a: b; c: }',))]
BAD_VARIABLESDECL = [('immediate', ('$',)), ('immediate', ('a',)), ('immediate', (': b',)),
                     ('prefix', ('a: b; c',)), ('prefix', ('a: b; $',)), ('prefix', ('a: b; c: ;',)), ('nested', ('a: b; c: rgb(1,',)), ('nested', ('a: b; c: f(]',))]
BAD_UNKNOWNRULE = [('immediate', ('',)), ('immediate', ('x {top:0}',)), ('immediate', ('/*c*/',)), ('immediate', ('$',)),
                   ('prefix', ('@y z; w',)), ('prefix', ('@y z } ;',)), ('prefix', ('@y { a } b',)), ('prefix', ('@y ( ;',)), ('prefix', ('@y z ] ;',)), ('nested', ('@y { ( } ',)), ('nested', ('@y { [ ) ] }',)),
                   ('prefix', ('@y "a',))]
BAD_COMMENT = [('immediate', ('',)), ('immediate', ('x',)), ('immediate', ('@x y;',)), ('prefix', ('/*k*/ x',)), ('prefix', ('/*k*/ /*l*/',)), ('prefix', ('/*k',))]
BAD_SHEET = [('immediate', ('}',)), ('immediate', ('$',)), ('immediate', ('x',)), ('immediate', ('@import;',)), ('immediate', ('zz|x{top:0}',)),
             ('prefix', ('x{top:0} @import "j.css";',)), ('prefix', ('x{top:0} @charset "ascii";',)), ('prefix', ('x{top:0} @namespace z "zz";',)), ('prefix', ('/*k*/ x{top:0} }',)),
             ('prefix', ('@namespace z "zz"; z|x{top:0} y{left:0} $',)), ('prefix', ('@import "j.css"; @namespace z "zz"; @import "k.css";',)), ('prefix', ('x{top:0} y',)),
             ('prefix', ('@namespace z "zz"; x{top:0} zy|x{left:0}',)), ('prefix', ('@variables{a:b} @namespace z "zz"; @variables{c:d} @import "j.css";',)),
             ('nested', ('x{top:0} @media tv{y{left:0} @import "j.css";}',)), ('nested', ('x{top:0;left:}',)), ('nested', ('x{top:0} @page{margin:0;@top-left{left:}}',)),
             ('nested', ('x{top:0} y[{left:0}',)), ('nested', ('x{top:0} @media tv and ( {y{left:0}}',)), ('nested', ('x{top:0} @font-face{src:url(}',)),
             ('nested', ('@namespace z "zz"; x{top:0} @media tv{zy|x{left:0}}',)), ('nested', ('x{top:0} y{color:rgb(1,}',)), ('nested', ('x{top:0} @import "j.css" tv and (;',))]


def _rule(text):
    """a fresh, parsed rule object of the given text (built in non-raising mode)"""
    def make(*_):
        import cssutils
        old = cssutils.log.raiseExceptions
        cssutils.log.raiseExceptions = False
        try:
            s = cssutils.parseString(text)
            return s.cssRules[0]
        finally:
            cssutils.log.raiseExceptions = old
    return make


def _with(maker, *rest):
    return lambda t, o, s: (maker(t, o, s),) + tuple(rest)


def _insert_inputs(container):  # noqa: C901
    """rejected insertRule inputs for 'sheet' / 'media' / 'page' containers"""
    out = []
    texts_bad = [('immediate', ''), ('immediate', '$'), ('immediate', '}'), ('prefix', 'x{top:0} y{left:0}'), ('prefix', 'x{top:0} }'), ('prefix', 'x{top:0} y'),
                 ('nested', 'x{top:0;left:}'), ('nested', 'x[{top:0}'), ('nested', 'zz|x{top:0}'), ('nested', '@media tv{x{top:0} @import "j.css";}'),
                 ('nested', '@page{top:0;@top-left{left:}}'), ('nested', 'x{color:rgb(1,}')]
    for st, t in texts_bad:
        out.append((st, (t,)))
        out.append((st, (t, 0)))
    # index errors
    for idx in (-1, 99):
        out.append(('position', ('x{top:0}', idx)))
        out.append(('position', _with(_rule('x{top:0}'), idx)))
    out.append(('position', lambda t, o, s: ('x{top:0}', len(_rules_of(t)) + 1)))
    # not a rule / not wellformed rule object
    out.append(('immediate', lambda t, o, s: (_C().CSSStyleRule(),)))
    out.append(('immediate', lambda t, o, s: (_C().CSSNamespaceRule(),)))
    out.append(('immediate', (42,)))
    out.append(('immediate', lambda t, o, s: (_C().CSSStyleDeclaration('top:0'),)))
    if container == 'sheet':
        # hierarchy errors at every index: text and object form
        for text in ('@charset "ascii";', '@import "j.css";', '@namespace z "zz";', '@namespace p "other";', '@variables{a:b}', 'x{top:0}', '@media tv{x{top:0}}', '@page{top:0}', '@font-face{font-family:x}', '/*k*/', '@y z;'):
            for idx in range(0, 12):
                out.append(('position', lambda t, o, s, text=text, idx=idx: (text, _idx(t, idx))))
                out.append(('position', lambda t, o, s, text=text, idx=idx: (_rule(text)(), _idx(t, idx))))
        out.append(('position', _with(_rule('@top-left{top:0}'))))
        out.append(('position', ('@top-left{top:0}',)))
        # rule list argument with a bad member late in the list
        out.append(('prefix', lambda t, o, s: (_rulelist('x{top:0} y{left:0} @import "j.css";'),)))
        out.append(('prefix', lambda t, o, s: (_rulelist('x{top:0} @charset "ascii";'), 0)))
    else:
        bad_kinds = ['@charset "ascii";', '@import "j.css";', '@namespace z "zz";', '@font-face{font-family:x}']
        bad_kinds += ['@top-left{top:0}'] if container == 'media' else ['@page{top:0}', '@media tv{x{top:0}}']
        for text in bad_kinds:
            out.append(('position', (text,)))
            out.append(('position', (text, 0)))
            out.append(('position', _with(_rule(text))))
            out.append(('position', _with(_rule(text), 0)))
        ok = 'x{top:0} y{left:0} ' if container == 'media' else '@top-right{top:0} '
        out.append(('prefix', lambda t, o, s: (_rulelist(ok + '@import "j.css";'),)))
        out.append(('prefix', lambda t, o, s: (_rulelist(ok + '@namespace z "zz";'), 0)))
    return out


def _idx(t, idx):
    if idx > len(_rules_of(t)):
        raise IndexError(idx)  # no such insertion point in this prior state: the case is skipped
    return idx


def _rules_of(t):
    return t.cssRules if hasattr(t, 'cssRules') else t


def _rulelist(text):
    import cssutils
    old = cssutils.log.raiseExceptions
    cssutils.log.raiseExceptions = False
    try:
        src = cssutils.parseString('@namespace z "zz";' + text if '@namespace' not in text and '@import' not in text and '@charset' not in text else text)
        rl = _C().CSSRuleList()
        for r in src.cssRules:
            if r.type == r.NAMESPACE_RULE and '@namespace' not in text:
                continue
            list.append(rl, r)
        if '@import' in text and not any(r.type == r.IMPORT_RULE for r in rl):
            list.append(rl, _C().CSSImportRule('j.css'))
        if '@charset' in text and not any(r.type == r.CHARSET_RULE for r in rl):
            list.append(rl, _C().CSSCharsetRule('ascii'))
        if '@namespace' in text and not any(r.type == r.NAMESPACE_RULE for r in rl):
            list.append(rl, _C().CSSNamespaceRule('zz', 'z'))
        return rl
    finally:
        cssutils.log.raiseExceptions = old


def _delete_inputs():
    return [('position', (99,)), ('position', (-99,)), ('position', lambda t, o, s: (len(_rules_of(t)),)), ('position', lambda t, o, s: (_C().CSSStyleRule('zzz', 'top:0'),)),
            ('position', lambda t, o, s: (-len(_rules_of(t)) - 1,))] + [('position', (i,)) for i in range(0, 12)]


def _add_inputs(container):
    out = [a for a in _insert_inputs(container) if not callable(a[1]) and len(a[1]) == 1]
    out += [('immediate', lambda t, o, s: (_C().CSSStyleRule(),)), ('immediate', (42,))]
    for text in ('@charset "ascii";', '@import "j.css";', '@namespace z "zz";', '@namespace p "other";', '@namespace q "other";', '@font-face{font-family:x}', '@top-left{top:0}', '@page{top:0}', '@media tv{x{top:0}}'):
        out.append(('position', _with(_rule(text))))
        out.append(('position', (text,)))
    return out


INPUTS = {
    # ---- sheet
    ('CSSStyleSheet', 'cssText'): BAD_SHEET,
    ('CSSStyleSheet', 'encoding'): [('immediate', ('no-such-encoding',)), ('immediate', ('',)), ('immediate', (42,)), ('immediate', ('"',))],
    ('CSSStyleSheet', 'insertRule'): lambda: _insert_inputs('sheet'),
    ('CSSStyleSheet', 'add'): lambda: _add_inputs('sheet'),
    ('CSSStyleSheet', 'deleteRule'): _delete_inputs,
    ('CSSStyleSheet', 'cssRules'): [('immediate', (None,)), ('immediate', (42,)), ('prefix', lambda t, o, s: ([_rule('x{top:0}')(), 42],))],
    # ---- rules
    ('CSSRule', 'atkeyword'): [('immediate', ('@zzz',)), ('immediate', ('zzz',)), ('immediate', ('',)), ('immediate', ('@media',)), ('immediate', ('@import',)), ('immediate', ('@charset',))],
    ('CSSRule', 'cssText'): [('immediate', ('',)), ('immediate', ('$',))],
    ('CSSStyleRule', 'cssText'): BAD_STYLERULE,
    ('CSSStyleRule', 'selectorText'): BAD_SELECTORLIST,
    ('CSSStyleRule', 'style'): BAD_DECL + [('immediate', (None,)), ('immediate', (42,))],
    ('CSSStyleRule', 'selectorList'): [('immediate', (None,)), ('immediate', (42,)), ('immediate', ('x, $',))],
    ('CSSMediaRule', 'cssText'): BAD_MEDIARULE,
    ('CSSMediaRule', 'media'): BAD_MEDIALIST + [('immediate', (None,)), ('immediate', (42,))],
    ('CSSMediaRule', 'name'): [('immediate', (42,)), ('immediate', (['n'],))],
    ('CSSMediaRule', 'insertRule'): lambda: _insert_inputs('media'),
    ('CSSMediaRule', 'add'): lambda: _add_inputs('media'),
    ('CSSMediaRule', 'deleteRule'): _delete_inputs,
    ('CSSMediaRule', 'cssRules'): [('immediate', (None,)), ('immediate', (42,)), ('prefix', lambda t, o, s: ([_rule('x{top:0}')(), 42],))],
    ('CSSPageRule', 'cssText'): BAD_PAGERULE,
    ('CSSPageRule', 'selectorText'): [('immediate', ('$',)), ('immediate', ('auto',)), ('immediate', (':',)), ('immediate', ('{',)), ('prefix', ('n:',)), ('prefix', ('n :left',)), ('prefix', (':left x',)),
                                      ('prefix', ('n m',)), ('prefix', (':left:',)), ('prefix', ('n:1',)), ('prefix', (':left,',))],
    ('CSSPageRule', 'style'): BAD_DECL + [('immediate', (None,)), ('immediate', (42,))],
    ('CSSPageRule', 'insertRule'): lambda: _insert_inputs('page'),
    ('CSSPageRule', 'add'): lambda: _add_inputs('page'),
    ('CSSPageRule', 'deleteRule'): _delete_inputs,
    ('CSSPageRule', 'cssRules'): [('immediate', (None,)), ('immediate', (42,)), ('prefix', lambda t, o, s: ([_rule('@top-right{top:0}')(), 42],))],
    ('CSSPageRule', '__setitem__'): [(st, ('@top-left',) + a) for st, a in BAD_DECL] + [(st, ('@top-right',) + a) for st, a in BAD_DECL]
                                    + [('immediate', ('@foo', 'top:0')), ('immediate', ('x', 'top:0')), ('immediate', ('', 'top:0')), ('immediate', ('@top-left', 42))],
    ('CSSPageRule', '__delitem__'): [('position', ('@foo',)), ('position', ('@top-right',)), ('position', ('',)), ('position', (None,))],
    ('MarginRule', 'cssText'): BAD_MARGINRULE,
    ('MarginRule', 'margin'): [('immediate', ('@foo',)), ('immediate', ('top-left',)), ('immediate', ('',)), ('immediate', ('@media',)), ('immediate', (42,)), ('immediate', ('$',))],
    ('MarginRule', 'style'): BAD_DECL + [('immediate', (None,)), ('immediate', (42,))],
    ('CSSFontFaceRule', 'cssText'): BAD_FONTFACERULE,
    ('CSSFontFaceRule', 'style'): BAD_DECL + [('immediate', (None,)), ('immediate', (42,))],
    ('CSSImportRule', 'cssText'): BAD_IMPORTRULE,
    ('CSSImportRule', 'href'): [('immediate', (None,)), ('immediate', (42,))],
    ('CSSImportRule', 'media'): BAD_MEDIALIST + [('immediate', (None,)), ('immediate', (42,))],
    ('CSSImportRule', 'name'): [('immediate', (42,)), ('immediate', (['n'],))],
    ('CSSNamespaceRule', 'cssText'): BAD_NAMESPACERULE,
    ('CSSNamespaceRule', 'namespaceURI'): [('immediate', ('other',)), ('immediate', ('',)), ('immediate', (None,)), ('immediate', (42,))],
    ('CSSNamespaceRule', 'prefix'): [('immediate', ('$',)), ('immediate', ('1x',)), ('immediate', ('"s"',)), ('immediate', (' ',)), ('prefix', ('a b',)), ('prefix', ('a$',)), ('immediate', ('/*c*/',)),
                                     ('immediate', (42,))],
    ('CSSCharsetRule', 'cssText'): BAD_CHARSETRULE,
    ('CSSCharsetRule', 'encoding'): [('immediate', ('no-such-encoding',)), ('immediate', ('',)), ('immediate', (None,)), ('immediate', ('"',)), ('prefix', ('ascii x',)), ('prefix', ('ascii"',)), ('immediate', ('$',))],
    ('CSSVariablesRule', 'cssText'): BAD_VARIABLESRULE,
    ('CSSVariablesRule', 'variables'): BAD_VARIABLESDECL + [('immediate', (None,)), ('immediate', (42,))],
    ('CSSUnknownRule', 'cssText'): BAD_UNKNOWNRULE,
    ('CSSComment', 'cssText'): BAD_COMMENT,
    # ---- declaration blocks
    ('CSSStyleDeclaration', 'cssText'): BAD_DECL,
    ('CSSStyleDeclaration', 'setProperty'): [('immediate', ('$', 'red')), ('immediate', ('', 'red')), ('immediate', ('a b', 'red')), ('immediate', ('1a', 'red')),
                                             ('prefix', ('color', '}')), ('prefix', ('color', 'red )')), ('prefix', ('left', '1px ;')), ('prefix', ('top', '1px', '!foo')), ('prefix', ('color', 'blue', 'x y')),
                                             ('prefix', ('left', '2px', '!')), ('prefix', ('zzz', '1px', 'foo')), ('prefix', ('color', 'green', '$')),
                                             ('nested', ('color', 'rgb(1,2')), ('nested', ('left', 'calc(1px +)')), ('nested', ('zzz', 'f(])')), ('nested', ('margin', '1px rgb(x)')),
                                             ('prefix', ('COLOR', 'red }', '', False)), ('prefix', ('color', 'blue', '!foo', True, False)), ('nested', ('src', 'url(', ''))],
    ('CSSStyleDeclaration', '__setitem__'): [('immediate', ('$', 'red')), ('prefix', ('color', 'red )')), ('prefix', ('left', ('1px', '!foo'))), ('nested', ('color', 'rgb(1,2')), ('prefix', ('zzz', ('1px', 'x y'))),
                                             ('nested', ('margin', ('1px calc(', 'important')))],
    ('CSSStyleDeclaration', 'removeProperty'): [('position', ('$',)), ('position', ('zzz',)), ('position', ('',)), ('position', (None,)), ('position', (42,))],
    ('CSSStyleDeclaration', '__delitem__'): [('position', ('$',)), ('position', ('zzz',)), ('position', ('',)), ('position', (42,))],
    ('CSSStyleDeclaration', '<css2property>'): [('immediate', ('}',)), ('prefix', ('red )',)), ('prefix', ('1px ;',)), ('nested', ('rgb(1,2',)), ('nested', ('1px calc(1px +)',))],
    ('CSSVariablesDeclaration', 'cssText'): BAD_VARIABLESDECL,
    ('CSSVariablesDeclaration', 'setVariable'): [('immediate', ('$', 'b')), ('immediate', ('', 'b')), ('immediate', ('a b', 'c')), ('prefix', ('c1', '}')), ('prefix', ('c1', 'b )')), ('prefix', ('zz', '1px ;')),
                                                 ('nested', ('c1', 'rgb(1,')), ('nested', ('zz', 'f(]')), ('immediate', ('c1', ''))],
    ('CSSVariablesDeclaration', '__setitem__'): [('immediate', ('$', 'b')), ('prefix', ('c1', 'b )')), ('nested', ('zz', 'rgb(1,'))],
    ('CSSVariablesDeclaration', 'removeVariable'): [('position', ('$',)), ('position', ('zz',)), ('position', ('',))],
    ('CSSVariablesDeclaration', '__delitem__'): [('position', ('$',)), ('position', ('zz',)), ('position', ('',))],
    # ---- property / values
    ('Property', 'cssText'): [('immediate', ('',)), ('immediate', ('$',)), ('immediate', (': red',)), ('immediate', ('left',)), ('immediate', ('}',)),
                              ('prefix', ('left: }',)), ('prefix', ('left:',)), ('prefix', ('left: 1px !',)), ('prefix', ('left: 1px !foo',)), ('prefix', ('left: 1px )',)), ('prefix', ('left top: 1px',)),
                              ('prefix', ('left: 1px !important x',)), ('prefix', ('left: 1px; top',)),
                              ('nested', ('left: rgb(1,2',)), ('nested', ('left: 1px calc(1px +)',)), ('nested', ('left: 1px !important !foo',)), ('nested', ('zzz: f(])',))],
    ('Property', 'name'): [('immediate', ('',)), ('immediate', ('$',)), ('immediate', ('1a',)), ('immediate', (':',)), ('prefix', ('left top',)), ('prefix', ('left:',)), ('prefix', ('left $',)), ('prefix', ('left/*c*/x',))],
    ('Property', 'value'): BAD_VALUE,
    ('Property', 'propertyValue'): BAD_VALUE,
    ('Property', 'cssValue'): BAD_VALUE,
    ('Property', 'priority'): [('immediate', ('$',)), ('immediate', ('foo',)), ('immediate', ('!',)), ('immediate', ('1',)), ('prefix', ('!foo',)), ('prefix', ('!important x',)), ('prefix', ('! important !',)),
                               ('prefix', ('important important',)), ('prefix', ('!important;',)), ('prefix', ('!/*c*/foo',))],
    ('PropertyValue', 'cssText'): BAD_VALUE,
    ('Value', 'cssText'): [('immediate', ('',)), ('immediate', ('}',)), ('immediate', ('1px',)), ('immediate', ('f(1)',)), ('prefix', ('red }',)), ('prefix', ('red blue',)), ('prefix', ('"s" x',)), ('prefix', ('#abc )',))],
    ('ColorValue', 'cssText'): [('immediate', ('',)), ('immediate', ('}',)), ('immediate', ('1px',)), ('immediate', ('zzz',)), ('prefix', ('rgb(1,2',)), ('prefix', ('rgb(1,2,3',)), ('prefix', ('rgb(1,2,3) x',)),
                                ('prefix', ('#abc x',)), ('prefix', ('rgba(1,2,3)',)), ('prefix', ('hsl(1,2%,)',)), ('nested', ('rgb(1,2,x)',)), ('nested', ('rgb(1,2,3px)',)), ('nested', ('rgb(1,2,f(3))',)), ('prefix', ('#abcd',))],
    ('DimensionValue', 'cssText'): [('immediate', ('',)), ('immediate', ('}',)), ('immediate', ('red',)), ('prefix', ('1px 2px',)), ('prefix', ('1px }',)), ('prefix', ('- 1px',)), ('prefix', ('-',)), ('prefix', ('1px/',)), ('prefix', ('+-1',))],
    ('URIValue', 'cssText'): [('immediate', ('',)), ('immediate', ('}',)), ('immediate', ('red',)), ('prefix', ('url(x) y',)), ('prefix', ('url(x',)), ('prefix', ('url(x) }',)), ('prefix', ('url("x" y)',)), ('immediate', ('"x"',))],
    ('URIValue', 'uri'): [('immediate', (None,)), ('immediate', (42,))],
    ('CSSFunction', 'cssText'): [('immediate', ('',)), ('immediate', ('}',)), ('immediate', ('red',)), ('prefix', ('g(1',)), ('prefix', ('g(1) x',)), ('prefix', ('g(1,)',)), ('prefix', ('g(1 }',)), ('nested', ('g(h(1)',)), ('nested', ('g(1, h(])',)),
                                 ('nested', ('g(rgb(1,))',))],
    ('CSSVariable', 'cssText'): [('immediate', ('',)), ('immediate', ('}',)), ('immediate', ('red',)), ('prefix', ('var(a',)), ('prefix', ('var(a) x',)), ('prefix', ('var(a b)',)), ('prefix', ('var()',)), ('prefix', ('var(1)',)),
                                 ('nested', ('var(a, rgb(1,)',))],
    ('CSSCalc', 'cssText'): [('immediate', ('',)), ('immediate', ('}',)), ('immediate', ('red',)), ('prefix', ('calc(1px',)), ('prefix', ('calc(1px +)',)), ('prefix', ('calc(1px) x',)), ('prefix', ('calc()',)), ('nested', ('calc(1px + (2px)',)),
                             ('nested', ('calc(1px + f(])',))],
    ('MSValue', 'cssText'): [('immediate', ('',)), ('immediate', ('}',)), ('immediate', ('red',)), ('prefix', ('progid:DXImageTransform.Microsoft.gradient(a=1',)), ('prefix', ('expression(1',))],
    ('Value', 'value'): [],
    # ---- selectors
    ('Selector', 'selectorText'): BAD_SELECTOR,
    ('SelectorList', 'selectorText'): BAD_SELECTORLIST,
    ('SelectorList', 'appendSelector'): BAD_SELECTORLIST,
    ('SelectorList', 'append'): BAD_SELECTORLIST,
    ('SelectorList', '__setitem__'): [(st, (0,) + a) for st, a in BAD_SELECTOR] + [(st, (-1,) + a) for st, a in BAD_SELECTOR] + [('position', (99, 'x')), ('position', (-99, 'x'))],
    ('SelectorList', '__delitem__'): [('position', (99,)), ('position', (-99,)), ('position', ('x',))],
    # ---- media
    ('MediaList', 'mediaText'): BAD_MEDIALIST,
    ('MediaList', 'appendMedium'): BAD_MEDIAQUERY + [('position', ('tty',)), ('position', ('all',)), ('position', ('print',)), ('position', ('PRINT',))],
    ('MediaList', 'append'): BAD_MEDIAQUERY + [('position', ('tty',)), ('position', ('all',))],
    ('MediaList', 'deleteMedium'): [('position', ('tty',)), ('position', ('$',)), ('position', ('',)), ('position', ('all',)), ('position', ('print and (min-width: 1px)',)), ('position', ('not print',)), ('position', ('prin',))],
    ('MediaList', '__setitem__'): [(st, (0,) + a) for st, a in BAD_MEDIAQUERY] + [(st, (-1,) + a) for st, a in BAD_MEDIAQUERY] + [('position', (99, 'tty')), ('position', (-99, 'tty'))],
    ('MediaList', '__delitem__'): [('position', (99,)), ('position', (-99,)), ('position', ('x',))],
    ('MediaQuery', 'mediaText'): BAD_MEDIAQUERY,
    ('MediaQuery', 'mediaType'): [('immediate', ('',)), ('immediate', ('$',)), ('immediate', ('3d',)), ('immediate', ('zzz',)), ('prefix', ('tv tty',)), ('prefix', ('tv and (color)',)), ('prefix', ('tv,',)), ('immediate', ('not',))],
    # ---- namespaces mapping
    ('_Namespaces', '__setitem__'): [('immediate', ('$', 'zz')), ('immediate', ('1z', 'zz')), ('immediate', ('a b', 'zz')), ('immediate', ('z', None)), ('immediate', ('z', '')),
                                     ('position', ('p', 'other')), ('position', ('q', 'other')), ('position', ('', 'other')), ('position', ('z', 'u')), ('position', ('z', 'v')), ('position', ('z', 'd')),
                                     ('position', ('p', 'v')), ('position', ('q', 'd')), ('position', ('z', 'zz'))],
    ('_Namespaces', '__delitem__'): [('position', ('zz',)), ('position', ('$',)), ('position', ('p',)), ('position', ('q',)), ('position', ('',)), ('position', (None,))],
    # ---- rule lists
    ('CSSRuleList', 'append'): lambda: [a for a in _insert_inputs('sheet') if len(a[1] if not callable(a[1]) else (0,)) == 1 or callable(a[1])][:80],
    ('CSSRuleList', 'extend'): lambda: [a for a in _insert_inputs('sheet') if not callable(a[1]) and len(a[1]) == 1],
    ('CSSRuleList', '__setitem__'): [('position', lambda t, o, s: (0, _rule('x{top:0}')())), ('position', lambda t, o, s: (99, _rule('x{top:0}')())), ('position', (0, 'x{top:0}')), ('position', (0, 42))],
    ('CSSRuleList', '__delitem__'): [('position', (99,)), ('position', (-99,))],
    ('CSSRuleList', 'insert'): [('position', lambda t, o, s: (0, _rule('@import "j.css";')())), ('position', (0, 42))],
    ('CSSRuleList', 'pop'): [('position', (99,))],
    ('CSSRuleList', 'remove'): [('position', (42,))],
    ('CSSRuleList', 'clear'): [],
}

# mechanically enumerated names that are deliberately not exercised, with the reason
EXCLUDED = {
    ('CSSStyleDeclaration', 'parentRule'): 'plain back-reference store, rejects nothing and is not part of the serialisation',
    ('CSSStyleDeclaration', 'validating'): 'plain flag store, rejects nothing',
    ('CSSVariablesDeclaration', 'parentRule'): 'plain back-reference store, rejects nothing',
    ('Property', 'parent'): 'plain back-reference store, rejects nothing',
}


# --------------------------------------------------------------------------------------------------------------------
# 5. running one target: every applicable mutator x every input, each on a fresh state

CSS2_QUICK = ('color', 'left', 'margin', 'background', 'src', 'fontFamily', 'zIndex', 'content')


def _quiet():
    import warnings
    import cssutils
    warnings.simplefilter('ignore', DeprecationWarning)
    cssutils.log.setLevel(logging.FATAL)
    cssutils.ser.prefs.useDefaults()
    return cssutils


def _reset_hidden():
    """isolation between cases: the module-level parser state C12 is about must not carry over from one case to the next"""
    import cssutils.prodparser as pp
    del pp.savedTokens[:]
    pp.tokenizer.clear()


def mutators_of(cls, table):
    """[(name, kind)] for an object of exactly class cls, from the mechanical enumeration (which lists inherited members per class)"""
    names = {}
    for c, kind, name in table:
        cname = c if isinstance(c, str) else c.__name__
        if cname == cls.__name__:
            names[name] = kind
    return sorted(names.items())


# ---- two mechanically built axes on top of the hand-written tables
#
# (a) 'other-rule': the cssText setter of EVERY rule kind receives the well-formed text of every rule kind (several spellings each).
#     A text of another kind - and, for rules that keep their identity for life (the at-keyword of an unknown rule), a text of the same
#     kind with another identity - is rejected only after it has been parsed completely, i.e. at the latest possible point of the setter.
WELLFORMED_RULE_TEXTS = {
    'charset': ['@charset "latin1";'],
    'import': ['@import "j.css" tv;', '@import url(k.css) "n";'],
    'namespace': ['@namespace z "zz";', '@namespace "dd";', '@namespace p "u";'],
    'variables': ['@variables { a: b }'],
    'fontface': ['@font-face { font-family: y }'],
    'media': ['@media tv { x { top: 0 } }', '@media tv and (color), tty "n" { }'],
    'page': ['@page :right { top: 0 }', '@page n { @top-right { top: 0 } }'],
    'margin': ['@top-right { top: 0 }', '@bottom-left-corner { }', '@TOP-LEFT { left: 0 }'],
    'style': ['x { top: 0 }', 'x, y > z { }'],
    'comment': ['/*k*/'],
    # unknown at-rules: other keyword / same keyword (letter case, escape), every body form (';' - block - brackets - string - function)
    'unknown': ['@y z;', '@y "other" [k];', '@y { a: b }', '@y;', '@-vendor-y z (w) { v }', '@yy f(1) url(u) { [ ( ) ] }', '@xy z;',
                '@x w;', '@X w { v }', '@\\78 w;', '@\\79 w;'],
}


def _other_rule_inputs():
    return [('other-rule', (t,)) for kind in sorted(WELLFORMED_RULE_TEXTS) for t in WELLFORMED_RULE_TEXTS[kind]]


# (b) 'codec': every codec Python itself ships (the modules of the ``encodings`` package)
#     as the new encoding of an @charset rule, through CSSCharsetRule.encoding, CSSCharsetRule.cssText and CSSStyleSheet.encoding.
#     The names are classified by Python's codec machinery alone (never by cssutils): unknown on this platform / not a text codec /
#     text codec that does not write '@charset "x";' as its ASCII bytes / ASCII compatible.  The first three classes pass the syntax
#     check of the setter and are refused - if at all - by its later steps; both tiers take all of them in three spellings (cp037, CP037,
#     utf-16-le); of the last class (expected to be accepted) the quick tier takes every sixth name, the thorough tier every name, and
#     the thorough tier adds every registered alias of a codec outside the last class.
_CODEC_CACHE = {}


def _codec_kind(n):
    import codecs
    probe = '@charset "x";'
    try:
        info = codecs.lookup(n)
    except LookupError:
        return 'codec-unknown'
    if not getattr(info, '_is_text_encoding', True):
        return 'codec-not-text'
    try:
        return 'codec-ascii-compatible' if probe.encode(n) == probe.encode('ascii') else 'codec-not-ascii-compatible'
    except Exception:
        return 'codec-cannot-encode'


def codec_names(tier='quick'):
    """-> [(class, name)] of Python's own codecs, classified without cssutils"""
    if tier in _CODEC_CACHE:
        return _CODEC_CACHE[tier]
    import encodings
    import encodings.aliases
    import pkgutil
    names = sorted(m.name for m in pkgutil.iter_modules(encodings.__path__) if m.name != 'aliases')
    out, n_ascii = [], 0

    def add(kind, n):
        if (kind, n) not in out:
            out.append((kind, n))
    for n in names:
        kind = _codec_kind(n)
        if kind == 'codec-ascii-compatible':
            n_ascii += 1
            if tier != 'quick' or n_ascii % 6 == 1:
                add(kind, n)
            continue
        # the spellings a user would write: hyphens for underscores, upper case
        for alt in (n, n.replace('_', '-'), n.upper()):
            add(kind, alt)
    if tier != 'quick':
        # every registered alias of a codec that is not an ASCII-compatible text codec
        for alias, target in sorted(encodings.aliases.aliases.items()):
            kind = _codec_kind(alias)
            if kind != 'codec-ascii-compatible':
                add(kind, alias)
    _CODEC_CACHE[tier] = out
    return out


def _count_codec_kinds(tier):
    out = {}
    for kind, _ in codec_names(tier):
        out[kind] = out.get(kind, 0) + 1
    return out


# (c) 'argument form': the selector text setters take a plain string or the tuple (text, {prefix: URI}); every rejected selector text
#     of the tables is given in the tuple form as well (stage name + '/ns-tuple'), with a mapping that re-binds one prefix of the
#     detached prior states and brings a new one - what a refused call must not leave behind.
NS_TUPLE = {'p': 'other', 'z': 'zz'}
SELECTOR_TEXT_KEYS = {('Selector', 'selectorText'): 0, ('SelectorList', 'selectorText'): 0, ('SelectorList', 'appendSelector'): 0, ('SelectorList', 'append'): 0,
                      ('CSSStyleRule', 'selectorText'): 0, ('SelectorList', '__setitem__'): 1}


def _ns_tuple_inputs(key, table):
    pos = SELECTOR_TEXT_KEYS[key]
    out = []
    for stage, args in table:
        if callable(args) or len(args) <= pos or not isinstance(args[pos], str):
            continue
        out.append((stage + '/ns-tuple', args[:pos] + ((args[pos], dict(NS_TUPLE)),) + args[pos + 1:]))
    return out


def _axis_inputs(key, cls, tier):
    """the mechanically built inputs for the table ``key`` (see (a), (b) and (c) above)"""
    import cssutils.css as C
    out = []
    if key in SELECTOR_TEXT_KEYS:
        v = INPUTS[key]
        out += _ns_tuple_inputs(key, v() if callable(v) else v)
    if key[1] == 'cssText' and issubclass(cls, C.CSSRule):
        out += _other_rule_inputs()
    if key in (('CSSCharsetRule', 'encoding'), ('CSSStyleSheet', 'encoding')):
        out += [(kind, (n,)) for kind, n in codec_names(tier)]
    if key == ('CSSCharsetRule', 'cssText'):
        out += [(kind, ('@charset "%s";' % n,)) for kind, n in codec_names(tier)]
    return out


def inputs_for(cls, name, tier='quick'):
    import cssutils.css as C
    for c in cls.__mro__:
        key = (c.__name__, name)
        if key in INPUTS:
            v = INPUTS[key]
            return key, list(v() if callable(v) else v) + _axis_inputs(key, cls, tier)
        if key in EXCLUDED:
            return key, None
    if issubclass(cls, C.CSSStyleDeclaration) and name in C.cssproperties.CSS2Properties._properties:
        return ('CSSStyleDeclaration', '<css2property>'), INPUTS[('CSSStyleDeclaration', '<css2property>')]
    return None, None


def _apply(target, kind, name, args):
    if kind == 'set':
        setattr(target, name, args[0])
    elif name == '__setitem__':
        target[args[0]] = args[1]
    elif name == '__delitem__':
        del target[args[0]]
    else:
        getattr(target, name)(*args)


def _fresh(state, locname):
    """-> (target, owner, sheet) or None"""
    if state == 'detached':
        t = _detached()[locname]()
        if isinstance(t, tuple):  # a target inside a detached object: (target, owner)
            return t[0], t[1], None
        return t, None, None
    if state == 'created-readonly':
        t = _readonly_factories()[locname]()
        return t, None, None
    sheet = build(state)
    got = _locators()[locname](sheet)
    if got is None or got[0] is None:
        return None
    return got[0], got[1], sheet


def _argrepr(args):
    out = []
    for a in args:
        if isinstance(a, (str, int, float, type(None), bool)):
            out.append(a)
        elif isinstance(a, (tuple, list)) and all(isinstance(x, (str, int, type(None))) for x in a):
            out.append(list(a))
        elif isinstance(a, tuple) and len(a) == 2 and isinstance(a[0], str) and isinstance(a[1], dict):
            out.append([a[0], dict(a[1])])  # the (text, namespaces) argument form
        else:
            out.append('<%s %s>' % (type(a).__name__, _g(lambda a=a: getattr(a, 'cssText', None) if not isinstance(a, list) else [getattr(r, 'cssText', r) for r in a])))
    return out


def run_target(job):  # noqa: C901
    """worker: (state, locname, tier, readonly[, mutator, lo, hi[, raising]]) -> summary dict; pure, picklable

    ``raising`` is the error mode (cssutils.log.raiseExceptions) during the mutating call: True = DOM default, False = log-only."""
    state, locname, tier, readonly = job[:4]
    only, lo, hi = (job[4], job[5], job[6]) if len(job) > 4 else (None, 0, None)
    raising = job[7] if len(job) > 7 else True
    cssutils = _quiet()
    table = [(c.__name__, k, n) for c, k, n in enumerate_mutators()] + EXTRA_MUTATORS
    res = {'job': job, 'cases': 0, 'rejected': 0, 'accepted': 0, 'other': 0, 'failures': [], 'stages': {}, 'missing': [], 'kinds': set(), 'refused': {}}
    try:
        probe = _fresh(state, locname)
        if probe is None:
            return _pack(res)
        cls = type(probe[0])
        res['class'] = cls.__name__
        for name, kind in mutators_of(cls, table):
            if only is not None and name != only:
                continue
            key, inputs = inputs_for(cls, name, tier)
            if key is None:
                res['missing'].append((cls.__name__, name))
                continue
            if inputs is None:
                continue  # excluded with a reason
            if key[1] == '<css2property>' and tier == 'quick' and name not in CSS2_QUICK:
                continue
            if readonly:
                inputs = readonly_inputs(cls, name)
                if inputs is None:
                    res['missing'].append((cls.__name__, name + ' (read-only inputs)'))
                    continue
            for stage, args in inputs[lo:hi]:
                _reset_hidden()
                cssutils.log.raiseExceptions = False
                got = _fresh(state, locname)
                target, owner, sheet = got
                if readonly and state != 'created-readonly':
                    # made read-only through the flag: the sheet / rule itself, or the owner of the rule list
                    flagged = target if not isinstance(target, list) else (owner if owner is not None else sheet)
                    flagged._readonly = True
                try:
                    a = args(target, owner, sheet) if callable(args) else args
                except (IndexError, AttributeError):
                    continue  # the argument cannot be built in this prior state (e.g. no rule to name)
                before = snapshot(target, owner, sheet, tier)
                cssutils.log.raiseExceptions = raising
                exc = None
                try:
                    _apply(target, kind, name, a)
                except xml.dom.DOMException as e:
                    exc = e
                    outcome = 'rejected'
                except Exception as e:
                    exc = e
                    outcome = 'other'
                else:
                    outcome = 'accepted'
                finally:
                    cssutils.log.raiseExceptions = False
                res['cases'] += 1
                res[outcome] += 1
                mk = f'{key[0]}.{key[1]}'
                st = res['stages'].setdefault(mk, {})
                st[stage + ':' + outcome] = st.get(stage + ':' + outcome, 0) + 1
                if not readonly and outcome != 'rejected':
                    continue  # the clause speaks about rejected calls only
                after = snapshot(target, owner, sheet, tier)
                changed = diff(before, after)
                rec = {'state': state, 'target': locname, 'class': cls.__name__, 'mutator': name, 'table': mk, 'stage': stage, 'args': _argrepr(a), 'raising': raising,
                       'exception': type(exc).__name__ if exc is not None else None, 'message': str(exc)[:160] if exc is not None else None, 'diff': changed[:6]}
                if readonly:
                    if isinstance(exc, xml.dom.NoModificationAllowedErr):
                        res['kinds'].add((cls.__name__, name, 'NoModificationAllowedErr'))
                        res['refused'][raising] = res['refused'].get(raising, 0) + 1
                        if changed:
                            rec['clause'] = 'readonly-changed'
                            res['failures'].append(rec)
                    elif changed:
                        rec['clause'] = 'readonly-not-rejected'
                        res['failures'].append(rec)
                    else:
                        # not refused and nothing changed: is the call a mutation at all?  Run it on a writable twin.
                        _reset_hidden()
                        t2, o2, s2 = _fresh(state, locname)
                        for x in (t2, o2, s2):
                            if x is not None and not isinstance(x, list) and getattr(x, '_readonly', False):
                                x._readonly = False
                        try:
                            a2 = args(t2, o2, s2) if callable(args) else args
                            b2 = snapshot(t2, o2, s2, tier)
                            cssutils.log.raiseExceptions = raising
                            try:
                                _apply(t2, kind, name, a2)
                            except Exception:
                                pass
                            finally:
                                cssutils.log.raiseExceptions = False
                            twin_changed = bool(diff(b2, snapshot(t2, o2, s2, tier)))
                        except (IndexError, AttributeError):
                            twin_changed = False
                        if twin_changed:
                            rec['clause'] = 'readonly-not-rejected'
                            rec['diff'] = ['(unchanged, but the same call changes a writable twin)']
                            res['failures'].append(rec)
                        else:
                            res['noop'] = res.get('noop', 0) + 1
                elif outcome == 'rejected':
                    res['kinds'].add((cls.__name__, name, stage, type(exc).__name__))
                    if changed:
                        rec['clause'] = 'rejected-changed'
                        res['failures'].append(rec)
    finally:
        cssutils.log.raiseExceptions = True
        cssutils.ser.prefs.useDefaults()
        _reset_hidden()
    return _pack(res)


def _pack(res):
    res['kinds'] = sorted(res['kinds'])
    return res


# ---- read-only clause: valid, state-changing arguments; a read-only object must answer NoModificationAllowedErr and stay unchanged
def _same_kw(t, o, s):
    kw = t.atkeyword
    return (kw.upper() if kw != kw.upper() else kw.lower(),)


RO_INPUTS = {
    ('CSSStyleSheet', 'cssText'): [('x{top:0}',)],
    ('CSSStyleSheet', 'encoding'): [('ascii',), (None,)],
    ('CSSStyleSheet', 'insertRule'): [('x{top:0}',), _with(_rule('x{top:0}')), lambda t, o, s: ('/*k*/', len(t.cssRules))],
    ('CSSStyleSheet', 'add'): [('x{top:0}',), _with(_rule('@import "j.css";'))],
    ('CSSStyleSheet', 'deleteRule'): [(0,), (-1,)],
    ('CSSStyleSheet', 'cssRules'): [lambda t, o, s: (_C().CSSRuleList(),)],
    ('CSSRule', 'atkeyword'): [_same_kw],
    ('CSSComment', 'atkeyword'): [],
    ('CSSStyleRule', 'atkeyword'): [],
    ('CSSUnknownRule', 'atkeyword'): [_same_kw],
    ('CSSStyleRule', 'cssText'): [('x{top:0}',)],
    ('CSSStyleRule', 'selectorText'): [('x, y',)],
    ('CSSStyleRule', 'style'): [('top: 0',), lambda t, o, s: (_C().CSSStyleDeclaration('top: 0'),)],
    ('CSSStyleRule', 'selectorList'): [lambda t, o, s: (_C().SelectorList('x, y'),)],
    ('CSSMediaRule', 'cssText'): [('@media tv{x{top:0}}',)],
    ('CSSMediaRule', 'media'): [('tv, tty',), lambda t, o, s: (_S().MediaList('tv'),)],
    ('CSSMediaRule', 'name'): [('nn',)],
    ('CSSMediaRule', 'insertRule'): [('x{top:0}',), _with(_rule('x{top:0}'), 0)],
    ('CSSMediaRule', 'add'): [('x{top:0}',)],
    ('CSSMediaRule', 'deleteRule'): [(0,)],
    ('CSSMediaRule', 'cssRules'): [lambda t, o, s: (_C().CSSRuleList(),)],
    ('CSSPageRule', 'cssText'): [('@page :right{top:0}',)],
    ('CSSPageRule', 'selectorText'): [(':right',)],
    ('CSSPageRule', 'style'): [('top: 0',)],
    ('CSSPageRule', 'insertRule'): [('@top-right{top:0}',), _with(_rule('@top-right{top:0}'), 0)],
    ('CSSPageRule', 'add'): [('@top-right{top:0}',)],
    ('CSSPageRule', 'deleteRule'): [(0,)],
    ('CSSPageRule', 'cssRules'): [lambda t, o, s: (_C().CSSRuleList(),)],
    ('CSSPageRule', '__setitem__'): [('@top-left', 'top: 0'), ('@top-right', 'top: 0'), ('@bottom-center', 'top: 0')],
    ('CSSPageRule', '__delitem__'): [('@top-left',), ('@bottom-center',)],
    ('MarginRule', 'cssText'): [('@top-right{top:0}',)],
    ('MarginRule', 'margin'): [('@top-right',)],
    ('MarginRule', 'atkeyword'): [('@top-right',)],
    ('MarginRule', 'style'): [('top: 0',)],
    ('CSSFontFaceRule', 'cssText'): [('@font-face{font-family:y}',)],
    ('CSSFontFaceRule', 'style'): [('font-family: y',)],
    ('CSSImportRule', 'cssText'): [('@import "j.css" tv;',)],
    ('CSSImportRule', 'href'): [('j.css',)],
    ('CSSImportRule', 'media'): [('tv',)],
    ('CSSImportRule', 'name'): [('nn',)],
    ('CSSNamespaceRule', 'cssText'): [('@namespace z "zz";',)],
    ('CSSNamespaceRule', 'namespaceURI'): [('zz',)],
    ('CSSNamespaceRule', 'prefix'): [('z',)],
    ('CSSCharsetRule', 'cssText'): [('@charset "latin1";',)],
    ('CSSCharsetRule', 'encoding'): [('latin1',)],
    ('CSSVariablesRule', 'cssText'): [('@variables{a:b}',)],
    ('CSSVariablesRule', 'variables'): [('a: b',)],
    ('CSSUnknownRule', 'cssText'): [('@y z;',)],
    ('CSSComment', 'cssText'): [('/*k*/',)],
    ('CSSStyleDeclaration', 'cssText'): [('top: 0',)],
    ('CSSStyleDeclaration', 'setProperty'): [('top', '0'), ('color', 'blue'), ('color', 'blue', 'important'), ('color', '')],
    ('CSSStyleDeclaration', '__setitem__'): [('top', '0'), ('color', 'blue')],
    ('CSSStyleDeclaration', 'removeProperty'): [('color',)],
    ('CSSStyleDeclaration', '__delitem__'): [('color',)],
    ('CSSStyleDeclaration', '<css2property>'): [('inherit',)],
    ('CSSVariablesDeclaration', 'cssText'): [('a: b',)],
    ('CSSVariablesDeclaration', 'setVariable'): [('a', 'b'), ('c1', 'blue')],
    ('CSSVariablesDeclaration', '__setitem__'): [('a', 'b')],
    ('CSSVariablesDeclaration', 'removeVariable'): [('c1',)],
    ('CSSVariablesDeclaration', '__delitem__'): [('c1',)],
    ('PropertyValue', 'cssText'): [('2em',)],
    ('Value', 'cssText'): [('blue',)],
    ('Value', 'value'): [('blue',)],
    ('ColorValue', 'cssText'): [('#fff',)],
    ('DimensionValue', 'cssText'): [('2em',)],
    ('DimensionValue', 'value'): [(7,)],
    ('URIValue', 'cssText'): [('url(y)',)],
    ('URIValue', 'uri'): [('y',)],
    ('URIValue', 'value'): [('y',)],
    ('CSSFunction', 'cssText'): [('g(2)',)],
    ('CSSVariable', 'cssText'): [('var(b)',)],
    ('CSSCalc', 'cssText'): [('calc(3px + 4px)',)],
    ('MSValue', 'cssText'): [('expression(2)',)],
    ('Selector', 'selectorText'): [('x y',)],
    ('SelectorList', 'selectorText'): [('x, y',)],
    ('SelectorList', 'appendSelector'): [('x',)],
    ('SelectorList', 'append'): [('x',)],
    ('SelectorList', '__setitem__'): [(0, 'x')],
    ('SelectorList', '__delitem__'): [(0,)],
    ('MediaList', 'mediaText'): [('tv, tty',)],
    ('MediaList', 'appendMedium'): [('tty',)],
    ('MediaList', 'append'): [('tty',)],
    ('MediaList', 'deleteMedium'): [('print',)],
    ('MediaList', '__setitem__'): [(0, 'tty')],
    ('MediaList', '__delitem__'): [(0,)],
    ('MediaQuery', 'mediaText'): [('tv',)],
    ('MediaQuery', 'mediaType'): [('tv',)],
    ('CSSRuleList', 'append'): [('x{top:0}',), _with(_rule('x{top:0}'))],
    ('CSSRuleList', 'extend'): [('x{top:0}',)],
    ('CSSRuleList', '__setitem__'): [lambda t, o, s: (0, _rule('x{top:0}')())],
    ('CSSRuleList', '__delitem__'): [(0,)],
    ('CSSRuleList', 'insert'): [lambda t, o, s: (0, _rule('/*k*/')())],
    ('CSSRuleList', 'pop'): [()],
    ('CSSRuleList', 'remove'): [lambda t, o, s: (t[0],)],
    ('CSSRuleList', 'clear'): [()],
}


def readonly_inputs(cls, name):
    import cssutils.css as C
    for c in cls.__mro__:
        key = (c.__name__, name)
        if key in RO_INPUTS:
            return [('readonly', a) for a in RO_INPUTS[key]]
    if issubclass(cls, C.CSSStyleDeclaration) and name in C.cssproperties.CSS2Properties._properties:
        return [('readonly', a) for a in RO_INPUTS[('CSSStyleDeclaration', '<css2property>')]]
    return None


def _readonly_factories():
    """objects created read-only through their constructor: class name -> factory"""
    import cssutils.css as C
    import cssutils.stylesheets as S
    return {
        'CSSStyleSheet': lambda: C.CSSStyleSheet(readonly=True),
        'CSSRule': None,  # abstract base, never instantiated by users
        'CSSComment': lambda: C.CSSComment('/*c*/', readonly=True),
        'CSSCharsetRule': lambda: C.CSSCharsetRule('ascii', readonly=True),
        'CSSFontFaceRule': lambda: C.CSSFontFaceRule('font-family: x', readonly=True),
        'CSSImportRule': lambda: C.CSSImportRule('x.css', 'print', 'n', readonly=True),
        'CSSMediaRule': lambda: C.CSSMediaRule('print', 'n', readonly=True),
        'CSSNamespaceRule': lambda: C.CSSNamespaceRule('u', 'p', readonly=True),
        'CSSPageRule': lambda: C.CSSPageRule(':left', 'margin: 0', readonly=True),
        'MarginRule': lambda: C.MarginRule('@top-left', 'color: red', readonly=True),
        'CSSStyleRule': lambda: C.CSSStyleRule('a, b', 'color: red; left: 0', readonly=True),
        'CSSUnknownRule': lambda: C.CSSUnknownRule('@x y;', readonly=True),
        'CSSVariablesRule': lambda: C.CSSVariablesRule(variables=C.CSSVariablesDeclaration('c1: red'), readonly=True),
        'CSSVariablesDeclaration': lambda: C.CSSVariablesDeclaration('c1: red; c2: 1px', readonly=True),
        'Selector': lambda: C.Selector('a b', readonly=True),
        'SelectorList': lambda: C.SelectorList('a, b', readonly=True),
        'CSSStyleDeclaration': lambda: C.CSSStyleDeclaration('color: red; left: 0 !important', readonly=True),
        'PropertyValue': lambda: C.PropertyValue('1px red', readonly=True),
        'Value': lambda: C.Value('red', readonly=True),
        'ColorValue': lambda: C.ColorValue('#abc', readonly=True),
        'DimensionValue': lambda: C.DimensionValue('1px', readonly=True),
        'URIValue': lambda: C.URIValue('url(x)', readonly=True),
        'CSSFunction': lambda: C.CSSFunction('f(1)', readonly=True),
        'CSSVariable': lambda: C.CSSVariable('var(a)', readonly=True),
        'MSValue': lambda: C.MSValue('expression(1)', readonly=True),
        'CSSCalc': lambda: C.CSSCalc('calc(1px + 2px)', readonly=True),
        'MediaList': lambda: S.MediaList('print, tv', readonly=True),
        'MediaQuery': lambda: S.MediaQuery('print and (min-width: 1px)', readonly=True),
    }


RO_FLAGGED = ('sheet', 'sheet.cssRules', 'media', 'media.cssRules', 'page', 'page.cssRules')


CHUNK = 40



def error_modes(tier, readonly):
    """error modes (cssutils.log.raiseExceptions) in which the mutating call is made.

    The read-only clause is unconditional ("reject every mutator"), so it is checked in both modes of the error handler in every tier.
    The rejected-call clause is about calls that ended in a DOM exception: the rejecting inputs produce these in raising mode; in
    log-only mode only the exceptions raised directly (not through the log) remain - about 4% of the calls, with no (class, mutator,
    stage, exception) combination that raising mode does not have -, so that mode is run in the thorough tier only."""
    if readonly or tier != 'quick':
        return (True, False)
    return (True,)


def all_jobs(tier, readonly=False):
    """(state, target, tier, readonly, mutator, lo, hi): one job per mutator and slice of its input table, heavy tables split"""
    _quiet()
    table = [(c.__name__, k, n) for c, k, n in enumerate_mutators()] + EXTRA_MUTATORS
    targets = []
    if readonly:
        for state in states_of(tier):
            for locname in RO_FLAGGED:
                targets.append((state, locname))
        for clsname, f in _readonly_factories().items():
            if f is not None:
                targets.append(('created-readonly', clsname))
    else:
        for state in states_of(tier):
            for locname in _locators():
                targets.append((state, locname))
        for locname in _detached():
            targets.append(('detached', locname))
    jobs = []
    import cssutils
    try:
        for state, locname in targets:
            got = _fresh(state, locname)
            if got is None:
                continue
            cls = type(got[0])
            for name, kind in mutators_of(cls, table):
                key, inputs = inputs_for(cls, name, tier)
                if key is not None and inputs is not None and readonly:
                    inputs = readonly_inputs(cls, name)
                n = len(inputs) if inputs else 1
                for lo in range(0, n, CHUNK):
                    for raising in error_modes(tier, readonly):
                        jobs.append((state, locname, tier, readonly, name, lo, lo + CHUNK, raising))
    finally:
        cssutils.log.raiseExceptions = True
    # heavy states first so that the pool drains evenly
    jobs.sort(key=lambda j: (-len(STATES.get(j[0], '')), j[0], j[1], j[4], j[5]))
    return jobs


def states_of(tier):
    return list(STATES) if tier != 'quick' else [s for s in STATES if s in QUICK_STATES]


# --------------------------------------------------------------------------------------------------------------------
# 6. recorded findings: sharp classes (everything outside them is a violation)

VALUE_FAMILY = ('Value', 'ColorValue', 'DimensionValue', 'URIValue', 'CSSFunction', 'CSSVariable', 'MSValue', 'CSSCalc')


def classify(f):  # noqa: C901
    """-> id of the recorded finding whose class contains this failure, or None"""
    c, m, cl = f['class'], f['mutator'], f['clause']
    a0 = f['args'][0] if f['args'] else None
    if cl == 'rejected-changed':
        if c == 'CSSStyleSheet' and m == 'cssText':
            return 'C11-sheet-csstext-no-restore'
        if c == 'CSSMediaRule' and m == 'cssText':
            return 'C11-media-csstext-partial'
        if c == 'MarginRule' and m == 'cssText' and f['exception'] == 'SyntaxErr' and f['stage'] in ('prefix', 'nested'):
            return 'C11-margin-csstext-partial'
        if c == 'Property' and m == 'cssText' and f['stage'] in ('prefix', 'nested'):
            return 'C11-property-csstext-partial'
        if c == 'Property' and m == 'priority' and f['exception'] == 'SyntaxErr' and 'No CSS priority value' in (f['message'] or ''):
            return 'C11-property-priority-commit-before-check'
        if c in ('CSSStyleSheet', 'CSSMediaRule', 'CSSPageRule') and m in ('insertRule', 'add') and isinstance(a0, str) and a0.startswith('<CSSRuleList'):
            return 'C11-insertrule-rulelist-partial'
        if c == 'CSSRuleList' and m in ('append', 'extend') and isinstance(a0, str) and a0.startswith('<CSSRuleList'):
            return 'C11-insertrule-rulelist-partial'
        if (c in ('CSSStyleSheet', 'CSSRuleList') and m in ('insertRule', 'add', 'append', 'extend') and f['exception'] == 'NoModificationAllowedErr'
                and 'NamespaceURI defined in this rule is used' in (f['message'] or '') and '@namespace' in str(a0)):
            return 'C11-namespace-insert-cleanup-raises'
        if c == 'CSSNamespaceRule' and m == 'cssText' and f['exception'] == 'NoModificationAllowedErr' and 'namespaceURI is readonly' in (f['message'] or ''):
            return 'C11-namespace-csstext-prefix-before-uri'
        return None
    # read-only clause
    if cl == 'readonly-not-rejected':
        if c in VALUE_FAMILY and f['state'] == 'created-readonly':
            return 'C11-ro-value-constructor-ignores-readonly'
        if m in ('atkeyword', 'margin'):
            return 'C11-ro-atkeyword-unguarded'
        if c == 'CSSRuleList' and m in ('__delitem__', 'insert', 'pop', 'remove', 'clear'):
            return 'C11-ro-rulelist-list-builtins'
        if (c, m) in (('SelectorList', '__delitem__'), ('MediaList', '__delitem__'), ('CSSVariablesDeclaration', '__delitem__'), ('CSSVariablesDeclaration', 'removeVariable')):
            return 'C11-ro-item-deletion-unguarded'
        if (c, m) in (('CSSStyleSheet', 'cssRules'), ('CSSMediaRule', 'cssRules'), ('CSSPageRule', 'cssRules'), ('CSSMediaRule', 'name'), ('CSSImportRule', 'href'), ('CSSImportRule', 'name')):
            return 'C11-ro-setters-unguarded'
        if (c, m) == ('CSSStyleSheet', 'encoding') and isinstance(a0, str) and a0:
            return 'C11-ro-delegating-mutators'
        if (c, m) == ('CSSPageRule', '__setitem__'):
            return 'C11-ro-delegating-mutators'
    return None


def _raises_and_changes(make, act, view):
    """witness helper: does act(obj) raise a DOM exception in raising mode and leave view(obj) changed"""
    import cssutils
    old = cssutils.log.raiseExceptions
    try:
        cssutils.log.raiseExceptions = False
        o = make()
        before = view(o)
        cssutils.log.raiseExceptions = True
        try:
            act(o)
        except xml.dom.DOMException:
            return view(o) != before
        except Exception:
            return False
        return False
    finally:
        cssutils.log.raiseExceptions = old
        _reset_hidden()


def _accepts_and_changes(make, act, view):
    """witness helper (read-only clause): act(obj) on a read-only obj is not refused and changes view(obj)"""
    import cssutils
    old = cssutils.log.raiseExceptions
    try:
        cssutils.log.raiseExceptions = False
        o = make()
        before = view(o)
        cssutils.log.raiseExceptions = True
        try:
            act(o)
        except Exception:
            return False
        return view(o) != before
    finally:
        cssutils.log.raiseExceptions = old
        _reset_hidden()


def _ro_sheet(text):
    import cssutils
    s = cssutils.parseString(text)
    s._readonly = True
    return s


def witnesses():
    import cssutils
    C, S = _C(), _S()
    txt = lambda o: o.cssText  # noqa: E731
    return {
        'C11-sheet-csstext-no-restore': lambda: _raises_and_changes(lambda: cssutils.parseString('a{color:red}'), lambda s: setattr(s, 'cssText', 'b{top:0} @import "x";'), txt),
        'C11-media-csstext-partial': lambda: _raises_and_changes(lambda: C.CSSMediaRule('print'), lambda r: setattr(r, 'cssText', '@media screen { b{left:1px} @import "x"; }'), txt),
        'C11-margin-csstext-partial': lambda: _raises_and_changes(lambda: C.MarginRule('@top-left', 'color:red'), lambda r: setattr(r, 'cssText', '@top-right { top: 0; $ }'), lambda r: (r.cssText, r.margin)),
        'C11-property-csstext-partial': lambda: _raises_and_changes(lambda: C.Property('color', 'red'), lambda r: setattr(r, 'cssText', 'left: }'), txt),
        'C11-property-priority-commit-before-check': lambda: _raises_and_changes(lambda: C.Property('color', 'red'), lambda r: setattr(r, 'priority', '!foo'), txt),
        'C11-insertrule-rulelist-partial': lambda: _raises_and_changes(lambda: cssutils.parseString('a{color:red}'), lambda s: s.insertRule(_rulelist('x{top:0} @charset "ascii";'), 0), txt),
        'C11-namespace-insert-cleanup-raises': lambda: _raises_and_changes(lambda: cssutils.parseString(STATES['ns']), lambda s: s.add(C.CSSNamespaceRule('other', 'p')), txt),
        'C11-namespace-csstext-prefix-before-uri': lambda: _raises_and_changes(lambda: cssutils.parseString('@namespace p "u"; p|a{top:0}'),
                                                                               lambda s: setattr(s.cssRules[0], 'cssText', '@namespace z "zz";'), txt),
        'C11-ro-value-constructor-ignores-readonly': lambda: _accepts_and_changes(lambda: C.Value('red', readonly=True), lambda v: setattr(v, 'cssText', 'blue'), txt),
        'C11-ro-atkeyword-unguarded': lambda: _accepts_and_changes(lambda: C.MarginRule('@top-left', 'color:red', readonly=True), lambda r: setattr(r, 'atkeyword', '@top-right'), txt),
        'C11-ro-rulelist-list-builtins': lambda: _accepts_and_changes(lambda: _ro_sheet('a{color:red}'), lambda s: operator.delitem(s.cssRules, 0), txt),
        'C11-ro-item-deletion-unguarded': lambda: _accepts_and_changes(lambda: C.SelectorList('a, b', readonly=True), lambda sl: operator.delitem(sl, 0), lambda sl: sl.selectorText),
        'C11-ro-setters-unguarded': lambda: _accepts_and_changes(lambda: C.CSSImportRule('x.css', 'print', 'n', readonly=True), lambda r: setattr(r, 'name', 'nn'), txt),
        'C11-ro-delegating-mutators': lambda: _accepts_and_changes(lambda: _ro_sheet('@charset "utf-8"; a{color:red}'), lambda s: setattr(s, 'encoding', 'ascii'), txt),
    }


CLAUSE_TEXT = {
    'rejected-changed': 'bounded: a call rejected with a DOM exception leaves target, owner rule and sheet serialising and answering structural queries as before',
    'readonly-not-rejected': 'bounded: a read-only object answers a mutating call with NoModificationAllowedErr',
    'readonly-changed': 'bounded: a read-only object is unchanged after refusing a mutator',
}


# --------------------------------------------------------------------------------------------------------------------
# 7. entry points


def _run(ctx, readonly):
    import multiprocessing as mp
    jobs = all_jobs(ctx.tier, readonly=readonly)
    if ctx.jobs > 1:
        with mp.Pool(ctx.jobs) as pool:
            results = pool.map(run_target, jobs, chunksize=1)
    else:
        results = [run_target(j) for j in jobs]
    return jobs, results


def _report(ctx, results):
    n_viol = 0
    for r in results:
        for f in r['failures']:
            kid = classify(f)
            what = f"{CLAUSE_TEXT[f['clause']]} [{f['class']}.{f['mutator']}]"
            detail = (f"prior state {f['state']!r}, target {f['target']!r}, cssutils.log.raiseExceptions={f.get('raising', True)}: {f['class']}.{f['mutator']}{tuple(f['args'])!r} ({f['stage']}) -> "
                      f"{f['exception'] or 'no exception'}: {f['message']}; changed: {'; '.join(f['diff'][:3])}")
            inputs = {'state': f['state'], 'state_text': STATES.get(f['state']), 'target': f['target'], 'class': f['class'], 'mutator': f['mutator'], 'args': f['args'],
                      'read_only': f['clause'].startswith('readonly'), 'raiseExceptions': f.get('raising', True)}
            ctx.violation(what, detail, True, inputs, known_id=kid)
            if kid is None or kid not in ctx.known:
                n_viol += 1
    return n_viol


def _known_lines(ctx, ids):
    w = witnesses()
    for kid in ids:
        try:
            still = bool(w[kid]())
        except Exception:
            still = False
        ctx.known_finding(kid, still)


def _coverage_gaps(ctx, results, readonly):
    """every mechanically enumerated mutator must have been exercised (input table or stated exclusion)"""
    missing = sorted({tuple(m) for r in results for m in r['missing']})
    for cls, name in missing:
        ctx.undecided.append(f'C11 {"read-only " if readonly else ""}inputs: no input table and no exclusion for the enumerated mutator {cls}.{name}')
    return missing


def rejected(ctx):
    """clause 1: every public mutator x rejected-at-every-stage inputs x prior states: DOMException => nothing changed"""
    _quiet()
    muts = enumerate_mutators()
    profiles, unhandled = pref_profiles(ctx.tier)
    for k in unhandled:
        ctx.undecided.append(f'C11 snapshot: serializer preference {k} has a default of a type the profile rule cannot vary; the snapshot is not taken under a non-default value of it')
    jobs, results = _run(ctx, False)
    _report(ctx, results)
    _coverage_gaps(ctx, results, False)
    kinds = sorted({tuple(k) for r in results for k in r['kinds']})
    never = {}
    for r in results:
        for mk, st in r['stages'].items():
            d = never.setdefault(mk, 0)
            never[mk] = d + sum(v for k, v in st.items() if k.endswith(':rejected'))
    never_rejected = sorted(mk for mk, v in never.items() if v == 0)
    floor = 250 if ctx.tier == 'quick' else 300
    if len(kinds) < floor:
        ctx.undecided.append(f'C11 rejected-inputs domain has shrunk: only {len(kinds)} distinct (class, mutator, stage, exception) kinds were rejected (expected >= {floor}); '
                             'the input tables no longer exercise the rejection paths')
    _known_lines(ctx, ['C11-sheet-csstext-no-restore', 'C11-media-csstext-partial', 'C11-margin-csstext-partial', 'C11-property-csstext-partial',
                       'C11-property-priority-commit-before-check', 'C11-insertrule-rulelist-partial', 'C11-namespace-insert-cleanup-raises',
                       'C11-namespace-csstext-prefix-before-uri'])
    classes = sorted({c.__name__ for c, _, _ in muts} | {c for c, _, _ in EXTRA_MUTATORS})
    ctx.bounded.append({
        'name': 'rejected mutations', 'evaluations': sum(r['cases'] for r in results), 'distinct_nontrivial': len(kinds), 'exhaustive': False,
        'rule': (f'{len(muts)} public mutators of {len(classes)} DOM classes enumerated mechanically from the class ASTs (+{len(EXTRA_MUTATORS)} listed list/mapping operations) x input tables built to be '
                 'rejected immediately / after an acceptable prefix / inside a nested object / by position, '
                 f'plus two mechanically built axes - the cssText setter of every rule kind is given {len(_other_rule_inputs())} well-formed texts covering every rule kind (unknown at-rules with the same and with '
                 f'another at-keyword in every body form), and CSSCharsetRule.encoding / .cssText and CSSStyleSheet.encoding are given {len(codec_names(ctx.tier))} spellings of the codecs Python ships '
                 '(' + ', '.join(f'{n} {k}' for k, n in sorted(_count_codec_kinds(ctx.tier).items())) + '; classified by the codec machinery alone), and every rejected selector text of the tables is given to '
                 f'the {len(SELECTOR_TEXT_KEYS)} selector text mutators in the (text, namespaces) tuple form as well - x '
                 f'{len(states_of(ctx.tier))} prior sheets (every reachable target of each) + {len(_detached())} detached objects ({sum(1 for k in _detached() if "namespaced" in k)} of them namespaced: selector, selector list, style rule and style rule '
                 'inside a detached @media rule built with a prefix mapping of their own, and the selectors / selector lists inside them), each case on a freshly parsed state in raising mode' + (' and in log-only mode' if ctx.tier != 'quick' else '') + '; '
                 'compared: cssText of target / owner rule / sheet, rule types, property list, selector list, media list, namespaces (of sheets, and the prefix mapping selectors / selector lists / style rules resolve with), and the serialisation of target / owner rule / sheet under '
                 f'{len(profiles)} non-default serializer preference profiles (the {len(vars(__import__("cssutils").ser.prefs))} preferences at a non-default value one at a time' + (' - string-valued ones only jointly -' if ctx.tier == 'quick' else '') + ', useMinified(), all flipped at once); '
                 'distinct = (class, mutator, stage, DOM exception) combinations that were actually rejected'),
        'rejected_calls': sum(r['rejected'] for r in results), 'rejected_calls_log_only_mode': sum(r['rejected'] for r in results if len(r['job']) > 7 and r['job'][7] is False), 'accepted_calls': sum(r['accepted'] for r in results), 'non_dom_exceptions': sum(r['other'] for r in results),
        'mutators_never_rejected_by_any_input': never_rejected,
        'samples': [{'class': k[0], 'mutator': k[1], 'stage': k[2], 'exception': k[3]} for k in kinds[:: max(1, len(kinds) // 3)][:3]],
        'preference_profiles': list(profiles),
        'bound': (f'{len(jobs)} (state, target, mutator) jobs; fixed input tables; every rule kind x {len(_other_rule_inputs())} well-formed rule texts; codec names: every module of the encodings package'
                  ' that is not an ASCII-compatible text codec (underscore, hyphen and upper-case spelling) and ' + ('every sixth ASCII-compatible one' if ctx.tier == 'quick' else 'every ASCII-compatible one, plus the registered aliases of the former') + '; '
                  f'{len(states_of(ctx.tier))} prior states; detached namespaced states: one selector ({NS_SELECTOR!r}), one selector list ({NS_SELECTORLIST!r}), one mapping ({NS_DETACHED!r}); tuple-form mapping {NS_TUPLE!r}; {len(profiles)} serializer preference profiles besides the defaults '
                  '(boolean preferences flipped, importHrefFormat at both documented values, string-valued preferences ' + ("only jointly at ''" if ctx.tier == 'quick' else "one at a time at '' and a tab") + '); calls made with cssutils.log.raiseExceptions in '
                  + repr(error_modes(ctx.tier, False)))})


def readonly(ctx):
    """clause 2: objects created read-only (constructor flag; sheets / rules / their rule lists through _readonly) refuse every mutator and stay unchanged"""
    _quiet()
    jobs, results = _run(ctx, True)
    _report(ctx, results)
    _coverage_gaps(ctx, results, True)
    # every class whose constructor takes ``readonly`` must have a factory
    fac = _readonly_factories()
    for cls in dom_classes():
        try:
            has = 'readonly' in inspect.signature(cls.__init__).parameters
        except (TypeError, ValueError):
            has = False
        if has and cls.__name__ not in fac:
            ctx.undecided.append(f'C11 read-only clause: no read-only factory for {cls.__name__}')
    kinds = sorted({tuple(k) for r in results for k in r['kinds']})
    _known_lines(ctx, ['C11-ro-value-constructor-ignores-readonly', 'C11-ro-atkeyword-unguarded', 'C11-ro-rulelist-list-builtins', 'C11-ro-item-deletion-unguarded',
                       'C11-ro-setters-unguarded', 'C11-ro-delegating-mutators'])
    floor = 60
    if len(kinds) < floor:
        ctx.undecided.append(f'C11 read-only domain has shrunk: only {len(kinds)} (class, mutator) pairs answered NoModificationAllowedErr (expected >= {floor})')
    ctx.bounded.append({
        'name': 'read-only objects', 'evaluations': sum(r['cases'] for r in results), 'distinct_nontrivial': len(kinds), 'exhaustive': False,
        'rule': (f'{sum(1 for f in fac.values() if f)} classes constructed with readonly=True, and sheets / @media / @page rules and their rule lists flagged _readonly in {len(states_of(ctx.tier))} prior sheets, '
                 'x every enumerated mutator x valid state-changing arguments x both error modes (cssutils.log.raiseExceptions True and False): NoModificationAllowedErr and identical snapshot '
                 f'(including the serialisation under {len(pref_profiles(ctx.tier)[0])} non-default serializer preference profiles) required; a call that is not refused and changes nothing is compared with a '
                 'writable twin (it must be a no-op there too); distinct = (class, mutator) pairs that refused'),
        'noop_calls': sum(r.get('noop', 0) for r in results),
        'refused_calls_raising_mode': sum(r['refused'].get(True, 0) for r in results),
        'refused_calls_log_only_mode': sum(r['refused'].get(False, 0) for r in results),
        'samples': [{'class': k[0], 'mutator': k[1], 'answer': k[2]} for k in kinds[:3]],
        'bound': f'{len(jobs)} jobs; fixed argument tables; error modes: raising and log-only'})


def _explore(argv):
    import collections
    import time

    class Ctx:
        tier = 'quick'
        jobs = 16
    Ctx.tier = 'thorough' if '--thorough' in argv else 'quick'
    ro = '--ro' in argv
    t0 = time.time()
    jobs, results = _run(Ctx, ro)
    print('wall', round(time.time() - t0, 1), 'jobs', len(jobs), 'cases', sum(r['cases'] for r in results), 'rejected', sum(r['rejected'] for r in results),
          'accepted', sum(r['accepted'] for r in results), 'other', sum(r['other'] for r in results), 'kinds', len({tuple(k) for r in results for k in r['kinds']}))
    print('MISSING', sorted({tuple(m) for r in results for m in r['missing']}))
    stages = {}
    for r in results:
        for mk, st in r['stages'].items():
            stages.setdefault(mk, collections.Counter()).update(st)
    if '-v' in argv:
        for mk in sorted(stages):
            print('  ', mk, dict(stages[mk]))
    groups = collections.OrderedDict()
    for r in results:
        for f in r['failures']:
            groups.setdefault((f['class'], f['mutator'], f['exception'], classify(f)), []).append(f)
    for k, fs in groups.items():
        print('FAIL', k, len(fs))
        if k[3] is None or '-v' in argv:
            for f in fs[:4]:
                print('     ', f['state'], f['target'], f['stage'], f['args'], '|', f['message'], '|', f['diff'][:2])


if __name__ == '__main__':
    import sys
    _explore(sys.argv)
