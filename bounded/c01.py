"""C01 bounded stand-in: run-time contract on the real, non-raising parse entry points over enumerated input domains.

Contract (from the statement): for every input the default entry points (cssutils.parseString / parseStyle /
CSSParser(...).parseString) return a CSSStyleSheet / CSSStyleDeclaration without raising ANY exception, within a time bound;
the result's cssText serialises, that text parses again and serialises again, all without an exception.

A failure is described by its *site*: (exception type, file and qualified name of the innermost frame that lies in the
checked tree).  Recorded findings (known/C01.json) are matched by site, never by input: a crash at a site that is not
listed is a violation, a listed site that no longer crashes is simply not printed.
"""
import itertools
import logging
import os
import signal
import sys
import time

# --------------------------------------------------------------------------------------------------------------------
# the token-snippet alphabet (DESIGN Appendix C): one or two spellings per token kind + the characters the statement names
ALPHABET = [
    'a', 'b:c', 'important', 'and', '\xe9',                                        # idents, a declaration, keywords, non-ASCII letter
    '@charset', '@import', '@namespace', '@media', '@page', '@font-face', '@variables',  # the reserved at-keywords
    '@charset ', '@x',                                                             # CHARSET_SYM proper, an unknown at-keyword
    '{', '}', '(', ')', '[', ']', ';', ':', ',', '!',
    '"s"', '"', "'",                                                               # closed string, bare quotes
    'url(x)', 'url(', 'f(', 'var(', 'rgb(', 'calc(', 'not(',
    '1', '2px', '3%', '#abc', '#',
    '<!--', '-->', '/*c*/', '/*',
    ' ', '\n',
    '\\', '\\a',                                                                   # bare backslash, hex escape (of a line feed)
    '.', '*', '|', '>', '+', '~', '=',
    'U+1-2', '$',
]
assert len(ALPHABET) == len(set(ALPHABET))

CASE_TIMEOUT = 10.0  # seconds for ONE tiny input (<= 40 characters): three orders of magnitude above the measured maximum


class _Timeout(BaseException):
    pass


def _on_alarm(signum, frame):
    raise _Timeout()


_STATE = {}


def _setup():
    """per process: quiet log, alarm handler, the root of the checked tree"""
    if _STATE:
        return _STATE
    import cssutils
    cssutils.log.setLevel(logging.FATAL)
    root = os.path.dirname(os.path.dirname(os.path.abspath(cssutils.__file__)))
    _STATE['root'] = root + os.sep
    _STATE['cssutils'] = cssutils
    try:
        signal.signal(signal.SIGALRM, _on_alarm)
        signal.signal(signal.SIGPROF, _on_alarm)
        _STATE['alarm'] = True
    except ValueError:  # not in the main thread
        _STATE['alarm'] = False
    return _STATE


def site_of(exc):
    """(exception type name, repo-relative file, qualified function name) of the innermost frame inside the checked tree.
    For a RecursionError the innermost frame is an accident of the stack depth; the site is then the outermost frame
    that occurs three or more times (the entry of the recursion cycle), which is determined by the input alone."""
    st = _setup()
    root = st['root']
    frames = []
    tb = exc.__traceback__
    while tb is not None:
        co = tb.tb_frame.f_code
        fn = co.co_filename
        if fn.startswith(root):
            frames.append((fn[len(root):].replace(os.sep, '/'), getattr(co, 'co_qualname', co.co_name)))
        tb = tb.tb_next
    name = type(exc).__name__
    if not frames:
        return (name, '<outside>', '<outside>')
    if isinstance(exc, RecursionError):
        counts = {}
        for f in frames:
            counts[f] = counts.get(f, 0) + 1
        # the cycle entry: the first frame, in call order, that occurs three or more times
        for f in frames:
            if counts[f] >= 3:
                return (name,) + f
    return (name,) + frames[-1]


def _fail(stage, exc):
    site = site_of(exc)
    return {'stage': stage, 'site': site, 'msg': f'{type(exc).__name__}: {str(exc)[:160]}', 'frames': [] if site[0] == 'RecursionError' else _frames_of(exc)}


def run_case(mode, text, parse_comments=True, validate=True, timeout=CASE_TIMEOUT, parser_kw=None, parse_kw=None):
    """evaluate the contract for one input; returns (failure dict or None, signature of the DOM, seconds of the first parse)

    mode 'sheet': CSSParser(parseComments, validate).parseString(text) (cssutils.parseString is this with defaults)
    mode 'style': CSSParser(...).parseStyle(text)
    """
    st = _setup()
    cssutils = st['cssutils']
    stage = 'parse'
    sig = None
    t_parse = None
    if st['alarm'] and timeout:
        # the budget is CPU time of this process (robust on a loaded machine); a wall-clock alarm ten times as long catches a blocked call
        signal.setitimer(signal.ITIMER_PROF, timeout)
        signal.setitimer(signal.ITIMER_REAL, 10 * timeout)
    try:
        kw = dict(parseComments=parse_comments, validate=validate)
        if parser_kw:
            kw.update(parser_kw)
        parser = cssutils.CSSParser(**kw)
        t0 = time.process_time()
        if mode == 'sheet':
            dom = parser.parseString(text, **(parse_kw or {}))
            t_parse = time.process_time() - t0
            if type(dom) is not cssutils.css.CSSStyleSheet:
                return ({'stage': 'class', 'site': ('WrongClass', 'cssutils/parse.py', 'CSSParser.parseString'), 'msg': f'returned {type(dom).__name__}'}, None, t_parse)
            sig = tuple(r.type for r in dom.cssRules[:4])
            stage = 'serialise'
            out1 = dom.cssText
            if not isinstance(out1, bytes):
                return ({'stage': 'serialise', 'site': ('WrongClass', 'cssutils/css/cssstylesheet.py', 'CSSStyleSheet._getCssText'), 'msg': f'cssText is {type(out1).__name__}'}, sig, t_parse)
            stage = 'reparse'
            dom2 = cssutils.CSSParser(**kw).parseString(out1)
            if type(dom2) is not cssutils.css.CSSStyleSheet:
                return ({'stage': 'reparse-class', 'site': ('WrongClass', 'cssutils/parse.py', 'CSSParser.parseString'), 'msg': f'returned {type(dom2).__name__}'}, sig, t_parse)
            stage = 'reserialise'
            dom2.cssText
        else:
            dom = parser.parseStyle(text, **(parse_kw or {}))
            t_parse = time.process_time() - t0
            if type(dom) is not cssutils.css.CSSStyleDeclaration:
                return ({'stage': 'class', 'site': ('WrongClass', 'cssutils/parse.py', 'CSSParser.parseStyle'), 'msg': f'returned {type(dom).__name__}'}, None, t_parse)
            sig = ('style', min(dom.length, 3), min(len(dom.seq), 4))
            stage = 'serialise'
            out1 = dom.cssText
            if not isinstance(out1, str):
                return ({'stage': 'serialise', 'site': ('WrongClass', 'cssutils/css/cssstyledeclaration.py', 'CSSStyleDeclaration._getCssText'), 'msg': f'cssText is {type(out1).__name__}'}, sig, t_parse)
            stage = 'reparse'
            dom2 = cssutils.CSSParser(**kw).parseStyle(out1)
            if type(dom2) is not cssutils.css.CSSStyleDeclaration:
                return ({'stage': 'reparse-class', 'site': ('WrongClass', 'cssutils/parse.py', 'CSSParser.parseStyle'), 'msg': f'returned {type(dom2).__name__}'}, sig, t_parse)
            stage = 'reserialise'
            dom2.cssText
        return (None, sig, t_parse)
    except _Timeout:
        return ({'stage': stage, 'site': ('Timeout', 'time', stage), 'msg': f'no result within {timeout} s of CPU time'}, sig, t_parse)
    except BaseException as e:  # the contract says: no exception of any kind
        if isinstance(e, (KeyboardInterrupt, SystemExit)) and not isinstance(e, _Timeout):
            raise
        return (_fail(stage, e), sig, t_parse)
    finally:
        if st['alarm'] and timeout:
            signal.setitimer(signal.ITIMER_PROF, 0)
            signal.setitimer(signal.ITIMER_REAL, 0)
        # a crash leaves the process-wide error mode in "parse" state: put the default back so cases stay independent
        cssutils.log.raiseExceptions = True


# --------------------------------------------------------------------------------------------------------------------
# aggregation: per site the count and the shortest witness (ties: smallest text) - deterministic whatever the task order
def _note(agg, fail, witness):
    site = tuple(fail['site'])
    path = () if site[0] in ('Timeout', 'RecursionError') else tuple(q for _, q in fail.get('frames', ()))
    k = (site, fail['stage'], path, _msg_class(fail['msg']))  # one bucket per site, stage, call path and kind of message
    cur = agg.get(k)
    key = (len(witness['text']), repr(witness['text']), witness.get('mode', ''), repr(sorted(witness.items())))
    if cur is None:
        agg[k] = {'n': 1, 'key': key, 'witness': witness, 'stage': fail['stage'], 'msg': fail['msg'], 'frames': fail.get('frames', [])}
    else:
        cur['n'] += 1
        if key < cur['key']:
            cur.update(key=key, witness=witness, stage=fail['stage'], msg=fail['msg'], frames=fail.get('frames', []))


def _msg_class(msg):
    """the message without its variable parts (quoted text, numbers)"""
    import re
    return re.sub(r"'[^']*'|\"[^\"]*\"|0x[0-9a-fA-F]+|\d+", '', (msg.split(': ') + [''])[1])[:60]


def _merge(agg, other):
    for k, v in other.items():
        cur = agg.get(k)
        if cur is None:
            agg[k] = dict(v)
        else:
            cur['n'] += v['n']
            if v['key'] < cur['key']:
                cur.update(key=v['key'], witness=v['witness'], stage=v['stage'], msg=v['msg'], frames=v.get('frames', []))


def _alphabet_task(args):
    """all strings prefix + w, w over the alphabet with len(w) == rest, in the given modes/settings"""
    prefix, rest, settings = args[:3]
    alpha = EXTENDED if len(args) > 3 and args[3] == 'extended' else ALPHABET
    agg = {}
    sigs = set()
    n = 0
    tmax = 0.0
    head = ''.join(alpha[i] for i in prefix)
    for tup in itertools.product(alpha, repeat=rest):
        text = head + ''.join(tup)
        for mode, pc, va in settings:
            n += 1
            fail, sig, t = run_case(mode, text, pc, va)
            if sig is not None:
                sigs.add(sig)
            if t is not None and t > tmax:
                tmax = t
            if fail is not None:
                _note(agg, fail, {'text': text, 'mode': mode, 'parseComments': pc, 'validate': va})
    return n, agg, sigs, tmax


def _pool(ctx):
    import multiprocessing as mp
    return mp.get_context('fork').Pool(max(1, ctx.jobs))


# --------------------------------------------------------------------------------------------------------------------
# recorded findings: matched by site
def _known_index(ctx):
    """[(finding id, site spec)] from known/C01.json; a site spec is {'exc','file','function'[, 'stages'][, 'via']}"""
    out = []
    for kid, e in sorted(ctx.known.items()):
        for s in e.get('sites', []):
            out.append((kid, s))
    return out


def _known_id(index, site, stage, frames=(), msg=''):
    import re
    for kid, s in index:
        if (s['exc'], s['file']) != tuple(site[:2]):
            continue
        if 'function_re' in s:
            if not re.search(s['function_re'], site[2]):
                continue
        elif s['function'] != site[2]:
            continue
        if 'stages' in s and stage not in s['stages']:
            continue
        if 'via' in s and not any(q == s['via'] for _, q in frames):
            continue
        if 'msg' in s and not re.search(s['msg'], msg):
            continue
        return kid
    return None


def _report(ctx, domain, agg, index):
    """one ctx.violation per failing site (shortest witness); sites of recorded findings are routed to them"""
    for (site, _stage, _path, _mc), v in sorted(agg.items()):
        kid = _known_id(index, site, v['stage'], v.get('frames', ()), v['msg'])
        w = v['witness']
        clause = {'parse': 'the parse entry point returns without raising', 'class': 'the parse entry point returns the DOM class',
                  'serialise': 'cssText of the result serialises without raising', 'reparse': 'the serialisation parses again without raising',
                  'reparse-class': 'the serialisation parses again to the DOM class', 'reserialise': 'the re-parsed result serialises without raising',
                  'time': 'the result arrives within the polynomial time bound'}.get(v['stage'], v['stage'])
        ctx.violation(f'bounded: {clause} [{site[0]} at {site[1]}::{site[2]}]',
                      f'{domain}: {v["n"]} input(s) fail at this site; shortest: {w!r} -> {v["msg"]} (stage {v["stage"]})',
                      True, dict(w, domain=domain, stage=v['stage'], site=list(site)), known_id=kid)


def _frames_of(exc):
    st = _setup()
    root = st['root']
    seen = []
    tb = exc.__traceback__
    while tb is not None:
        co = tb.tb_frame.f_code
        if co.co_filename.startswith(root):
            f = (co.co_filename[len(root):].replace(os.sep, '/'), getattr(co, 'co_qualname', co.co_name))
            if f not in seen:
                seen.append(f)
        tb = tb.tb_next
    return seen[:60]


# --------------------------------------------------------------------------------------------------------------------
# domain 1: all strings over the snippet alphabet
DEFAULT_SETTINGS = [('sheet', True, True), ('style', True, True)]
ALL_SETTINGS = [(m, pc, va) for m in ('sheet', 'style') for pc in (True, False) for va in (True, False)]


def _alphabet_tasks(maxlen, settings, which='base'):
    n = len(ALPHABET) if which == 'base' else len(EXTENDED)
    tasks = [((), 0, settings, which)]
    for L in range(1, maxlen + 1):
        if L <= 3 and which == 'base' or L <= 2:
            tasks += [((i,), L - 1, settings, which) for i in range(n)]
        else:
            tasks += [((i, j), L - 2, settings, which) for i in range(n) for j in range(n)]
    return tasks


def alphabet(ctx):
    index = _known_index(ctx)
    maxlen = 3 if ctx.tier == 'quick' else 4
    sublen = 2 if ctx.tier == 'quick' else 3
    other = [s for s in ALL_SETTINGS if s not in DEFAULT_SETTINGS]
    extlen = 2 if ctx.tier == 'quick' else 3
    tasks = _alphabet_tasks(maxlen, DEFAULT_SETTINGS) + _alphabet_tasks(sublen, other) + _alphabet_tasks(extlen, DEFAULT_SETTINGS, 'extended')
    tasks.sort(key=lambda t: -t[1])
    agg = {}
    sigs = set()
    n = 0
    tmax = 0.0
    t0 = time.time()
    with _pool(ctx) as pool:
        for k, a, s, t in pool.imap_unordered(_alphabet_task, tasks, chunksize=1):
            n += k
            _merge(agg, a)
            sigs |= s
            tmax = max(tmax, t)
    _report(ctx, f'snippet strings (<= {maxlen} snippets)', agg, index)
    nstr = sum(len(ALPHABET) ** L for L in range(maxlen + 1))
    ctx.bounded.append({'name': 'token-snippet strings', 'evaluations': n, 'distinct_nontrivial': len(sigs), 'exhaustive': True,
                        'rule': f'ALL {nstr} concatenations of <= {maxlen} snippets from a {len(ALPHABET)}-snippet alphabet, each as a sheet (CSSParser.parseString) and as a style '
                                f'attribute (parseStyle) with default options, and all concatenations of <= {sublen} snippets under the other three parseComments x validate settings; '
                                f'all concatenations of <= {extlen} snippets of the extended alphabet ({len(EXTENDED)} snippets: + escaped structural characters, margin-box / case / escaped at-keywords, colour '
                                'functions, priorities, number shapes, control characters) in both modes; '
                                'per input: parse, class of the result, cssText, parse of that, cssText again, 10 s alarm; distinct = shape of the resulting DOM (first rule types / declaration and item counts)',
                        'samples': [{'text': 'a{b:c}', 'mode': 'sheet'}, {'text': '-->@import', 'mode': 'sheet'}, {'text': 'b:crgb(', 'mode': 'style'}],
                        'bound': f'<= {maxlen} snippets (<= {sublen} for non-default parser options); slowest first parse {tmax * 1000:.0f} ms; {time.time() - t0:.1f} s wall',
                        'failing_sites': len(agg)})


# --------------------------------------------------------------------------------------------------------------------
# domain 2: truncations of the repository's sample sheets at token boundaries
WINDOW = 2000


def _sheet_files():
    st = _setup()
    import glob
    return sorted(glob.glob(os.path.join(st['root'], 'sheets', '*.css')))


_FILE_CACHE = {}


def _file_cuts(fn):
    """(text, [(window start, cut offset)]) - cut offsets are the starts of the tokenizer's tokens plus the end of the text"""
    if fn in _FILE_CACHE:
        return _FILE_CACHE[fn]
    import codecs
    from cssutils.tokenize2 import Tokenizer
    raw = open(fn, 'rb').read()
    try:
        text = codecs.decode(raw, 'css')
    except (UnicodeDecodeError, LookupError):
        text = raw.decode('latin-1')  # test.css is not valid in its declared encoding; as a text it is still an input
    if text.startswith('\ufeff'):
        text = text[1:]
    lines = [0]
    for i, ch in enumerate(text):
        if ch == '\n':
            lines.append(i + 1)
    cuts = set([len(text)])
    tops = [0]  # offsets where a top-level construct starts
    depth = 0
    after_end = True
    for typ, val, line, col in Tokenizer().tokenize(text, fullsheet=False):
        if 1 <= line <= len(lines):
            off = min(lines[line - 1] + col - 1, len(text))
            cuts.add(off)
            if after_end and depth == 0 and typ not in ('S',):
                tops.append(off)
                after_end = False
        if typ == 'CHAR' and val == '{':
            depth += 1
        elif typ == 'CHAR' and val == '}':
            depth = max(0, depth - 1)
            if depth == 0:
                after_end = True
        elif typ == 'CHAR' and val == ';' and depth == 0:
            after_end = True
    cuts = sorted(cuts)
    import bisect
    out = []
    for c in cuts:
        if c <= WINDOW:
            out.append((0, c))
        else:
            i = bisect.bisect_left(tops, c - WINDOW)
            w = tops[i] if i < len(tops) and tops[i] < c else c - WINDOW
            out.append((w, c))
    _FILE_CACHE[fn] = (text, out)
    return _FILE_CACHE[fn]


def _trunc_task(args):
    fn, lo, hi, stride, phase = args
    text, cuts = _file_cuts(fn)
    agg = {}
    sigs = set()
    n = 0
    base = os.path.basename(fn)
    for i in range(lo, hi):
        if (i - phase) % stride and i != len(cuts) - 1:
            continue
        w, c = cuts[i]
        piece = text[w:c]
        n += 1
        fail, sig, t = run_case('sheet', piece, timeout=60)
        sigs.add((base, sig))
        if fail is not None:
            _note(agg, fail, {'text': piece[-60:], 'mode': 'sheet', 'file': base, 'window_start': w, 'cut': c})
    return n, agg, sigs, 0.0


def truncations(ctx):
    index = _known_index(ctx)
    files = _sheet_files()
    total = 0
    tasks = []
    for fn in files:
        text, cuts = _file_cuts(fn)
        total += len(cuts)
    stride = 1 if ctx.tier != 'quick' else max(1, total // 700)
    for k, fn in enumerate(files):
        text, cuts = _file_cuts(fn)
        step = 200
        for lo in range(0, len(cuts), step):
            tasks.append((fn, lo, min(len(cuts), lo + step), stride, (ctx.seed + k) % stride))
    agg = {}
    sigs = set()
    n = 0
    t0 = time.time()
    with _pool(ctx) as pool:
        for k, a, s, _ in pool.imap_unordered(_trunc_task, tasks, chunksize=1):
            n += k
            _merge(agg, a)
            sigs |= s
    _report(ctx, 'truncated sample sheets', agg, index)
    ctx.bounded.append({'name': 'truncations of sheets/*.css', 'evaluations': n, 'distinct_nontrivial': len(sigs), 'exhaustive': stride == 1,
                        'rule': f'{len(files)} files of the repository, {total} cut points (every token start reported by the tokenizer, and the end); the input for a cut is the text from the '
                                f'start of the file - or, when the cut lies more than {WINDOW} characters in, from the first top-level construct that starts within the last {WINDOW} characters - up to the cut; '
                                f'{"every cut" if stride == 1 else f"every {stride}th cut (offset by seed) and each whole file"}; parsed as a sheet, serialised, re-parsed, re-serialised; '
                                'distinct = (file, first rule types of the result)',
                        'samples': [{'file': 'sheets/acid2.css', 'cut': 'every token start'}],
                        'bound': f'windows of <= {WINDOW} characters before the cut, stride {stride}; {time.time() - t0:.1f} s wall', 'failing_sites': len(agg)})


# --------------------------------------------------------------------------------------------------------------------
# domain 3: nesting and width sweeps with a time check
def _nest(opener, closer, inner, prefix='', suffix=''):
    return (lambda d: prefix + opener * d + inner + closer * d + suffix,      # balanced
            lambda d: prefix + opener * d + inner)                             # cut off: everything still open


NESTING = {}
for _name, _mode, _args in [
    ('selector (', 'sheet', ('(', ')', 'a', '', '{b:c}')),
    ('selector [', 'sheet', ('[', ']', 'a', '', '{b:c}')),
    ('selector :not(', 'sheet', (':not(', ')', 'b', 'a', '{b:c}')),
    ('selector :f(', 'sheet', (':f(', ')', 'b', 'a', '{b:c}')),
    ('top-level f(', 'sheet', ('f(', ')', 'b', '', '{b:c}')),
    ('top-level {', 'sheet', ('{', '}', '', '', '')),
    ('style rule a{', 'sheet', ('a{', '}', 'b:c', '', '')),
    ('@media all{', 'sheet', ('@media all{', '}', 'a{b:c}', '', '')),
    ('@media query (', 'sheet', ('(', ')', 'b', '@media ', '{a{b:c}}')),
    ('@page {', 'sheet', ('@page {', '}', 'b:c', '', '')),
    ('@font-face {', 'sheet', ('@font-face {', '}', 'b:c', '', '')),
    ('@x {', 'sheet', ('@x {', '}', 'a{b:c}', '', '')),
    ('@x (', 'sheet', ('(', ')', 'b', '@x ', ';')),
    ('@x f(', 'sheet', ('f(', ')', 'b', '@x ', ';')),
    ('@x [', 'sheet', ('[', ']', 'b', '@x ', ';')),
    ('@import f(', 'sheet', ('f(', ')', 'b', '@import "x" ', ';')),
    ('@namespace (', 'sheet', ('(', ')', 'b', '@namespace p ', ';')),
    ('@variables value f(', 'sheet', ('f(', ')', '1', '@variables {x:', '}')),
    ('rule value (', 'sheet', ('(', ')', '1', 'a{b:', '}')),
    ('rule value f(', 'sheet', ('f(', ')', '1', 'a{b:', '}')),
    ('value (', 'style', ('(', ')', '1', 'b:', '')),
    ('value [', 'style', ('[', ']', '1', 'b:', '')),
    ('value {', 'style', ('{', '}', '1', 'b:', '')),
    ('value f(', 'style', ('f(', ')', '1', 'b:', '')),
    ('value calc(', 'style', ('calc(', ')', '1', 'b:', '')),
    ('value var(', 'style', ('var(', ')', 'x', 'b:', '')),
    ('value rgb(', 'style', ('rgb(', ')', '1', 'b:', '')),
    ('value url(', 'style', ('url(', ')', 'x', 'b:', '')),
    ('value -f(', 'style', ('-f(', ')', '1', 'b:', '')),
    ('property name (', 'style', ('(', ')', 'b', '', ':c')),
    ('priority (', 'style', ('(', ')', 'b', 'b:c !', '')),
]:
    _bal, _open = _nest(*_args)
    NESTING[_name + ' balanced'] = (_mode, _bal)
    NESTING[_name + ' unclosed'] = (_mode, _open)

WIDTH = {
    'rules': ('sheet', lambda n: 'a{b:c}' * n),
    'declarations': ('style', lambda n: 'b:c;' * n),
    'selectors': ('sheet', lambda n: ','.join(['a'] * n) + '{b:c}'),
    'compound selector': ('sheet', lambda n: 'a' + '.x' * n + '{b:c}'),
    'value items': ('style', lambda n: 'b:' + ' 1px' * n),
    'function arguments': ('style', lambda n: 'b:f(' + ','.join(['1'] * n) + ')'),
    'media queries': ('sheet', lambda n: '@media ' + ','.join(['print'] * n) + '{a{b:c}}'),
    'imports': ('sheet', lambda n: '@import "x";' * n),
    'comments': ('sheet', lambda n: '/*c*/' * n),
    'unknown rule tokens': ('sheet', lambda n: '@x ' + 'a ' * n + ';'),
    'garbage ;': ('sheet', lambda n: ';' * n),
    'unclosed strings': ('sheet', lambda n: '"\n' * n),
    'backslashes': ('sheet', lambda n: '\\' * n),
    'value items, comma': ('style', lambda n: 'b:' + ','.join(['1'] * n)),
    'value items, slash': ('style', lambda n: 'b:' + '/'.join(['1'] * n)),
    'value items in a rule': ('sheet', lambda n: 'a{b:' + ' c' * n + '}'),
    'value strings': ('style', lambda n: 'b:' + ' "s"' * n),
    'value urls': ('style', lambda n: 'b:' + ' url(x)' * n),
    'value functions': ('style', lambda n: 'b:' + ' f(1)' * n),
    'value colours': ('style', lambda n: 'color:' + ' #abc' * n),
    'value comments': ('style', lambda n: 'b:' + '/*c*/' * n + '1'),
    'calc operands': ('style', lambda n: 'b:calc(' + ' + '.join(['1'] * n) + ')'),
    'var fallbacks': ('style', lambda n: 'b:' + ' var(x, 1)' * n),
    'font-family list': ('style', lambda n: 'font-family:' + ','.join(['"s"'] * n)),
    'descendant selectors': ('sheet', lambda n: 'a ' * n + '{b:c}'),
    'child selectors': ('sheet', lambda n: '>'.join(['a'] * n) + '{b:c}'),
    'attribute selectors': ('sheet', lambda n: 'a' + '[b]' * n + '{b:c}'),
    'pseudo selectors': ('sheet', lambda n: 'a' + ':hover' * n + '{b:c}'),
    ':not selectors': ('sheet', lambda n: 'a' + ':not(.x)' * n + '{b:c}'),
    'media features': ('sheet', lambda n: '@media all' + ' and (color)' * n + '{a{b:c}}'),
    'rules in @media': ('sheet', lambda n: '@media all{' + 'a{b:c}' * n + '}'),
    'declarations in a rule': ('sheet', lambda n: 'a{' + 'b:c;' * n + '}'),
    'declarations in @page': ('sheet', lambda n: '@page{' + 'b:c;' * n + '}'),
    'margin boxes in @page': ('sheet', lambda n: '@page{' + '@top-left{b:c}' * n + '}'),
    'declarations in @font-face': ('sheet', lambda n: '@font-face{' + 'b:c;' * n + '}'),
    'variables': ('sheet', lambda n: '@variables{' + ''.join(f'v{i}:1;' for i in range(n)) + '}'),
    'namespaces': ('sheet', lambda n: ''.join(f'@namespace p{i} "u{i}";' for i in range(n)) + 'a{b:c}'),
    'unknown rules': ('sheet', lambda n: '@x y;' * n),
    'unknown rule blocks': ('sheet', lambda n: '@x {' + 'a{b:c}' * n + '}'),
    'unknown rule strings': ('sheet', lambda n: '@x ' + '"s" ' * n + ';'),
    'important declarations': ('style', lambda n: 'b:c!important;' * n),
    'invalid declarations': ('style', lambda n: 'b;' * n),
    'CDO CDC': ('sheet', lambda n: '<!-- -->' * n),
    'colons': ('sheet', lambda n: ':' * n),
    'line feeds': ('sheet', lambda n: 'a{b:c}\n' * n),
}
WIDTH_CAP = {'imports': (400, 1600), 'rules': (800, 3200), 'line feeds': (800, 3200), 'variables': (800, 3200), 'namespaces': (800, 3200), 'rules in @media': (800, 3200),
             'margin boxes in @page': (800, 3200), 'important declarations': (800, 3200), 'declarations': (800, 3200), 'declarations in a rule': (800, 3200),
             'declarations in @page': (800, 3200), 'declarations in @font-face': (800, 3200)}   # quadratic families: largest size in the quick / thorough tier (4 s / 20 s budget)
# width INSIDE single tokens: the size is the length of a run of one character (or a short unit) inside one token, closed, cut by
# a line feed, or cut by the end of input; as a sheet, inside a declaration value and as a style attribute
TOKEN_WIDTH = {}
_UNITS = {'a': 'a', 'star': '*', 'backslash': '\\', 'escaped quote': '\\"', 'hex escape': '\\61 ', 'short hex escape': '\\a', 'hex escape without space': '\\61', 'upper-case hex escape': '\\A', 'hex escape + CRLF': '\\61\r\n', 'other quote': "'", 'space': ' ', 'slash': '/',
          'escaped line feed': '\\\n', 'non-ASCII': '\xe9', 'digit': '1', 'star slash star': '*/*', 'star a': '*a'}
for _uname, _u in _UNITS.items():
    for _tname, _open, _ends in [
        ('double-quoted string', '"', {'closed': '"', 'cut by end of input': '', 'cut by a line feed': '\n', 'cut by a line feed, more text': '\n;a{b:c}'}),
        ('single-quoted string', "'", {'closed': "'", 'cut by end of input': '', 'cut by a line feed': '\n'}),
        ('url(', 'url(', {'closed': ')', 'cut by end of input': '', 'cut by a line feed': '\n'}),
        ('url("', 'url("', {'closed': '")', 'cut by end of input': '', 'cut by a line feed': '\n'}),
        ('comment', '/*', {'closed': '*/', 'cut by end of input': '', 'followed by text': ' x', 'followed by a lone star and slash apart': '* /'}),
    ]:
        if _tname.startswith('single') and _u == "'":
            continue
        if _tname == 'double-quoted string' and _u == '\\"':
            pass
        for _ename, _end in _ends.items():
            for _pos, _mode, _pre, _post in [('sheet level', 'sheet', '', ''), ('declaration value', 'sheet', 'a{b:', '}'), ('style attribute value', 'style', 'b:', '')]:
                if _pos != 'sheet level' and _ename not in ('closed', 'cut by end of input', 'cut by a line feed'):
                    continue
                TOKEN_WIDTH[f'{_tname} of {_uname} x n, {_ename}, {_pos}'] = (_mode, (lambda n, a=_pre + _open, u=_u, z=_end + _post: a + u * n + z))
for _uname, _u in [('a', 'a'), ('digit', '1'), ('hyphen', '-'), ('underscore', '_'), ('hex escape', '\\61 '), ('escaped brace', '\\7d '), ('non-ASCII', '\xe9'), ('backslash', '\\'), ('escaped char', '\\{')]:
    for _tname, _head, _tail in [('identifier', 'a', ''), ('at-keyword', '@x', ' y;'), ('hash', '#a', ''), ('function name', 'f', '(1)'), ('dimension unit', '1p', ''), ('class selector', '.c', ''),
                                 ('-ident', '-', 'a')]:
        for _pos, _mode, _pre, _post in [('selector', 'sheet', '', '{b:c}'), ('declaration value', 'sheet', 'a{b:', '}'), ('property name', 'style', '', ':c'), ('style attribute value', 'style', 'b:', '')]:
            if _tname in ('at-keyword', 'class selector') and _pos != 'selector':
                continue
            if _tname == 'dimension unit' and _pos in ('selector', 'property name'):
                continue
            TOKEN_WIDTH[f'{_tname} with {_uname} x n, {_pos}'] = (_mode, (lambda n, a=_pre + _head, u=_u, z=_tail + _post: a + u * n + z))
# number runs: {d} = a run of n digits 1, {z} = a run of n zeros, {s} = the sign of the number: every family exists unsigned (the family
# name without a sign), with '+' and with '-' in front of EVERY number of the literal (the conversions float()/int() and the range checks
# behind them see a different value for each sign: +inf / -inf, a negative int, '-0')
SIGNS = (('', ''), ('plus sign', '+'), ('minus sign', '-'))
NUMBER_FORMATS = [('integer', '{s}{d}'), ('signed integer', '+{d}'), ('fraction digits', '{s}0.{d}'), ('fraction without integer part', '{s}.{d}'), ('integer and fraction', '{s}{d}.5'),
                  ('both long', '{s}{d}.{d}'), ('dimension', '{s}{d}px'),
                  ('dimension with fraction', '{s}{d}.5em'), ('percentage', '{s}{d}%'), ('percentage with fraction', '{s}{d}.5%'), ('leading zeros', '{s}{z}1'), ('trailing zeros', '{s}1.{z}'),
                  ('zero dimension', '{s}{z}px'), ('zero with fraction', '{s}{z}.{z}'), ('exponent look-alike', '{s}1e{d}'), ('unicode-range', 'U+{d}'), ('hash digits', '#{d}'),
                  ('rgb argument', 'rgb({s}{d},{s}{d},{s}{d})'),
                  ('hsl argument', 'hsl({s}{d},{s}{d}%,{s}{d}%)'), ('hsl fraction argument', 'hsl({s}{d}.5,{s}{d}.5%,1%)'), ('rgb percentage argument', 'rgb({s}{d}%,{s}{d}.5%,1%)'),
                  ('hsla alpha', 'hsla(1,2%,3%,{s}{d})'), ('hue only long', 'hsl({s}{d},2%,3%)'), ('rgba alpha', 'rgba(1,2,3,{s}0.{d})'), ('function argument', 'f({s}{d})'),
                  ('function argument with fraction', 'f({s}{d}.5)'), ('calc operand', 'calc({s}{d} + {s}{d}.5px)'),
                  ('nth argument', None)]
for _tname, _fmt in NUMBER_FORMATS:
    for _sname, _s in SIGNS:
        _label = _tname + (f' with {_sname}' if _sname else '')
        if _fmt is None:
            # an+b: the sign applies to the step a; the offset b is joined with '+' (unsigned family) or with the same sign
            TOKEN_WIDTH[f'number run: {_label}, selector'] = ('sheet', (lambda n, s=_s: 'a:nth-child(' + s + '1' * n + 'n' + (s or '+') + '1' * n + '){b:c}'))
            continue
        if _s and '{s}' not in _fmt or (_tname, _s) == ('integer', '+'):
            continue  # no number in a position that takes a sign; '+' integer is the family 'signed integer'
        for _pos, _mode, _pre, _post in [('declaration value', 'sheet', 'a{b:', '}'), ('style attribute value', 'style', 'b:', ''), ('known property', 'style', 'width:', ''),
                                         ('@variables value', 'sheet', '@variables {x:', '}'), ('@media feature', 'sheet', '@media all and (min-width:', '){a{b:c}}'), ('top level', 'sheet', '', '')]:
            TOKEN_WIDTH[f'number run: {_label}, {_pos}'] = (_mode, (lambda n, f=_fmt.replace('{s}', _s), a=_pre, z=_post: a + f.replace('{d}', '1' * n).replace('{z}', '0' * n) + z))
TOKEN_SIZES = (4, 8, 16, 32, 64, 128, 256, 512, 1024, 2048, 4096, 8192)   # thorough: every size is twice its predecessor
TOKEN_SIZES_QUICK = (8, 16, 32, 64, 256, 512, 4096, 8192)                 # quick: the pairs 8-16-32-64, 256-512, 4096-8192
DEPTHS = (5, 10, 20, 25, 50, 100)          # pairs (d, 2d): 5-10, 10-20, 25-50, 50-100
WIDTHS = (50, 100, 200, 400, 800, 1600)    # pairs (n, 2n); the thorough tier adds 3200
DIGIT_COUNTS = (15, 16, 17, 18, 19, 20, 21, 22, 23, 305, 306, 307, 308, 309, 310, 311, 4299, 4300, 4301)  # around the float and int conversion limits
RATIO_LIMIT = 20.0                         # t(2x)/t(x) allowed: 2^3 (cubic) with a 2.5 x allowance for scheduling noise
TIME_FLOOR = 0.008                         # s: the CPU clock ticks in 4 ms steps here; times below the floor are raised to it


FAMILIES = {'nesting': NESTING, 'width': WIDTH, 'token': TOKEN_WIDTH}


def _timed(mode, text, budget):
    t0 = time.process_time()
    fail, sig, tp = run_case(mode, text, timeout=budget)
    return fail, time.process_time() - t0


def _sweep_task(args):
    """one family: ascending sizes, whole contract per size; stops at the first size that misses the time bound.
    Each size is measured once; a doubling ratio over the limit is re-measured (minimum of two) before it counts."""
    kind, name, sizes, budget = args
    mode, gen = FAMILIES[kind][name]
    rows = []
    fails = []
    times = {}
    base = budget
    for d in sizes:
        # the CPU budget grows linearly with the size: an exponential family runs out of it at size 16-64, a polynomial one keeps within it
        budget = base + (d * 0.0005 if kind == 'token' else 0.0)
        fail, best = _timed(mode, gen(d), budget)
        times[d] = best
        rows.append((d, round(best, 4)))
        if fail is not None:
            fails.append((d, fail))
            if fail['site'][0] == 'Timeout':
                break
            continue
        if d % 2 == 0 and d // 2 in times:
            r = max(best, TIME_FLOOR) / max(times[d // 2], TIME_FLOOR)
            if r > RATIO_LIMIT:
                f2, again = _timed(mode, gen(d), budget)
                f1, half = _timed(mode, gen(d // 2), budget)
                best, times[d // 2] = min(best, again), max(min(times[d // 2], half), 0.0)
                times[d] = best
                r = max(best, TIME_FLOOR) / max(times[d // 2], TIME_FLOOR)
            if r > RATIO_LIMIT:
                fails.append((d, {'stage': 'time', 'site': ('SuperPolynomial', 'time', 'doubling'),
                                  'msg': f'{times[d // 2] * 1000:.1f} ms at size {d // 2}, {best * 1000:.1f} ms at size {d}: ratio {r:.0f} > {RATIO_LIMIT:.0f}'}))
                break
    return kind, name, mode, rows, fails


def sweeps(ctx):
    index = _known_index(ctx)
    budget = 4.0 if ctx.tier == 'quick' else 20.0
    tasks = [('nesting', name, DEPTHS, budget) for name in NESTING] + [('width', name, WIDTHS, budget) for name in WIDTH]
    numfams = [n for n in TOKEN_WIDTH if n.startswith('number run')]
    tasks += [('token', name, DIGIT_COUNTS, budget) for name in numfams]
    if ctx.tier != 'quick':
        tasks = [(k, nm, sz + (3200,) if k == 'width' else sz, b) for k, nm, sz, b in tasks]
    tasks = [(k, nm, tuple(x for x in sz if k != 'width' or x <= WIDTH_CAP.get(nm, (3200, 3200))[0 if ctx.tier == 'quick' else 1]), b) for k, nm, sz, b in tasks]
    if ctx.tier == 'quick':
        # token-internal runs: the tokenizer does not depend on the position, so the quick tier leaves out the 'declaration value' copies of the string-like families
        tnames = [n for n in TOKEN_WIDTH if n.startswith('number run') or not n.endswith(', declaration value')]
        tasks += [('token', name, TOKEN_SIZES_QUICK, 0.5) for name in tnames]
    else:
        tnames = list(TOKEN_WIDTH)
        tasks += [('token', name, TOKEN_SIZES, budget) for name in tnames]
    n = 0
    agg = {}
    worst = (0.0, None)
    done = set()
    t0 = time.time()
    with _pool(ctx) as pool:
        for kind, name, mode, rows, fails in pool.imap_unordered(_sweep_task, tasks, chunksize=1):
            n += len(rows)
            gen = FAMILIES[kind][name][1]
            for d, t in rows:
                done.add((name, d))
                if d in (100, 1600, 8192) and t > worst[0]:
                    worst = (t, name)
            for d, fail in fails:
                # time failures are keyed by the family (the generator is the "site"); exceptions by their crash site
                if fail['site'][0] in ('Timeout', 'SuperPolynomial'):
                    fail = dict(fail, site=('TimeBound', kind, name), stage='time')
                _note(agg, fail, {'text': gen(d) if d <= 16 else f'<{name} at size {d}>', 'mode': mode, 'family': name, 'size': d})
    _report(ctx, 'nesting / width sweeps', agg, index)
    ctx.bounded.append({'name': 'nesting and width sweeps', 'evaluations': n, 'distinct_nontrivial': len(done),
                        'rule': f'{len(NESTING)} nesting families (each of ( [ {{ and functions in selector, rule, at-rule prelude, value, property-name and priority position, balanced and cut off) at depths {DEPTHS}, '
                                f'{len(WIDTH)} width families at sizes {WIDTHS}, the {len(numfams)} number families ({len(NUMBER_FORMATS)} literal shapes - integer, fraction, dimension, percentage, zeros, colour / function / calc / nth arguments - '
                                f'each unsigned, with + and with - in front of every number, in 6 positions) also at the digit counts {DIGIT_COUNTS}, and{len(tnames)} token-internal families (runs of one character or escape inside a string / url( / comment - closed, cut by a line feed or by the '
                                f'end of input - inside identifiers, at-keywords, hashes, function names, units, and digit runs in every numeric position) at sizes {TOKEN_SIZES_QUICK if ctx.tier == "quick" else TOKEN_SIZES}; '
                                f'whole contract per input; time clause: result within {budget:.0f} s of CPU time ({"0.5" if ctx.tier == "quick" else f"{budget:.0f}"} s + 0.5 ms per unit of size for token-internal families) and t(2x)/t(x) <= {RATIO_LIMIT:.0f} '
                                f'(times under {TIME_FLOOR * 1000:.0f} ms count as {TIME_FLOOR * 1000:.0f} ms); a family stops at the first size that misses the bound; distinct = (family, size) evaluated',
                        'samples': [{'family': 'value f( balanced', 'depth': 5, 'text': NESTING['value f( balanced'][1](5)}],
                        'bound': f'depth <= 100, width <= 1600 (3200 thorough), token-internal runs <= 8192; slowest family at full size: {worst[1]} {worst[0] * 1000:.0f} ms; {time.time() - t0:.1f} s wall', 'failing_sites': len(agg)})


# --------------------------------------------------------------------------------------------------------------------
# domain 4: byte inputs - by construction decodable under the encoding that applies (BOM, else @charset, else UTF-8; or the override)
BODIES = ['', 'a{b:c}', 'a{content:"\xe9€"}', '/*\xe9*/ @import "x"; \xe9{b:c}', '@media all{a{b:c}}', 'a{b:c', '"', '@charset ', '-->@import', '\xe9@xb:c']
ASCII_COMPATIBLE = ['utf-8', 'iso-8859-1', 'cp1252', 'ascii', 'koi8-r', 'iso-8859-15']
WIDE = ['utf-16', 'utf-16-le', 'utf-16-be', 'utf-32', 'utf-32-le', 'utf-32-be']
BOMS = {'utf-8': b'\xef\xbb\xbf', 'utf-16-le': b'\xff\xfe', 'utf-16-be': b'\xfe\xff', 'utf-32-le': b'\xff\xfe\x00\x00', 'utf-32-be': b'\x00\x00\xfe\xff'}


def _encodable(text, enc):
    try:
        text.encode(enc)
        return True
    except UnicodeEncodeError:
        return False


def byte_cases():
    """(label, mode, bytes, parse kwargs, the encoding that applies by construction); every case decodes under that encoding"""
    out = []
    for body in BODIES:
        out.append(('utf-8, no declaration', 'sheet', body.encode('utf-8'), {}, 'utf-8'))
        out.append(('utf-8 with BOM', 'sheet', BOMS['utf-8'] + body.encode('utf-8'), {}, 'utf-8'))
        out.append(('style attribute bytes, default utf-8', 'style', body.encode('utf-8'), {}, 'utf-8'))
        for enc in ASCII_COMPATIBLE:
            for label in (enc, enc.upper()):
                text = f'@charset "{label}";' + body
                if _encodable(text, enc):
                    out.append((f'@charset {label}', 'sheet', text.encode(enc), {}, enc))
            if _encodable(body, enc):
                out.append((f'encoding={enc} override, no declaration', 'sheet', body.encode(enc), {'encoding': enc}, enc))
                out.append((f'encoding={enc} override against @charset utf-8', 'sheet', ('@charset "utf-8";' + body).encode(enc), {'encoding': enc}, enc))
                out.append((f'style attribute bytes, encoding={enc}', 'style', body.encode(enc), {'encoding': enc}, enc))
        # BOM wins over a contradicting @charset
        text = '@charset "iso-8859-1";' + body
        out.append(('utf-8 BOM against @charset iso-8859-1', 'sheet', BOMS['utf-8'] + text.encode('utf-8'), {}, 'utf-8'))
        for enc in ('utf-16-le', 'utf-16-be', 'utf-32-le', 'utf-32-be'):
            fam = enc[:6]
            out.append((f'{enc} with BOM', 'sheet', BOMS[enc] + body.encode(enc), {}, enc))
            out.append((f'{enc} with BOM and @charset {fam}', 'sheet', BOMS[enc] + (f'@charset "{fam}";' + body).encode(enc), {}, enc))
            out.append((f'encoding={enc} override, no BOM', 'sheet', body.encode(enc), {'encoding': enc}, enc))
            out.append((f'style attribute bytes, encoding={enc}', 'style', body.encode(enc), {'encoding': enc}, enc))
    # sheets that are empty apart from their signature
    out.append(('BOM only', 'sheet', BOMS['utf-8'], {}, 'utf-8'))
    out.append(('BOM only', 'sheet', BOMS['utf-16-le'], {}, 'utf-16-le'))
    out.append(('BOM only', 'sheet', BOMS['utf-16-be'], {}, 'utf-16-be'))
    out.append(('@charset only', 'sheet', b'@charset "utf-8";', {}, 'utf-8'))
    out.append(('@charset only', 'sheet', b'@charset "ascii";', {}, 'ascii'))
    for label, mode, data, kw, applies in out:
        data.decode(applies)  # in the domain by construction: decodable under the encoding that applies (independent of the css codec)
    return out


def _bytes_task(i):
    label, mode, data, kw, applies = byte_cases()[i]
    fail, sig, t = run_case(mode, data, parse_kw=kw)
    return i, fail, sig


def _file_task(fn):
    raw = open(fn, 'rb').read()
    fail, sig, t = run_case('sheet', raw, timeout=60, parse_kw={'href': 'file://' + fn})
    return fn, fail


def byte_inputs(ctx):
    index = _known_index(ctx)
    cases = byte_cases()
    agg = {}
    kinds = set()
    n = 0
    with _pool(ctx) as pool:
        for i, fail, sig in pool.imap_unordered(_bytes_task, range(len(cases)), chunksize=8):
            label, mode, data, kw, applies = cases[i]
            n += 1
            kinds.add(label)
            if fail is not None:
                _note(agg, fail, {'text': repr(data), 'mode': mode, 'label': label, 'bytes_hex': data.hex(), 'parse_kw': kw})
    # sample sheets as bytes with a file: href (what parseFile does; the default fetcher resolves the relative @imports on disk)
    names = []
    for fn in _sheet_files():
        base = os.path.basename(fn)
        if base == 'test.css' or os.path.getsize(fn) > 30000:
            continue  # test.css: not decodable as declared (outside the domain); the two big files are covered by the truncation domain
        names.append(fn)
    with _pool(ctx) as pool:
        for fn, fail in pool.imap_unordered(_file_task, names, chunksize=1):
            base = os.path.basename(fn)
            n += 1
            kinds.add('file ' + base)
            if fail is not None:
                _note(agg, fail, {'text': base, 'mode': 'sheet', 'label': 'sample file as bytes with file: href', 'file': base})
    _report(ctx, 'byte inputs', agg, index)
    ctx.bounded.append({'name': 'byte inputs', 'evaluations': n, 'distinct_nontrivial': len(kinds),
                        'rule': f'{len(BODIES)} bodies x (UTF-8 with/without BOM; @charset in {ASCII_COMPATIBLE} in both letter cases; encoding= override with and against a declaration; '
                                'UTF-16/32 LE/BE with BOM, with BOM + @charset, and BOM-less under an override; style-attribute bytes with encoding=), signature-only sheets, and the sample '
                                'files read as bytes with a file: href (relative @imports resolved on disk by the default fetcher); each input decodable by construction; distinct = construction label',
                        'samples': [{'label': c[0], 'bytes': repr(c[2][:40])} for c in cases[12:14]],
                        'bound': f'{len(cases)} constructed byte strings + sample files <= 30 kB', 'failing_sites': len(agg)})


# --------------------------------------------------------------------------------------------------------------------
# domain 5: fetchers and @import graphs
def _graph_fetcher(graph, how):
    """fetcher serving graph {name: text}; `how` says in which form content is returned"""
    def fetcher(url):
        name = url.rsplit('/', 1)[-1]
        text = graph.get(name)
        if text is None:
            return None
        if how == 'str':
            return None, text
        if how == 'bytes':
            return None, text.encode('utf-8')
        if how == 'bytes+http':
            return 'utf-8', text.encode('utf-8')
        if how == 'latin-1+http':
            return 'iso-8859-1', text.encode('iso-8859-1', 'replace')
        raise AssertionError(how)
    return fetcher


def _f_none(url):
    return None


def _f_nothing(url):
    pass


def _f_none_content(url):
    return None, None


def _f_enc_none_content(url):
    return 'utf-8', None


def _f_empty(url):
    return None, ''


def _f_empty_bytes(url):
    return 'utf-8', b''


def _f_undecodable(url):
    return 'utf-8', b'a{b:"\xff"}'


def _f_unknown_charset(url):
    return 'x-unknown-charset', b'a{b:c}'


def _f_oserror(url):
    raise OSError('unreachable')


def _f_valueerror(url):
    raise ValueError('unknown url type')


def _f_urlerror(url):
    import urllib.error
    raise urllib.error.URLError('no host')


LEAF_FETCHERS = {'returns None': _f_none, 'returns nothing': _f_nothing, 'returns (None, None)': _f_none_content, "returns ('utf-8', None)": _f_enc_none_content,
                 "returns (None, '')": _f_empty, "returns ('utf-8', b'')": _f_empty_bytes, 'returns bytes that do not decode under the HTTP charset': _f_undecodable,
                 'returns an HTTP charset Python does not know': _f_unknown_charset,
                 'raises OSError': _f_oserror, 'raises ValueError': _f_valueerror, 'raises URLError': _f_urlerror}

GRAPHS = {
    'no import': ({'a.css': 'a{b:c}'}, False),
    'chain of 2': ({'a.css': '@import "b.css"; a{b:c}', 'b.css': 'b{b:c}'}, False),
    'chain of 4': ({'a.css': '@import "b.css"; a{b:c}', 'b.css': '@import url(c.css) print; b{b:c}', 'c.css': '@import "d.css"; c{b:c}', 'd.css': 'd{b:c}'}, False),
    'diamond': ({'a.css': '@import "b.css"; @import "c.css"; a{b:c}', 'b.css': '@import "d.css";', 'c.css': '@import "d.css";', 'd.css': 'd{b:c}'}, False),
    'missing leaf': ({'a.css': '@import "b.css"; a{b:c}', 'b.css': '@import "nowhere.css"; b{b:c}'}, False),
    'import after rule (ignored)': ({'a.css': 'a{b:c} @import "a.css";'}, False),
    'charset + import, non-ASCII': ({'a.css': '@charset "utf-8"; @import "b.css"; a{content:"\xe9"}', 'b.css': '@charset "utf-8"; \xe9{b:c}'}, False),
    'broken child': ({'a.css': '@import "b.css"; a{b:c}', 'b.css': '-->@import'}, False),
    'self import': ({'a.css': '@import "a.css"; a{b:c}'}, True),
    'cycle of 2': ({'a.css': '@import "b.css"; a{b:c}', 'b.css': '@import "a.css"; b{b:c}'}, True),
    'cycle of 3': ({'a.css': '@import "b.css";', 'b.css': '@import "c.css";', 'c.css': '@import url(a.css);'}, True),
    'cycle below the root': ({'a.css': '@import "b.css";', 'b.css': '@import "b.css"; b{b:c}'}, True),
}
_CHAIN = {f'n{i}.css': f'@import "n{i + 1}.css"; a{i}{{b:c}}' for i in range(12)}
_CHAIN['n12.css'] = 'z{b:c}'
GRAPHS['chain of 13'] = (dict(_CHAIN, **{'a.css': _CHAIN['n0.css']}), False)


def fetcher_cases():
    out = []
    for gname, (graph, cyclic) in GRAPHS.items():
        for how in ('str', 'bytes', 'bytes+http', 'latin-1+http'):
            out.append((f'graph {gname} / content as {how}', 'graph', gname, how, cyclic))
    for lname in LEAF_FETCHERS:
        for text in ('@import "b.css";', '@import url(b.css) print; a{b:c}', '@charset "ascii"; @import "b.css";'):
            out.append((f'fetcher {lname}', 'leaf', lname, text, False))
    return out


def _fetch_task(i):
    label, kind, x, y, cyclic = fetcher_cases()[i]
    if kind == 'graph':
        graph = GRAPHS[x][0]
        fail, sig, t = run_case('sheet', graph['a.css'], timeout=30, parser_kw={'fetcher': _graph_fetcher(graph, y)}, parse_kw={'href': 'http://example.test/css/a.css'})
    else:
        fail, sig, t = run_case('sheet', y, timeout=30, parser_kw={'fetcher': LEAF_FETCHERS[x]}, parse_kw={'href': 'http://example.test/css/a.css'})
    return i, fail, sig


def fetchers(ctx):
    index = _known_index(ctx)
    cases = fetcher_cases()
    agg = {}
    kinds = set()
    n = 0
    with _pool(ctx) as pool:
        for i, fail, sig in pool.imap_unordered(_fetch_task, range(len(cases)), chunksize=2):
            label, kind, x, y, cyclic = cases[i]
            n += 1
            kinds.add(label)
            if fail is not None:
                _note(agg, fail, {'text': GRAPHS[x][0]['a.css'] if kind == 'graph' else y, 'mode': 'sheet', 'label': label,
                                  'graph': GRAPHS[x][0] if kind == 'graph' else None, 'href': 'http://example.test/css/a.css'})
    # no fetcher given, no href: the default fetcher must fail quietly on an unresolvable relative URL
    for text in ('@import "nowhere-c01.css";', '@import url(file:///nonexistent/c01.css);', '@import "x:y";', '@import "";', '@import url();'):
        n += 1
        kinds.add('default fetcher ' + text)
        fail, sig, t = run_case('sheet', text, timeout=30)
        if fail is not None:
            _note(agg, fail, {'text': text, 'mode': 'sheet', 'label': 'default fetcher'})
    _report(ctx, 'fetchers and import graphs', agg, index)
    ctx.bounded.append({'name': 'fetchers and import graphs', 'evaluations': n, 'distinct_nontrivial': len(kinds),
                        'rule': f'{len(GRAPHS)} @import graphs (chains to 13, diamond, missing leaf, broken child, cycles of 1-3 and below the root) served as str / bytes / bytes with HTTP charset; '
                                f'{len(LEAF_FETCHERS)} degenerate fetchers (None, nothing, (None, None), empty, undecodable, unknown charset, raising OSError / ValueError / URLError) x 3 importing sheets; '
                                'the default fetcher on unresolvable URLs; via CSSParser(fetcher=...).parseString(text, href=...); distinct = (graph or fetcher, content form)',
                        'samples': [{'graph': 'cycle of 2', 'a.css': GRAPHS['cycle of 2'][0]['a.css'], 'b.css': GRAPHS['cycle of 2'][0]['b.css']}],
                        'bound': 'fixed list of graphs and fetchers', 'failing_sites': len(agg)})


# --------------------------------------------------------------------------------------------------------------------
def witnesses(ctx):
    """KNOWN-FINDING lines: each recorded finding's stored witness is run; it counts as still failing only if it fails at one of the finding's own sites"""
    index = _known_index(ctx)
    for kid, e in sorted(ctx.known.items()):
        w = e.get('witness') or {}
        fail = None
        if 'text' in w:
            fail, _, _ = run_case(w['mode'], w['text'])
        elif w.get('kind') == 'graph':
            graph = GRAPHS[w['graph']][0]
            fail, _, _ = run_case('sheet', graph['a.css'], timeout=30, parser_kw={'fetcher': _graph_fetcher(graph, 'str')}, parse_kw={'href': 'http://example.test/css/a.css'})
        elif w.get('kind') == 'leaf':
            fail, _, _ = run_case('sheet', '@import "b.css";', timeout=30, parser_kw={'fetcher': LEAF_FETCHERS[w['fetcher']]}, parse_kw={'href': 'http://example.test/css/a.css'})
        else:
            continue  # sweep findings are reported by sweeps() from the measured family
        still = fail is not None and _known_id(index, fail['site'], fail['stage'], fail.get('frames', ()), fail['msg']) == kid
        ctx.known_finding(kid, still)


# --------------------------------------------------------------------------------------------------------------------
# domain 6: every sub-parser position x short token sequences over the extended alphabet
NEW_SNIPPETS = [
    # escaped structural characters: as a hex escape (with its terminating space) and as a character escape
    '\\7b ', '\\7d ', '\\28 ', '\\29 ', '\\5b ', '\\5d ', '\\3b ', '\\22 ', '\\27 ', '\\3a ', '\\2c ', '\\40 ', '\\21 ', '\\2f ', '\\2a ', '\\5c ', '\\20 ', '\\0 ', '\\110000 ',
    '\\{', '\\}', '\\(', '\\)', '\\[', '\\]', '\\;', '\\"', "\\'", '\\:', '\\,', '\\@', '\\!', '\\/', '\\*', '\\\\', '\\ ', 'a\\7d b', '-\\7b ', '#\\7d ', '@\\7d ', '.\\7d ', '\\7d (',
    # margin boxes and the remaining reserved at-keywords, letter case and escapes in at-keywords
    '@top-left', '@bottom-center', '@left-middle', '@top-right-corner', '@top-left{b:c}', '@IMPORT', '@Media', '@\\70 age', '@-x-y', '@',
    # colour functions, priorities, media words, page pseudos
    'hsl(', 'hsla(', 'rgba(', 'RGB(', 'expression(', 'alpha(', 'progid:x.y(', 'attr(', '!important', '! important', '!x', 'only', 'not', 'all', 'print', ':first', ':left', '::', 'n', '2n+1', 'odd',
    # more number shapes, operators and characters
    '+1', '-1', '.5', '1.', '1e3', '+.5e-3', '-a', '--x', '0', '00', '-', '/', '%', '&', '<', '?', '^', '`', '\t', '\r', '\f', '\r\n', '\x00', '\x7f', '\ufeff', '\\\n', '"\\\n"', "'s'", 'url("x")', "url('", 'url( x )',
    'U+??', 'u+0-7F', '/**/', '*/', '<!', '--', 'progid:',
]
# code points no codec can encode: a lone surrogate written as an escape (decoded by the tokenizer) and given directly in the text
SURROGATES = ['\\d800 ', '\ud800']
EXTENDED = ALPHABET + [x for x in NEW_SNIPPETS + SURROGATES if x not in ALPHABET]
assert len(EXTENDED) == len(set(EXTENDED))
# one probe per token kind, for the longer sequences
PROBES = ['a', '@x', '@import', '@top-left', '@page', '{', '}', '(', ')', '[', ']', ';', ':', ',', '!', '!important', '"s"', '"', 'url(x)', 'url(', 'f(', 'hsl(', 'var(', '1', '2px', '3%', '+', '-', '#abc', '#',
          '/*c*/', '/*', ' ', '\n', '\\', '\\7d ', '\\{', '\\22 ', '.', '*', '=', 'U+1-2', '<!--', '\xe9', '\\d800 ']
PROBES_QUICK = ['a', '@x', '@top-left', '{', '}', '(', ')', ';', ':', '!important', '"', 'url(', 'f(', 'hsl(', '1', '+', '#abc', '/*c*/', '/*', ' ', '\\', '\\7d ', '\\{', '\xe9', '\\d800 ']
assert all(x in EXTENDED for x in PROBES) and all(x in PROBES for x in PROBES_QUICK)

CONTEXTS = {   # name: (mode, text with one hole)
    'sheet level': ('sheet', '{F}'),
    'sheet level after a rule': ('sheet', 'a{b:c}{F}'),
    'sheet level before a rule': ('sheet', '{F}a{b:c}'),
    'selector': ('sheet', 'a {F} b{b:c}'),
    'selector start': ('sheet', '{F}a,b{b:c}'),
    'selector list item': ('sheet', 'a,{F},b{b:c}'),
    'attribute selector': ('sheet', 'a[{F}]{b:c}'),
    'attribute value': ('sheet', 'a[b={F}]{b:c}'),
    'pseudo function argument': ('sheet', 'a:f({F}){b:c}'),
    ':not argument': ('sheet', 'a:not({F}){b:c}'),
    'nth argument': ('sheet', 'a:nth-child({F}){b:c}'),
    'nth argument tail before a combinator': ('sheet', 'a:nth-child(2n{F})>b{b:c}'),
    'nth argument tail before an attribute selector': ('sheet', 'a:nth-child(2n+{F})[x]{b:c}'),
    ':not argument tail before a combinator': ('sheet', 'a:not(b{F}) > c{b:c}'),
    'pseudo function argument tail before a combinator': ('sheet', 'a:f(x{F})+b{b:c}'),
    'after pseudo colon': ('sheet', 'a:{F}{b:c}'),
    'declaration block': ('sheet', 'a{{F}}'),
    'declaration block after a declaration': ('sheet', 'a{b:c;{F}}'),
    'declaration block unclosed': ('sheet', 'a{{F}'),
    'property name': ('sheet', 'a{{F}:c}'),
    'inside property name': ('sheet', 'a{b{F}:c}'),
    'value': ('sheet', 'a{b:{F}}'),
    'value after an item': ('sheet', 'a{b:c {F}}'),
    'value before an item': ('sheet', 'a{b:{F} c}'),
    'value unclosed': ('sheet', 'a{b:c {F}'),
    'known property value': ('sheet', 'a{color:{F}}'),
    'priority': ('sheet', 'a{b:c!{F}}'),
    'after priority': ('sheet', 'a{b:c!important{F}}'),
    'after priority with space': ('sheet', 'a{b:c !important {F};d:e}'),
    'style attribute': ('style', '{F}'),
    'style property name': ('style', '{F}:c'),
    'style value': ('style', 'b:{F}'),
    'style value after an item': ('style', 'b:c {F}'),
    'style priority': ('style', 'b:c!{F}'),
    'style after priority': ('style', 'b:c!important{F}'),
    'style after declaration': ('style', 'b:c;{F}'),
    'function argument': ('style', 'b:f({F})'),
    'function argument unclosed': ('style', 'b:f({F}'),
    'calc argument': ('style', 'b:calc({F})'),
    'calc operand': ('style', 'b:calc(1 + {F})'),
    'rgb argument': ('style', 'b:rgb({F})'),
    'rgb argument in a sheet': ('sheet', 'a{b:rgb({F}'),
    'hsl argument': ('style', 'b:hsl({F})'),
    'hsla last argument': ('style', 'b:hsla(1,2%,3%,{F})'),
    'var argument': ('style', 'b:var({F})'),
    'var fallback': ('style', 'b:var(x,{F})'),
    'url content': ('style', 'b:url({F})'),
    'string content': ('style', 'b:"{F}"'),
    'comment content': ('sheet', 'a{/*{F}*/b:c}'),
    '@media query': ('sheet', '@media {F}{a{b:c}}'),
    '@media after type': ('sheet', '@media all {F}{a{b:c}}'),
    '@media feature': ('sheet', '@media all and ({F}){a{b:c}}'),
    '@media feature value': ('sheet', '@media all and (min-width:{F}){a{b:c}}'),
    '@media second query': ('sheet', '@media all,{F}{a{b:c}}'),
    '@media block': ('sheet', '@media all{{F}}'),
    '@media block after a rule': ('sheet', '@media all{a{b:c}{F}}'),
    '@media block unclosed': ('sheet', '@media all{{F}'),
    'after @media': ('sheet', '@media all{a{b:c}}{F}'),
    '@import prelude': ('sheet', '@import {F};'),
    '@import after href': ('sheet', '@import "x" {F};'),
    '@import after url': ('sheet', '@import url(x) all {F};'),
    '@import unclosed': ('sheet', '@import "x" {F}'),
    '@namespace prelude': ('sheet', '@namespace {F};'),
    '@namespace after prefix': ('sheet', '@namespace p {F};'),
    '@namespace after uri': ('sheet', '@namespace p "u" {F};'),
    '@charset prelude': ('sheet', '@charset {F};'),
    '@charset after encoding': ('sheet', '@charset "utf-8"{F};a{b:c}'),
    '@page selector': ('sheet', '@page {F}{b:c}'),
    '@page pseudo': ('sheet', '@page :{F}{b:c}'),
    '@page named pseudo': ('sheet', '@page n:first {F}{b:c}'),
    '@page block': ('sheet', '@page {{F}}'),
    '@page block after a declaration': ('sheet', '@page {b:c;{F}}'),
    'margin box block': ('sheet', '@page {@top-left{{F}}}'),
    'margin box prelude': ('sheet', '@page {@top-left {F}{b:c}}'),
    '@font-face prelude': ('sheet', '@font-face {F}{b:c}'),
    '@font-face block': ('sheet', '@font-face{{F}}'),
    '@variables prelude': ('sheet', '@variables {F}{x:1}'),
    '@variables block': ('sheet', '@variables {{F}}'),
    '@variables value': ('sheet', '@variables {x:{F}}'),
    'unknown rule prelude': ('sheet', '@x {F};'),
    'unknown rule prelude before a block': ('sheet', '@x {F}{a:b}'),
    'unknown rule block': ('sheet', '@x {{F}}'),
    'unknown rule nested block': ('sheet', '@x {a{{F}}}'),
    'unknown rule unclosed': ('sheet', '@x {F}'),
    'unknown rule in a declaration block': ('sheet', 'a{@x {F};b:c}'),
    'unknown rule in @media': ('sheet', '@media all{@x {F};a{b:c}}'),
    'after CDO': ('sheet', '<!--{F}-->'),
}


def _context_task(args):
    names, first, rest, pool_name = args
    pool = {'extended': EXTENDED, 'probes': PROBES, 'quick probes': PROBES_QUICK}[pool_name]
    agg = {}
    sigs = set()
    n = 0
    for tup in itertools.product(pool, repeat=rest):
        filler = first + ''.join(tup)
        for cname in names:
            mode, tmpl = CONTEXTS[cname]
            text = tmpl.replace('{F}', filler)
            n += 1
            fail, sig, t = run_case(mode, text)
            if sig is not None:
                sigs.add((cname, sig))
            if fail is not None:
                _note(agg, fail, {'text': text, 'mode': mode, 'context': cname, 'filler': filler})
    return n, agg, sigs


def contexts(ctx):
    index = _known_index(ctx)
    names = list(CONTEXTS)
    tasks = [(names, '', 0, 'extended')]
    if ctx.tier == 'quick':
        # every single extended snippet everywhere; every pair and triple... of probes: pairs only
        tasks += [(names, x, 0, 'extended') for x in EXTENDED]
        tasks += [(names, x, 1, 'quick probes') for x in PROBES_QUICK]
        desc = f'every filler of one snippet of the extended alphabet ({len(EXTENDED)} snippets) and every pair of {len(PROBES_QUICK)} probe snippets (one per token kind)'
    else:
        tasks += [(names[i::4], x, 1, 'extended') for x in EXTENDED for i in range(4)] + [(names, x, 0, 'extended') for x in EXTENDED]
        tasks += [(names[i::4], x + y, 1, 'probes') for x in PROBES for y in PROBES for i in range(4)]
        desc = f'every filler of <= 2 snippets of the extended alphabet ({len(EXTENDED)} snippets) and every triple of the {len(PROBES)} probe snippets'
    agg = {}
    sigs = set()
    n = 0
    t0 = time.time()
    with _pool(ctx) as pool:
        for k, a, s in pool.imap_unordered(_context_task, tasks, chunksize=1):
            n += k
            _merge(agg, a)
            sigs |= s
    _report(ctx, 'sub-parser positions', agg, index)
    ctx.bounded.append({'name': 'sub-parser positions x fillers', 'evaluations': n, 'distinct_nontrivial': len(sigs), 'exhaustive': True,
                        'rule': f'{len(CONTEXTS)} positions (sheet level, selector, attribute, pseudo argument, declaration block, property name, value, priority and after it, function / calc / colour / var / url '
                                'arguments, string and comment content, every part of @media / @import / @namespace / @charset / @page / margin box / @font-face / @variables / unknown rules) x ' + desc +
                                '; the extended alphabet adds escaped structural characters (hex and character escapes), margin-box and case/escape variants of at-keywords, colour functions, priorities, '
                                'number shapes, control characters; distinct = (position, DOM shape)',
                        'samples': [{'context': 'style after priority', 'text': 'b:c!important@x'}, {'context': 'unknown rule prelude', 'text': '@x \\7d ;'}],
                        'bound': f'{len(CONTEXTS)} positions; {time.time() - t0:.1f} s wall', 'failing_sites': len(agg)})


# --------------------------------------------------------------------------------------------------------------------
# domain 7: colour functions with every short argument list
COLOUR_FUNCTIONS = ['rgb(', 'rgba(', 'hsl(', 'hsla(', 'RGB(', 'HSLA(']
COLOUR_ARGS_QUICK = ['', '+', '-', '1', '2%', 'a', '/*c*/']
COLOUR_ARGS = COLOUR_ARGS_QUICK + ['+1', '-2%', '1px', '"s"', '.5', '1e3', 'f(1)', '#abc', '!']
COLOUR_ENDS = [')', '', ');', ' ', ')}', ') !important']   # the quick tier uses the first four


def _colour_task(args):
    fn, first, maxargs, pool_name = args
    pool = COLOUR_ARGS_QUICK if pool_name in ('quick', 'quick4') else COLOUR_ARGS
    agg = {}
    n = 0
    kinds = set()
    for k in range(0, maxargs):
        for tup in itertools.product(pool, repeat=k):
            argl = (first,) + tup
            for sep in ((',', ' ') if pool_name == 'quick' else (',', ' ', ' , ')):
                if len(argl) == 1 and sep != ',':
                    continue
                inner = sep.join(argl)
                for end in (COLOUR_ENDS[:4] if pool_name == 'quick' else COLOUR_ENDS):
                    for mode, pre in (('sheet', 'a{b:'), ('style', 'b:'), ('style', 'color:'), ('sheet', '@variables {x:'))[:3 if pool_name == 'quick' else 4]:
                        text = pre + fn + inner + end
                        n += 1
                        kinds.add((fn.lower(), len(argl), end))
                        fail, sig, t = run_case(mode, text)
                        if fail is not None:
                            _note(agg, fail, {'text': text, 'mode': mode})
    return n, agg, kinds


def colour_functions(ctx):
    index = _known_index(ctx)
    maxargs, pool_name = (3, 'quick') if ctx.tier == 'quick' else (3, 'full')
    pool = COLOUR_ARGS_QUICK if pool_name == 'quick' else COLOUR_ARGS
    tasks = [(fn, first, maxargs, pool_name) for fn in COLOUR_FUNCTIONS for first in pool]
    if ctx.tier != 'quick':
        tasks += [(fn, first, 4, 'quick4') for fn in COLOUR_FUNCTIONS for first in COLOUR_ARGS_QUICK]
    agg = {}
    kinds = set()
    n = 0
    with _pool(ctx) as pool_:
        for k, a, s in pool_.imap_unordered(_colour_task, tasks, chunksize=1):
            n += k
            _merge(agg, a)
            kinds |= s
    _report(ctx, 'colour functions', agg, index)
    ctx.bounded.append({'name': 'colour functions', 'evaluations': n, 'distinct_nontrivial': len(kinds), 'exhaustive': True,
                        'rule': f'{COLOUR_FUNCTIONS} x all argument lists of 1..{maxargs} items over {pool}' + ('' if ctx.tier == 'quick' else f' and of 1..4 items over {COLOUR_ARGS_QUICK}') + f' (empty, sign-only, number, percentage, ident, comment, ...) x separators comma / space x '
                                f'endings {COLOUR_ENDS} (closed, cut off, ...) as rule value, style attribute value, known property and @variables value; distinct = (function, number of arguments, ending)',
                        'samples': [{'text': 'a{b:hsl(+,+,+)}'}, {'text': 'a{b:hsl('}], 'bound': f'<= {maxargs} arguments', 'failing_sites': len(agg)})


# --------------------------------------------------------------------------------------------------------------------
# domain 8: every at-keyword in every block position
def at_keywords():
    from cssutils.css import MarginRule
    margins = sorted(MarginRule.margins)
    reserved = ['@charset', '@charset ', '@import', '@namespace', '@media', '@page', '@font-face', '@variables']
    other = ['@x', '@-moz-document', '@keyframes', '@supports', '@TOP-LEFT', '@Top-Left-Corner', '@\\74op-left', '@IMPORT', '@Font-Face', '@top-leftx', '@top']
    return margins + reserved + other


AT_TAILS = ['', ';', '{}', '{b:c}', ' {b:c}', ' x;', ' "s";', '{', ' x{b:c}', '{b:c;@top-left{d:e}}', ':first{b:c}', ' all{a{b:c}}', '}', ' url(x);']
AT_POSITIONS = {
    'sheet level': ('sheet', '{F}'),
    'sheet level after a rule': ('sheet', 'a{b:c}{F}'),
    'sheet level before a rule': ('sheet', '{F}a{b:c}'),
    'after @import': ('sheet', '@import "x";{F}'),
    'inside @media': ('sheet', '@media all{{F}}'),
    'inside @media after a rule': ('sheet', '@media all{a{b:c}{F}}'),
    'inside @page': ('sheet', '@page {{F}}'),
    'inside @page after a declaration': ('sheet', '@page {b:c;{F}}'),
    'inside a margin box': ('sheet', '@page {@top-left{{F}}}'),
    'inside a declaration block': ('sheet', 'a{{F}}'),
    'inside a declaration block after a declaration': ('sheet', 'a{b:c;{F};d:e}'),
    'inside @font-face': ('sheet', '@font-face{{F}}'),
    'inside @variables': ('sheet', '@variables{{F}}'),
    'inside an unknown rule': ('sheet', '@x{{F}}'),
    'style attribute': ('style', '{F}'),
    'style attribute after a declaration': ('style', 'b:c;{F}'),
    'in a value': ('style', 'b:{F}'),
    'in a selector': ('sheet', 'a {F} b{c:d}'),
    'after CDO': ('sheet', '<!--{F}'),
}


def _atkw_task(kw):
    agg = {}
    n = 0
    for tail in AT_TAILS:
        for pname, (mode, tmpl) in AT_POSITIONS.items():
            text = tmpl.replace('{F}', kw + tail)
            n += 1
            fail, sig, t = run_case(mode, text)
            if fail is not None:
                _note(agg, fail, {'text': text, 'mode': mode, 'position': pname})
    return n, agg


def at_keyword_positions(ctx):
    index = _known_index(ctx)
    kws = at_keywords()
    agg = {}
    n = 0
    with _pool(ctx) as pool:
        for k, a in pool.imap_unordered(_atkw_task, kws, chunksize=1):
            n += k
            _merge(agg, a)
    _report(ctx, 'at-keywords in block positions', agg, index)
    ctx.bounded.append({'name': 'at-keywords x positions', 'evaluations': n, 'distinct_nontrivial': len(kws) * len(AT_POSITIONS), 'exhaustive': True,
                        'rule': f'{len(kws)} at-keywords (all 16 margin boxes, the 8 reserved ones, unknown, vendor, letter-case and escaped spellings) x {len(AT_TAILS)} continuations (nothing, ;, empty / filled / '
                                f'unclosed block, prelude, nested margin box, ...) x {len(AT_POSITIONS)} positions (sheet level, inside @media / @page / margin box / declaration block / @font-face / @variables / '
                                'unknown rule, style attribute, value, selector); distinct = (at-keyword, position)',
                        'samples': [{'text': '@top-left{b:c}'}, {'text': '@media all{@bottom-center{b:c}}'}], 'bound': 'fixed lists, full product', 'failing_sites': len(agg)})


# --------------------------------------------------------------------------------------------------------------------
# domain 9: @charset naming every codec Python ships, for text input and after assignment to sheet.encoding
def codec_names():
    import encodings
    import pkgutil
    names = sorted(m.name for m in pkgutil.iter_modules(encodings.__path__) if m.name not in ('aliases',))
    return names + ['css', 'utf-8', 'UTF-8', 'utf8', 'latin1', 'us-ascii', 'utf-16', 'utf-32', 'base-64', 'hex', 'rot-13', 'x-nonsense', '', ' ', 'utf-8 ', 'u\\74 f-8']


def _charset_task(name):
    """text input '@charset "<name>"; ...' through the whole contract; then the same sheet with sheet.encoding = name (a DOM exception is a rejection)"""
    import xml.dom
    st = _setup()
    cssutils = st['cssutils']
    agg = {}
    n = 0
    for body in ('a{b:c}', 'a{content:"\xe9€"}', ''):
        text = f'@charset "{name}";{body}'
        n += 1
        fail, sig, t = run_case('sheet', text)
        if fail is not None:
            _note(agg, fail, {'text': text, 'mode': 'sheet', 'codec': name})
        # assignment
        n += 1
        stage = 'parse'
        try:
            signal.setitimer(signal.ITIMER_PROF, CASE_TIMEOUT)
            sheet = cssutils.parseString(body)
            stage = 'assign'
            try:
                sheet.encoding = name
            except xml.dom.DOMException:
                pass
            stage = 'serialise'
            out = sheet.cssText
            stage = 'reparse'
            again = cssutils.parseString(out)
            stage = 'reserialise'
            again.cssText
        except _Timeout:
            _note(agg, {'stage': stage, 'site': ('Timeout', 'time', stage), 'msg': 'no result in time'}, {'text': body, 'mode': 'sheet', 'assigned_encoding': name})
        except BaseException as e:
            if isinstance(e, (KeyboardInterrupt, SystemExit)):
                raise
            _note(agg, _fail(stage, e), {'text': body, 'mode': 'sheet', 'assigned_encoding': name})
        finally:
            signal.setitimer(signal.ITIMER_PROF, 0)
            cssutils.log.raiseExceptions = True
    return n, agg


def charsets(ctx):
    index = _known_index(ctx)
    names = codec_names()
    agg = {}
    n = 0
    with _pool(ctx) as pool:
        for k, a in pool.imap_unordered(_charset_task, names, chunksize=4):
            n += k
            _merge(agg, a)
    _report(ctx, '@charset naming Python codecs', agg, index)
    ctx.bounded.append({'name': '@charset x Python codecs', 'evaluations': n, 'distinct_nontrivial': len(names), 'exhaustive': True,
                        'rule': f'every codec module of the encodings package plus aliases and non-names ({len(names)} names, among them the non-text codecs base64, bz2, hex, quopri, rot13, uu, zlib, idna, punycode, '
                                'undefined, unicode_escape, and cssutils\' own css codec) as @charset "<name>"; in a text input with an ASCII, a non-ASCII and an empty body (whole contract), and assigned to '
                                'sheet.encoding of the parsed body (a DOM exception is a rejection) followed by cssText, re-parse, cssText; distinct = codec name',
                        'samples': [{'text': '@charset "base64"; a{b:c}'}], 'bound': 'all codecs of the running Python', 'failing_sites': len(agg)})
