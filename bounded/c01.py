"""C01 bounded stand-in: run-time contract on the real, non-raising parse entry points over enumerated input domains.

Contract (from the statement): for every input the default entry points (cssutils.parseString / parseStyle /
CSSParser(...).parseString) return a CSSStyleSheet / CSSStyleDeclaration without raising ANY exception, within a time bound;
the result's cssText serialises, that text parses again and serialises again, all without an exception.

A failure is described by its *site*: (exception type, file and qualified name of the innermost frame that lies in the
checked tree).  Recorded findings (known/C01.json) are matched by site, never by input: a crash at a site that is not
listed is a violation, a listed site that no longer crashes is simply not printed.
"""
import itertools
import logging
import os
import signal
import sys
import time

# --------------------------------------------------------------------------------------------------------------------
# the token-snippet alphabet (DESIGN Appendix C): one or two spellings per token kind + the characters the statement names
ALPHABET = [
    'a', 'b:c', 'important', 'and', '\xe9',                                        # idents, a declaration, keywords, non-ASCII letter
    '@charset', '@import', '@namespace', '@media', '@page', '@font-face', '@variables',  # the reserved at-keywords
    '@charset ', '@x',                                                             # CHARSET_SYM proper, an unknown at-keyword
    '{', '}', '(', ')', '[', ']', ';', ':', ',', '!',
    '"s"', '"', "'",                                                               # closed string, bare quotes
    'url(x)', 'url(', 'f(', 'var(', 'rgb(', 'calc(', 'not(',
    '1', '2px', '3%', '#abc', '#',
    '<!--', '-->', '/*c*/', '/*',
    ' ', '\n',
    '\\', '\\a',                                                                   # bare backslash, hex escape (of a line feed)
    '.', '*', '|', '>', '+', '~', '=',
    'U+1-2', '$',
]
assert len(ALPHABET) == len(set(ALPHABET))

CASE_TIMEOUT = 10.0  # seconds for ONE tiny input (<= 40 characters): three orders of magnitude above the measured maximum


class _Timeout(BaseException):
    pass


def _on_alarm(signum, frame):
    raise _Timeout()


_STATE = {}


def _setup():
    """per process: quiet log, alarm handler, the root of the checked tree"""
    if _STATE:
        return _STATE
    import cssutils
    cssutils.log.setLevel(logging.FATAL)
    root = os.path.dirname(os.path.dirname(os.path.abspath(cssutils.__file__)))
    _STATE['root'] = root + os.sep
    _STATE['cssutils'] = cssutils
    try:
        signal.signal(signal.SIGALRM, _on_alarm)
        signal.signal(signal.SIGPROF, _on_alarm)
        _STATE['alarm'] = True
    except ValueError:  # not in the main thread
        _STATE['alarm'] = False
    return _STATE


def site_of(exc):
    """(exception type name, repo-relative file, qualified function name) of the innermost frame inside the checked tree.
    For a RecursionError the innermost frame is an accident of the stack depth; the site is then the outermost frame
    that occurs three or more times (the entry of the recursion cycle), which is determined by the input alone."""
    st = _setup()
    root = st['root']
    frames = []
    tb = exc.__traceback__
    while tb is not None:
        co = tb.tb_frame.f_code
        fn = co.co_filename
        if fn.startswith(root):
            frames.append((fn[len(root):].replace(os.sep, '/'), getattr(co, 'co_qualname', co.co_name)))
        tb = tb.tb_next
    name = type(exc).__name__
    if not frames:
        return (name, '<outside>', '<outside>')
    if isinstance(exc, RecursionError):
        counts = {}
        for f in frames:
            counts[f] = counts.get(f, 0) + 1
        # the cycle entry: the first frame, in call order, that occurs three or more times
        for f in frames:
            if counts[f] >= 3:
                return (name,) + f
    return (name,) + frames[-1]


def _fail(stage, exc):
    site = site_of(exc)
    return {'stage': stage, 'site': site, 'msg': f'{type(exc).__name__}: {str(exc)[:160]}', 'frames': [] if site[0] == 'RecursionError' else _frames_of(exc)}


def run_case(mode, text, parse_comments=True, validate=True, timeout=CASE_TIMEOUT, parser_kw=None, parse_kw=None):
    """evaluate the contract for one input; returns (failure dict or None, signature of the DOM, seconds of the first parse)

    mode 'sheet': CSSParser(parseComments, validate).parseString(text) (cssutils.parseString is this with defaults)
    mode 'style': CSSParser(...).parseStyle(text)
    """
    st = _setup()
    cssutils = st['cssutils']
    stage = 'parse'
    sig = None
    t_parse = None
    if st['alarm'] and timeout:
        # the budget is CPU time of this process (robust on a loaded machine); a wall-clock alarm ten times as long catches a blocked call
        signal.setitimer(signal.ITIMER_PROF, timeout)
        signal.setitimer(signal.ITIMER_REAL, 10 * timeout)
    try:
        kw = dict(parseComments=parse_comments, validate=validate)
        if parser_kw:
            kw.update(parser_kw)
        parser = cssutils.CSSParser(**kw)
        t0 = time.process_time()
        if mode == 'sheet':
            dom = parser.parseString(text, **(parse_kw or {}))
            t_parse = time.process_time() - t0
            if type(dom) is not cssutils.css.CSSStyleSheet:
                return ({'stage': 'class', 'site': ('WrongClass', 'cssutils/parse.py', 'CSSParser.parseString'), 'msg': f'returned {type(dom).__name__}'}, None, t_parse)
            sig = tuple(r.type for r in dom.cssRules[:4])
            stage = 'serialise'
            out1 = dom.cssText
            if not isinstance(out1, bytes):
                return ({'stage': 'serialise', 'site': ('WrongClass', 'cssutils/css/cssstylesheet.py', 'CSSStyleSheet._getCssText'), 'msg': f'cssText is {type(out1).__name__}'}, sig, t_parse)
            stage = 'reparse'
            dom2 = cssutils.CSSParser(**kw).parseString(out1)
            if type(dom2) is not cssutils.css.CSSStyleSheet:
                return ({'stage': 'reparse-class', 'site': ('WrongClass', 'cssutils/parse.py', 'CSSParser.parseString'), 'msg': f'returned {type(dom2).__name__}'}, sig, t_parse)
            stage = 'reserialise'
            dom2.cssText
        else:
            dom = parser.parseStyle(text, **(parse_kw or {}))
            t_parse = time.process_time() - t0
            if type(dom) is not cssutils.css.CSSStyleDeclaration:
                return ({'stage': 'class', 'site': ('WrongClass', 'cssutils/parse.py', 'CSSParser.parseStyle'), 'msg': f'returned {type(dom).__name__}'}, None, t_parse)
            sig = ('style', min(dom.length, 3), min(len(dom.seq), 4))
            stage = 'serialise'
            out1 = dom.cssText
            if not isinstance(out1, str):
                return ({'stage': 'serialise', 'site': ('WrongClass', 'cssutils/css/cssstyledeclaration.py', 'CSSStyleDeclaration._getCssText'), 'msg': f'cssText is {type(out1).__name__}'}, sig, t_parse)
            stage = 'reparse'
            dom2 = cssutils.CSSParser(**kw).parseStyle(out1)
            if type(dom2) is not cssutils.css.CSSStyleDeclaration:
                return ({'stage': 'reparse-class', 'site': ('WrongClass', 'cssutils/parse.py', 'CSSParser.parseStyle'), 'msg': f'returned {type(dom2).__name__}'}, sig, t_parse)
            stage = 'reserialise'
            dom2.cssText
        return (None, sig, t_parse)
    except _Timeout:
        return ({'stage': stage, 'site': ('Timeout', 'time', stage), 'msg': f'no result within {timeout} s of CPU time'}, sig, t_parse)
    except BaseException as e:  # the contract says: no exception of any kind
        if isinstance(e, (KeyboardInterrupt, SystemExit)) and not isinstance(e, _Timeout):
            raise
        return (_fail(stage, e), sig, t_parse)
    finally:
        if st['alarm'] and timeout:
            signal.setitimer(signal.ITIMER_PROF, 0)
            signal.setitimer(signal.ITIMER_REAL, 0)
        # a crash leaves the process-wide error mode in "parse" state: put the default back so cases stay independent
        cssutils.log.raiseExceptions = True


# --------------------------------------------------------------------------------------------------------------------
# aggregation: per site the count and the shortest witness (ties: smallest text) - deterministic whatever the task order
def _note(agg, fail, witness):
    site = tuple(fail['site'])
    path = () if site[0] in ('Timeout', 'RecursionError') else tuple(q for _, q in fail.get('frames', ()))
    k = (site, fail['stage'], path, _msg_class(fail['msg']))  # one bucket per site, stage, call path and kind of message
    cur = agg.get(k)
    key = (len(witness['text']), repr(witness['text']), witness.get('mode', ''), repr(sorted(witness.items())))
    if cur is None:
        agg[k] = {'n': 1, 'key': key, 'witness': witness, 'stage': fail['stage'], 'msg': fail['msg'], 'frames': fail.get('frames', [])}
    else:
        cur['n'] += 1
        if key < cur['key']:
            cur.update(key=key, witness=witness, stage=fail['stage'], msg=fail['msg'], frames=fail.get('frames', []))


def _msg_class(msg):
    """the message without its variable parts (quoted text, numbers)"""
    import re
    return re.sub(r"'[^']*'|\"[^\"]*\"|0x[0-9a-fA-F]+|\d+", '', (msg.split(': ') + [''])[1])[:60]


def _merge(agg, other):
    for k, v in other.items():
        cur = agg.get(k)
        if cur is None:
            agg[k] = dict(v)
        else:
            cur['n'] += v['n']
            if v['key'] < cur['key']:
                cur.update(key=v['key'], witness=v['witness'], stage=v['stage'], msg=v['msg'], frames=v.get('frames', []))


def _alphabet_task(args):
    """all strings prefix + w, w over the alphabet with len(w) == rest, in the given modes/settings"""
    prefix, rest, settings = args
    agg = {}
    sigs = set()
    n = 0
    tmax = 0.0
    head = ''.join(ALPHABET[i] for i in prefix)
    for tup in itertools.product(ALPHABET, repeat=rest):
        text = head + ''.join(tup)
        for mode, pc, va in settings:
            n += 1
            fail, sig, t = run_case(mode, text, pc, va)
            if sig is not None:
                sigs.add(sig)
            if t is not None and t > tmax:
                tmax = t
            if fail is not None:
                _note(agg, fail, {'text': text, 'mode': mode, 'parseComments': pc, 'validate': va})
    return n, agg, sigs, tmax


def _pool(ctx):
    import multiprocessing as mp
    return mp.get_context('fork').Pool(max(1, ctx.jobs))


# --------------------------------------------------------------------------------------------------------------------
# recorded findings: matched by site
def _known_index(ctx):
    """[(finding id, site spec)] from known/C01.json; a site spec is {'exc','file','function'[, 'stages'][, 'via']}"""
    out = []
    for kid, e in sorted(ctx.known.items()):
        for s in e.get('sites', []):
            out.append((kid, s))
    return out


def _known_id(index, site, stage, frames=(), msg=''):
    import re
    for kid, s in index:
        if (s['exc'], s['file'], s['function']) != tuple(site):
            continue
        if 'stages' in s and stage not in s['stages']:
            continue
        if 'via' in s and not any(q == s['via'] for _, q in frames):
            continue
        if 'msg' in s and not re.search(s['msg'], msg):
            continue
        return kid
    return None


def _report(ctx, domain, agg, index):
    """one ctx.violation per failing site (shortest witness); sites of recorded findings are routed to them"""
    for (site, _stage, _path, _mc), v in sorted(agg.items()):
        kid = _known_id(index, site, v['stage'], v.get('frames', ()), v['msg'])
        w = v['witness']
        clause = {'parse': 'the parse entry point returns without raising', 'class': 'the parse entry point returns the DOM class',
                  'serialise': 'cssText of the result serialises without raising', 'reparse': 'the serialisation parses again without raising',
                  'reparse-class': 'the serialisation parses again to the DOM class', 'reserialise': 'the re-parsed result serialises without raising',
                  'time': 'the result arrives within the polynomial time bound'}.get(v['stage'], v['stage'])
        ctx.violation(f'bounded: {clause} [{site[0]} at {site[1]}::{site[2]}]',
                      f'{domain}: {v["n"]} input(s) fail at this site; shortest: {w!r} -> {v["msg"]} (stage {v["stage"]})',
                      True, dict(w, domain=domain, stage=v['stage'], site=list(site)), known_id=kid)


def _frames_of(exc):
    st = _setup()
    root = st['root']
    seen = []
    tb = exc.__traceback__
    while tb is not None:
        co = tb.tb_frame.f_code
        if co.co_filename.startswith(root):
            f = (co.co_filename[len(root):].replace(os.sep, '/'), getattr(co, 'co_qualname', co.co_name))
            if f not in seen:
                seen.append(f)
        tb = tb.tb_next
    return seen[:60]


# --------------------------------------------------------------------------------------------------------------------
# domain 1: all strings over the snippet alphabet
DEFAULT_SETTINGS = [('sheet', True, True), ('style', True, True)]
ALL_SETTINGS = [(m, pc, va) for m in ('sheet', 'style') for pc in (True, False) for va in (True, False)]


def _alphabet_tasks(maxlen, settings):
    n = len(ALPHABET)
    tasks = [((), 0, settings)]
    for L in range(1, maxlen + 1):
        if L <= 3:
            tasks += [((i,), L - 1, settings) for i in range(n)]
        else:
            tasks += [((i, j), L - 2, settings) for i in range(n) for j in range(n)]
    return tasks


def alphabet(ctx):
    index = _known_index(ctx)
    maxlen = 3 if ctx.tier == 'quick' else 4
    sublen = 2 if ctx.tier == 'quick' else 3
    other = [s for s in ALL_SETTINGS if s not in DEFAULT_SETTINGS]
    tasks = _alphabet_tasks(maxlen, DEFAULT_SETTINGS) + _alphabet_tasks(sublen, other)
    tasks.sort(key=lambda t: -t[1])
    agg = {}
    sigs = set()
    n = 0
    tmax = 0.0
    t0 = time.time()
    with _pool(ctx) as pool:
        for k, a, s, t in pool.imap_unordered(_alphabet_task, tasks, chunksize=1):
            n += k
            _merge(agg, a)
            sigs |= s
            tmax = max(tmax, t)
    _report(ctx, f'snippet strings (<= {maxlen} snippets)', agg, index)
    nstr = sum(len(ALPHABET) ** L for L in range(maxlen + 1))
    ctx.bounded.append({'name': 'token-snippet strings', 'evaluations': n, 'distinct_nontrivial': len(sigs), 'exhaustive': True,
                        'rule': f'ALL {nstr} concatenations of <= {maxlen} snippets from a {len(ALPHABET)}-snippet alphabet, each as a sheet (CSSParser.parseString) and as a style '
                                f'attribute (parseStyle) with default options, and all concatenations of <= {sublen} snippets under the other three parseComments x validate settings; '
                                'per input: parse, class of the result, cssText, parse of that, cssText again, 10 s alarm; distinct = shape of the resulting DOM (first rule types / declaration and item counts)',
                        'samples': [{'text': 'a{b:c}', 'mode': 'sheet'}, {'text': '-->@import', 'mode': 'sheet'}, {'text': 'b:crgb(', 'mode': 'style'}],
                        'bound': f'<= {maxlen} snippets (<= {sublen} for non-default parser options); slowest first parse {tmax * 1000:.0f} ms; {time.time() - t0:.1f} s wall',
                        'failing_sites': len(agg)})


# --------------------------------------------------------------------------------------------------------------------
# domain 2: truncations of the repository's sample sheets at token boundaries
WINDOW = 2000


def _sheet_files():
    st = _setup()
    import glob
    return sorted(glob.glob(os.path.join(st['root'], 'sheets', '*.css')))


_FILE_CACHE = {}


def _file_cuts(fn):
    """(text, [(window start, cut offset)]) - cut offsets are the starts of the tokenizer's tokens plus the end of the text"""
    if fn in _FILE_CACHE:
        return _FILE_CACHE[fn]
    import codecs
    from cssutils.tokenize2 import Tokenizer
    raw = open(fn, 'rb').read()
    try:
        text = codecs.decode(raw, 'css')
    except (UnicodeDecodeError, LookupError):
        text = raw.decode('latin-1')  # test.css is not valid in its declared encoding; as a text it is still an input
    if text.startswith('\ufeff'):
        text = text[1:]
    lines = [0]
    for i, ch in enumerate(text):
        if ch == '\n':
            lines.append(i + 1)
    cuts = set([len(text)])
    tops = [0]  # offsets where a top-level construct starts
    depth = 0
    after_end = True
    for typ, val, line, col in Tokenizer().tokenize(text, fullsheet=False):
        if 1 <= line <= len(lines):
            off = min(lines[line - 1] + col - 1, len(text))
            cuts.add(off)
            if after_end and depth == 0 and typ not in ('S',):
                tops.append(off)
                after_end = False
        if typ == 'CHAR' and val == '{':
            depth += 1
        elif typ == 'CHAR' and val == '}':
            depth = max(0, depth - 1)
            if depth == 0:
                after_end = True
        elif typ == 'CHAR' and val == ';' and depth == 0:
            after_end = True
    cuts = sorted(cuts)
    import bisect
    out = []
    for c in cuts:
        if c <= WINDOW:
            out.append((0, c))
        else:
            i = bisect.bisect_left(tops, c - WINDOW)
            w = tops[i] if i < len(tops) and tops[i] < c else c - WINDOW
            out.append((w, c))
    _FILE_CACHE[fn] = (text, out)
    return _FILE_CACHE[fn]


def _trunc_task(args):
    fn, lo, hi, stride, phase = args
    text, cuts = _file_cuts(fn)
    agg = {}
    sigs = set()
    n = 0
    base = os.path.basename(fn)
    for i in range(lo, hi):
        if (i - phase) % stride and i != len(cuts) - 1:
            continue
        w, c = cuts[i]
        piece = text[w:c]
        n += 1
        fail, sig, t = run_case('sheet', piece, timeout=60)
        sigs.add((base, sig))
        if fail is not None:
            _note(agg, fail, {'text': piece[-60:], 'mode': 'sheet', 'file': base, 'window_start': w, 'cut': c})
    return n, agg, sigs, 0.0


def truncations(ctx):
    index = _known_index(ctx)
    files = _sheet_files()
    total = 0
    tasks = []
    for fn in files:
        text, cuts = _file_cuts(fn)
        total += len(cuts)
    stride = 1 if ctx.tier != 'quick' else max(1, total // 1500)
    for k, fn in enumerate(files):
        text, cuts = _file_cuts(fn)
        step = 200
        for lo in range(0, len(cuts), step):
            tasks.append((fn, lo, min(len(cuts), lo + step), stride, (ctx.seed + k) % stride))
    agg = {}
    sigs = set()
    n = 0
    t0 = time.time()
    with _pool(ctx) as pool:
        for k, a, s, _ in pool.imap_unordered(_trunc_task, tasks, chunksize=1):
            n += k
            _merge(agg, a)
            sigs |= s
    _report(ctx, 'truncated sample sheets', agg, index)
    ctx.bounded.append({'name': 'truncations of sheets/*.css', 'evaluations': n, 'distinct_nontrivial': len(sigs), 'exhaustive': stride == 1,
                        'rule': f'{len(files)} files of the repository, {total} cut points (every token start reported by the tokenizer, and the end); the input for a cut is the text from the '
                                f'start of the file - or, when the cut lies more than {WINDOW} characters in, from the first top-level construct that starts within the last {WINDOW} characters - up to the cut; '
                                f'{"every cut" if stride == 1 else f"every {stride}th cut (offset by seed) and each whole file"}; parsed as a sheet, serialised, re-parsed, re-serialised; '
                                'distinct = (file, first rule types of the result)',
                        'samples': [{'file': 'sheets/acid2.css', 'cut': 'every token start'}],
                        'bound': f'windows of <= {WINDOW} characters before the cut, stride {stride}; {time.time() - t0:.1f} s wall', 'failing_sites': len(agg)})


# --------------------------------------------------------------------------------------------------------------------
# domain 3: nesting and width sweeps with a time check
def _nest(opener, closer, inner, prefix='', suffix=''):
    return (lambda d: prefix + opener * d + inner + closer * d + suffix,      # balanced
            lambda d: prefix + opener * d + inner)                             # cut off: everything still open


NESTING = {}
for _name, _mode, _args in [
    ('selector (', 'sheet', ('(', ')', 'a', '', '{b:c}')),
    ('selector [', 'sheet', ('[', ']', 'a', '', '{b:c}')),
    ('selector :not(', 'sheet', (':not(', ')', 'b', 'a', '{b:c}')),
    ('selector :f(', 'sheet', (':f(', ')', 'b', 'a', '{b:c}')),
    ('top-level f(', 'sheet', ('f(', ')', 'b', '', '{b:c}')),
    ('top-level {', 'sheet', ('{', '}', '', '', '')),
    ('style rule a{', 'sheet', ('a{', '}', 'b:c', '', '')),
    ('@media all{', 'sheet', ('@media all{', '}', 'a{b:c}', '', '')),
    ('@media query (', 'sheet', ('(', ')', 'b', '@media ', '{a{b:c}}')),
    ('@page {', 'sheet', ('@page {', '}', 'b:c', '', '')),
    ('@font-face {', 'sheet', ('@font-face {', '}', 'b:c', '', '')),
    ('@x {', 'sheet', ('@x {', '}', 'a{b:c}', '', '')),
    ('@x (', 'sheet', ('(', ')', 'b', '@x ', ';')),
    ('@x f(', 'sheet', ('f(', ')', 'b', '@x ', ';')),
    ('@x [', 'sheet', ('[', ']', 'b', '@x ', ';')),
    ('@import f(', 'sheet', ('f(', ')', 'b', '@import "x" ', ';')),
    ('@namespace (', 'sheet', ('(', ')', 'b', '@namespace p ', ';')),
    ('@variables value f(', 'sheet', ('f(', ')', '1', '@variables {x:', '}')),
    ('rule value (', 'sheet', ('(', ')', '1', 'a{b:', '}')),
    ('rule value f(', 'sheet', ('f(', ')', '1', 'a{b:', '}')),
    ('value (', 'style', ('(', ')', '1', 'b:', '')),
    ('value [', 'style', ('[', ']', '1', 'b:', '')),
    ('value {', 'style', ('{', '}', '1', 'b:', '')),
    ('value f(', 'style', ('f(', ')', '1', 'b:', '')),
    ('value calc(', 'style', ('calc(', ')', '1', 'b:', '')),
    ('value var(', 'style', ('var(', ')', 'x', 'b:', '')),
    ('value rgb(', 'style', ('rgb(', ')', '1', 'b:', '')),
    ('value url(', 'style', ('url(', ')', 'x', 'b:', '')),
    ('value -f(', 'style', ('-f(', ')', '1', 'b:', '')),
    ('property name (', 'style', ('(', ')', 'b', '', ':c')),
    ('priority (', 'style', ('(', ')', 'b', 'b:c !', '')),
]:
    _bal, _open = _nest(*_args)
    NESTING[_name + ' balanced'] = (_mode, _bal)
    NESTING[_name + ' unclosed'] = (_mode, _open)

WIDTH = {
    'rules': ('sheet', lambda n: 'a{b:c}' * n),
    'declarations': ('style', lambda n: 'b:c;' * n),
    'selectors': ('sheet', lambda n: ','.join(['a'] * n) + '{b:c}'),
    'compound selector': ('sheet', lambda n: 'a' + '.x' * n + '{b:c}'),
    'value items': ('style', lambda n: 'b:' + ' 1px' * n),
    'function arguments': ('style', lambda n: 'b:f(' + ','.join(['1'] * n) + ')'),
    'media queries': ('sheet', lambda n: '@media ' + ','.join(['print'] * n) + '{a{b:c}}'),
    'imports': ('sheet', lambda n: '@import "x";' * n),
    'comments': ('sheet', lambda n: '/*c*/' * n),
    'unknown rule tokens': ('sheet', lambda n: '@x ' + 'a ' * n + ';'),
    'garbage ;': ('sheet', lambda n: ';' * n),
    'unclosed strings': ('sheet', lambda n: '"\n' * n),
    'backslashes': ('sheet', lambda n: '\\' * n),
}
# width INSIDE single tokens: the size is the length of a run of one character (or a short unit) inside one token, closed, cut by
# a line feed, or cut by the end of input; as a sheet, inside a declaration value and as a style attribute
TOKEN_WIDTH = {}
_UNITS = {'a': 'a', 'star': '*', 'backslash': '\\', 'escaped quote': '\\"', 'hex escape': '\\61 ', 'short hex escape': '\\a', 'other quote': "'", 'space': ' ', 'slash': '/',
          'escaped line feed': '\\\n', 'non-ASCII': '\xe9', 'digit': '1', 'star slash star': '*/*', 'star a': '*a'}
for _uname, _u in _UNITS.items():
    for _tname, _open, _ends in [
        ('double-quoted string', '"', {'closed': '"', 'cut by end of input': '', 'cut by a line feed': '\n', 'cut by a line feed, more text': '\n;a{b:c}'}),
        ('single-quoted string', "'", {'closed': "'", 'cut by end of input': '', 'cut by a line feed': '\n'}),
        ('url(', 'url(', {'closed': ')', 'cut by end of input': '', 'cut by a line feed': '\n'}),
        ('url("', 'url("', {'closed': '")', 'cut by end of input': '', 'cut by a line feed': '\n'}),
        ('comment', '/*', {'closed': '*/', 'cut by end of input': '', 'followed by text': ' x', 'followed by a lone star and slash apart': '* /'}),
    ]:
        if _tname.startswith('single') and _u == "'":
            continue
        if _tname == 'double-quoted string' and _u == '\\"':
            pass
        for _ename, _end in _ends.items():
            for _pos, _mode, _pre, _post in [('sheet level', 'sheet', '', ''), ('declaration value', 'sheet', 'a{b:', '}'), ('style attribute value', 'style', 'b:', '')]:
                if _pos != 'sheet level' and _ename not in ('closed', 'cut by end of input', 'cut by a line feed'):
                    continue
                TOKEN_WIDTH[f'{_tname} of {_uname} x n, {_ename}, {_pos}'] = (_mode, (lambda n, a=_pre + _open, u=_u, z=_end + _post: a + u * n + z))
for _uname, _u in [('a', 'a'), ('digit', '1'), ('hyphen', '-'), ('underscore', '_'), ('hex escape', '\\61 '), ('escaped brace', '\\7d '), ('non-ASCII', '\xe9'), ('backslash', '\\'), ('escaped char', '\\{')]:
    for _tname, _head, _tail in [('identifier', 'a', ''), ('at-keyword', '@x', ' y;'), ('hash', '#a', ''), ('function name', 'f', '(1)'), ('dimension unit', '1p', ''), ('class selector', '.c', ''),
                                 ('-ident', '-', 'a')]:
        for _pos, _mode, _pre, _post in [('selector', 'sheet', '', '{b:c}'), ('declaration value', 'sheet', 'a{b:', '}'), ('property name', 'style', '', ':c'), ('style attribute value', 'style', 'b:', '')]:
            if _tname in ('at-keyword', 'class selector') and _pos != 'selector':
                continue
            if _tname == 'dimension unit' and _pos in ('selector', 'property name'):
                continue
            TOKEN_WIDTH[f'{_tname} with {_uname} x n, {_pos}'] = (_mode, (lambda n, a=_pre + _head, u=_u, z=_tail + _post: a + u * n + z))
for _tname, _fmt in [('integer', '{d}'), ('signed integer', '+{d}'), ('fraction digits', '0.{d}'), ('integer and fraction', '{d}.5'), ('both long', '{d}.{d}'), ('dimension', '{d}px'),
                     ('dimension with fraction', '{d}.5em'), ('percentage', '{d}%'), ('percentage with fraction', '{d}.5%'), ('leading zeros', '{z}1'), ('trailing zeros', '1.{z}'),
                     ('zero dimension', '{z}px'), ('exponent look-alike', '1e{d}'), ('unicode-range', 'U+{d}'), ('hash digits', '#{d}'), ('rgb argument', 'rgb({d},{d},{d})'),
                     ('hsl argument', 'hsl({d},{d}%,{d}%)'), ('rgba alpha', 'rgba(1,2,3,0.{d})'), ('function argument', 'f({d})'), ('calc operand', 'calc({d} + {d}.5px)'),
                     ('nth argument', None)]:
    if _fmt is None:
        TOKEN_WIDTH[f'number run: {_tname}, selector'] = ('sheet', (lambda n: 'a:nth-child(' + '1' * n + 'n+' + '1' * n + '){b:c}'))
        continue
    for _pos, _mode, _pre, _post in [('declaration value', 'sheet', 'a{b:', '}'), ('style attribute value', 'style', 'b:', ''), ('known property', 'style', 'width:', ''),
                                     ('@variables value', 'sheet', '@variables {x:', '}'), ('@media feature', 'sheet', '@media all and (min-width:', '){a{b:c}}'), ('top level', 'sheet', '', '')]:
        TOKEN_WIDTH[f'number run: {_tname}, {_pos}'] = (_mode, (lambda n, f=_fmt, a=_pre, z=_post: a + f.replace('{d}', '1' * n).replace('{z}', '0' * n) + z))
TOKEN_SIZES = (4, 8, 16, 32, 64, 128, 256, 512, 1024, 2048, 4096, 8192)   # thorough: every size is twice its predecessor
TOKEN_SIZES_QUICK = (8, 16, 32, 64, 256, 512, 4096, 8192)                 # quick: the pairs 8-16-32-64, 256-512, 4096-8192
DEPTHS = (5, 10, 20, 25, 50, 100)          # pairs (d, 2d): 5-10, 10-20, 25-50, 50-100
WIDTHS = (50, 100, 200, 400)               # pairs (n, 2n)
RATIO_LIMIT = 20.0                         # t(2x)/t(x) allowed: 2^3 (cubic) with a 2.5 x allowance for scheduling noise
TIME_FLOOR = 0.008                         # s: the CPU clock ticks in 4 ms steps here; times below the floor are raised to it


FAMILIES = {'nesting': NESTING, 'width': WIDTH, 'token': TOKEN_WIDTH}


def _timed(mode, text, budget):
    t0 = time.process_time()
    fail, sig, tp = run_case(mode, text, timeout=budget)
    return fail, time.process_time() - t0


def _sweep_task(args):
    """one family: ascending sizes, whole contract per size; stops at the first size that misses the time bound.
    Each size is measured once; a doubling ratio over the limit is re-measured (minimum of two) before it counts."""
    kind, name, sizes, budget = args
    mode, gen = FAMILIES[kind][name]
    rows = []
    fails = []
    times = {}
    for d in sizes:
        fail, best = _timed(mode, gen(d), budget)
        times[d] = best
        rows.append((d, round(best, 4)))
        if fail is not None:
            fails.append((d, fail))
            if fail['site'][0] == 'Timeout':
                break
            continue
        if d % 2 == 0 and d // 2 in times:
            r = max(best, TIME_FLOOR) / max(times[d // 2], TIME_FLOOR)
            if r > RATIO_LIMIT:
                f2, again = _timed(mode, gen(d), budget)
                f1, half = _timed(mode, gen(d // 2), budget)
                best, times[d // 2] = min(best, again), max(min(times[d // 2], half), 0.0)
                times[d] = best
                r = max(best, TIME_FLOOR) / max(times[d // 2], TIME_FLOOR)
            if r > RATIO_LIMIT:
                fails.append((d, {'stage': 'time', 'site': ('SuperPolynomial', 'time', 'doubling'),
                                  'msg': f'{times[d // 2] * 1000:.1f} ms at size {d // 2}, {best * 1000:.1f} ms at size {d}: ratio {r:.0f} > {RATIO_LIMIT:.0f}'}))
                break
    return kind, name, mode, rows, fails


def sweeps(ctx):
    index = _known_index(ctx)
    budget = 4.0 if ctx.tier == 'quick' else 20.0
    tasks = [('nesting', name, DEPTHS, budget) for name in NESTING] + [('width', name, WIDTHS, budget) for name in WIDTH] + [('token', name, TOKEN_SIZES_QUICK if ctx.tier == 'quick' else TOKEN_SIZES, budget) for name in TOKEN_WIDTH]
    n = 0
    agg = {}
    worst = (0.0, None)
    done = set()
    t0 = time.time()
    with _pool(ctx) as pool:
        for kind, name, mode, rows, fails in pool.imap_unordered(_sweep_task, tasks, chunksize=1):
            n += len(rows)
            gen = FAMILIES[kind][name][1]
            for d, t in rows:
                done.add((name, d))
                if d in (100, 400, 8192) and t > worst[0]:
                    worst = (t, name)
            for d, fail in fails:
                # time failures are keyed by the family (the generator is the "site"); exceptions by their crash site
                if fail['site'][0] in ('Timeout', 'SuperPolynomial'):
                    fail = dict(fail, site=('TimeBound', kind, name), stage='time')
                _note(agg, fail, {'text': gen(d) if d <= 16 else f'<{name} at size {d}>', 'mode': mode, 'family': name, 'size': d})
    _report(ctx, 'nesting / width sweeps', agg, index)
    ctx.bounded.append({'name': 'nesting and width sweeps', 'evaluations': n, 'distinct_nontrivial': len(done),
                        'rule': f'{len(NESTING)} nesting families (each of ( [ {{ and functions in selector, rule, at-rule prelude, value, property-name and priority position, balanced and cut off) at depths {DEPTHS} '
                                f'and {len(WIDTH)} width families at sizes {WIDTHS}; whole contract per input; time clause: result within {budget:.0f} s of CPU time and t(2x)/t(x) <= {RATIO_LIMIT:.0f} '
                                f'(times under {TIME_FLOOR * 1000:.0f} ms count as {TIME_FLOOR * 1000:.0f} ms); a family stops at the first size that misses the bound; distinct = (family, size) evaluated',
                        'samples': [{'family': 'value f( balanced', 'depth': 5, 'text': NESTING['value f( balanced'][1](5)}],
                        'bound': f'depth <= 100, width <= 400; slowest family at full size: {worst[1]} {worst[0] * 1000:.0f} ms; {time.time() - t0:.1f} s wall', 'failing_sites': len(agg)})


# --------------------------------------------------------------------------------------------------------------------
# domain 4: byte inputs - by construction decodable under the encoding that applies (BOM, else @charset, else UTF-8; or the override)
BODIES = ['', 'a{b:c}', 'a{content:"\xe9€"}', '/*\xe9*/ @import "x"; \xe9{b:c}', '@media all{a{b:c}}', 'a{b:c', '"', '@charset ', '-->@import', '\xe9@xb:c']
ASCII_COMPATIBLE = ['utf-8', 'iso-8859-1', 'cp1252', 'ascii', 'koi8-r', 'iso-8859-15']
WIDE = ['utf-16', 'utf-16-le', 'utf-16-be', 'utf-32', 'utf-32-le', 'utf-32-be']
BOMS = {'utf-8': b'\xef\xbb\xbf', 'utf-16-le': b'\xff\xfe', 'utf-16-be': b'\xfe\xff', 'utf-32-le': b'\xff\xfe\x00\x00', 'utf-32-be': b'\x00\x00\xfe\xff'}


def _encodable(text, enc):
    try:
        text.encode(enc)
        return True
    except UnicodeEncodeError:
        return False


def byte_cases():
    """(label, mode, bytes, parse kwargs, the encoding that applies by construction); every case decodes under that encoding"""
    out = []
    for body in BODIES:
        out.append(('utf-8, no declaration', 'sheet', body.encode('utf-8'), {}, 'utf-8'))
        out.append(('utf-8 with BOM', 'sheet', BOMS['utf-8'] + body.encode('utf-8'), {}, 'utf-8'))
        out.append(('style attribute bytes, default utf-8', 'style', body.encode('utf-8'), {}, 'utf-8'))
        for enc in ASCII_COMPATIBLE:
            for label in (enc, enc.upper()):
                text = f'@charset "{label}";' + body
                if _encodable(text, enc):
                    out.append((f'@charset {label}', 'sheet', text.encode(enc), {}, enc))
            if _encodable(body, enc):
                out.append((f'encoding={enc} override, no declaration', 'sheet', body.encode(enc), {'encoding': enc}, enc))
                out.append((f'encoding={enc} override against @charset utf-8', 'sheet', ('@charset "utf-8";' + body).encode(enc), {'encoding': enc}, enc))
                out.append((f'style attribute bytes, encoding={enc}', 'style', body.encode(enc), {'encoding': enc}, enc))
        # BOM wins over a contradicting @charset
        text = '@charset "iso-8859-1";' + body
        out.append(('utf-8 BOM against @charset iso-8859-1', 'sheet', BOMS['utf-8'] + text.encode('utf-8'), {}, 'utf-8'))
        for enc in ('utf-16-le', 'utf-16-be', 'utf-32-le', 'utf-32-be'):
            fam = enc[:6]
            out.append((f'{enc} with BOM', 'sheet', BOMS[enc] + body.encode(enc), {}, enc))
            out.append((f'{enc} with BOM and @charset {fam}', 'sheet', BOMS[enc] + (f'@charset "{fam}";' + body).encode(enc), {}, enc))
            out.append((f'encoding={enc} override, no BOM', 'sheet', body.encode(enc), {'encoding': enc}, enc))
            out.append((f'style attribute bytes, encoding={enc}', 'style', body.encode(enc), {'encoding': enc}, enc))
    # sheets that are empty apart from their signature
    out.append(('BOM only', 'sheet', BOMS['utf-8'], {}, 'utf-8'))
    out.append(('BOM only', 'sheet', BOMS['utf-16-le'], {}, 'utf-16-le'))
    out.append(('BOM only', 'sheet', BOMS['utf-16-be'], {}, 'utf-16-be'))
    out.append(('@charset only', 'sheet', b'@charset "utf-8";', {}, 'utf-8'))
    out.append(('@charset only', 'sheet', b'@charset "ascii";', {}, 'ascii'))
    for label, mode, data, kw, applies in out:
        data.decode(applies)  # in the domain by construction: decodable under the encoding that applies (independent of the css codec)
    return out


def _bytes_task(i):
    label, mode, data, kw, applies = byte_cases()[i]
    fail, sig, t = run_case(mode, data, parse_kw=kw)
    return i, fail, sig


def _file_task(fn):
    raw = open(fn, 'rb').read()
    fail, sig, t = run_case('sheet', raw, timeout=60, parse_kw={'href': 'file://' + fn})
    return fn, fail


def byte_inputs(ctx):
    index = _known_index(ctx)
    cases = byte_cases()
    agg = {}
    kinds = set()
    n = 0
    with _pool(ctx) as pool:
        for i, fail, sig in pool.imap_unordered(_bytes_task, range(len(cases)), chunksize=8):
            label, mode, data, kw, applies = cases[i]
            n += 1
            kinds.add(label)
            if fail is not None:
                _note(agg, fail, {'text': repr(data), 'mode': mode, 'label': label, 'bytes_hex': data.hex(), 'parse_kw': kw})
    # sample sheets as bytes with a file: href (what parseFile does; the default fetcher resolves the relative @imports on disk)
    names = []
    for fn in _sheet_files():
        base = os.path.basename(fn)
        if base == 'test.css' or os.path.getsize(fn) > 30000:
            continue  # test.css: not decodable as declared (outside the domain); the two big files are covered by the truncation domain
        names.append(fn)
    with _pool(ctx) as pool:
        for fn, fail in pool.imap_unordered(_file_task, names, chunksize=1):
            base = os.path.basename(fn)
            n += 1
            kinds.add('file ' + base)
            if fail is not None:
                _note(agg, fail, {'text': base, 'mode': 'sheet', 'label': 'sample file as bytes with file: href', 'file': base})
    _report(ctx, 'byte inputs', agg, index)
    ctx.bounded.append({'name': 'byte inputs', 'evaluations': n, 'distinct_nontrivial': len(kinds),
                        'rule': f'{len(BODIES)} bodies x (UTF-8 with/without BOM; @charset in {ASCII_COMPATIBLE} in both letter cases; encoding= override with and against a declaration; '
                                'UTF-16/32 LE/BE with BOM, with BOM + @charset, and BOM-less under an override; style-attribute bytes with encoding=), signature-only sheets, and the sample '
                                'files read as bytes with a file: href (relative @imports resolved on disk by the default fetcher); each input decodable by construction; distinct = construction label',
                        'samples': [{'label': c[0], 'bytes': repr(c[2][:40])} for c in cases[12:14]],
                        'bound': f'{len(cases)} constructed byte strings + sample files <= 30 kB', 'failing_sites': len(agg)})


# --------------------------------------------------------------------------------------------------------------------
# domain 5: fetchers and @import graphs
def _graph_fetcher(graph, how):
    """fetcher serving graph {name: text}; `how` says in which form content is returned"""
    def fetcher(url):
        name = url.rsplit('/', 1)[-1]
        text = graph.get(name)
        if text is None:
            return None
        if how == 'str':
            return None, text
        if how == 'bytes':
            return None, text.encode('utf-8')
        if how == 'bytes+http':
            return 'utf-8', text.encode('utf-8')
        if how == 'latin-1+http':
            return 'iso-8859-1', text.encode('iso-8859-1', 'replace')
        raise AssertionError(how)
    return fetcher


def _f_none(url):
    return None


def _f_nothing(url):
    pass


def _f_none_content(url):
    return None, None


def _f_enc_none_content(url):
    return 'utf-8', None


def _f_empty(url):
    return None, ''


def _f_empty_bytes(url):
    return 'utf-8', b''


def _f_undecodable(url):
    return 'utf-8', b'a{b:"\xff"}'


def _f_unknown_charset(url):
    return 'x-unknown-charset', b'a{b:c}'


def _f_oserror(url):
    raise OSError('unreachable')


def _f_valueerror(url):
    raise ValueError('unknown url type')


def _f_urlerror(url):
    import urllib.error
    raise urllib.error.URLError('no host')


LEAF_FETCHERS = {'returns None': _f_none, 'returns nothing': _f_nothing, 'returns (None, None)': _f_none_content, "returns ('utf-8', None)": _f_enc_none_content,
                 "returns (None, '')": _f_empty, "returns ('utf-8', b'')": _f_empty_bytes, 'returns bytes that do not decode under the HTTP charset': _f_undecodable,
                 'returns an HTTP charset Python does not know': _f_unknown_charset,
                 'raises OSError': _f_oserror, 'raises ValueError': _f_valueerror, 'raises URLError': _f_urlerror}

GRAPHS = {
    'no import': ({'a.css': 'a{b:c}'}, False),
    'chain of 2': ({'a.css': '@import "b.css"; a{b:c}', 'b.css': 'b{b:c}'}, False),
    'chain of 4': ({'a.css': '@import "b.css"; a{b:c}', 'b.css': '@import url(c.css) print; b{b:c}', 'c.css': '@import "d.css"; c{b:c}', 'd.css': 'd{b:c}'}, False),
    'diamond': ({'a.css': '@import "b.css"; @import "c.css"; a{b:c}', 'b.css': '@import "d.css";', 'c.css': '@import "d.css";', 'd.css': 'd{b:c}'}, False),
    'missing leaf': ({'a.css': '@import "b.css"; a{b:c}', 'b.css': '@import "nowhere.css"; b{b:c}'}, False),
    'import after rule (ignored)': ({'a.css': 'a{b:c} @import "a.css";'}, False),
    'charset + import, non-ASCII': ({'a.css': '@charset "utf-8"; @import "b.css"; a{content:"\xe9"}', 'b.css': '@charset "utf-8"; \xe9{b:c}'}, False),
    'broken child': ({'a.css': '@import "b.css"; a{b:c}', 'b.css': '-->@import'}, False),
    'self import': ({'a.css': '@import "a.css"; a{b:c}'}, True),
    'cycle of 2': ({'a.css': '@import "b.css"; a{b:c}', 'b.css': '@import "a.css"; b{b:c}'}, True),
    'cycle of 3': ({'a.css': '@import "b.css";', 'b.css': '@import "c.css";', 'c.css': '@import url(a.css);'}, True),
    'cycle below the root': ({'a.css': '@import "b.css";', 'b.css': '@import "b.css"; b{b:c}'}, True),
}
_CHAIN = {f'n{i}.css': f'@import "n{i + 1}.css"; a{i}{{b:c}}' for i in range(12)}
_CHAIN['n12.css'] = 'z{b:c}'
GRAPHS['chain of 13'] = (dict(_CHAIN, **{'a.css': _CHAIN['n0.css']}), False)


def fetcher_cases():
    out = []
    for gname, (graph, cyclic) in GRAPHS.items():
        for how in ('str', 'bytes', 'bytes+http', 'latin-1+http'):
            out.append((f'graph {gname} / content as {how}', 'graph', gname, how, cyclic))
    for lname in LEAF_FETCHERS:
        for text in ('@import "b.css";', '@import url(b.css) print; a{b:c}', '@charset "ascii"; @import "b.css";'):
            out.append((f'fetcher {lname}', 'leaf', lname, text, False))
    return out


def _fetch_task(i):
    label, kind, x, y, cyclic = fetcher_cases()[i]
    if kind == 'graph':
        graph = GRAPHS[x][0]
        fail, sig, t = run_case('sheet', graph['a.css'], timeout=30, parser_kw={'fetcher': _graph_fetcher(graph, y)}, parse_kw={'href': 'http://example.test/css/a.css'})
    else:
        fail, sig, t = run_case('sheet', y, timeout=30, parser_kw={'fetcher': LEAF_FETCHERS[x]}, parse_kw={'href': 'http://example.test/css/a.css'})
    return i, fail, sig


def fetchers(ctx):
    index = _known_index(ctx)
    cases = fetcher_cases()
    agg = {}
    kinds = set()
    n = 0
    with _pool(ctx) as pool:
        for i, fail, sig in pool.imap_unordered(_fetch_task, range(len(cases)), chunksize=2):
            label, kind, x, y, cyclic = cases[i]
            n += 1
            kinds.add(label)
            if fail is not None:
                _note(agg, fail, {'text': GRAPHS[x][0]['a.css'] if kind == 'graph' else y, 'mode': 'sheet', 'label': label,
                                  'graph': GRAPHS[x][0] if kind == 'graph' else None, 'href': 'http://example.test/css/a.css'})
    # no fetcher given, no href: the default fetcher must fail quietly on an unresolvable relative URL
    for text in ('@import "nowhere-c01.css";', '@import url(file:///nonexistent/c01.css);', '@import "x:y";', '@import "";', '@import url();'):
        n += 1
        kinds.add('default fetcher ' + text)
        fail, sig, t = run_case('sheet', text, timeout=30)
        if fail is not None:
            _note(agg, fail, {'text': text, 'mode': 'sheet', 'label': 'default fetcher'})
    _report(ctx, 'fetchers and import graphs', agg, index)
    ctx.bounded.append({'name': 'fetchers and import graphs', 'evaluations': n, 'distinct_nontrivial': len(kinds),
                        'rule': f'{len(GRAPHS)} @import graphs (chains to 13, diamond, missing leaf, broken child, cycles of 1-3 and below the root) served as str / bytes / bytes with HTTP charset; '
                                f'{len(LEAF_FETCHERS)} degenerate fetchers (None, nothing, (None, None), empty, undecodable, unknown charset, raising OSError / ValueError / URLError) x 3 importing sheets; '
                                'the default fetcher on unresolvable URLs; via CSSParser(fetcher=...).parseString(text, href=...); distinct = (graph or fetcher, content form)',
                        'samples': [{'graph': 'cycle of 2', 'a.css': GRAPHS['cycle of 2'][0]['a.css'], 'b.css': GRAPHS['cycle of 2'][0]['b.css']}],
                        'bound': 'fixed list of graphs and fetchers', 'failing_sites': len(agg)})


# --------------------------------------------------------------------------------------------------------------------
def witnesses(ctx):
    """KNOWN-FINDING lines: each recorded finding's stored witness is run; it counts as still failing only if it fails at one of the finding's own sites"""
    index = _known_index(ctx)
    for kid, e in sorted(ctx.known.items()):
        w = e.get('witness') or {}
        fail = None
        if 'text' in w:
            fail, _, _ = run_case(w['mode'], w['text'])
        elif w.get('kind') == 'graph':
            graph = GRAPHS[w['graph']][0]
            fail, _, _ = run_case('sheet', graph['a.css'], timeout=30, parser_kw={'fetcher': _graph_fetcher(graph, 'str')}, parse_kw={'href': 'http://example.test/css/a.css'})
        elif w.get('kind') == 'leaf':
            fail, _, _ = run_case('sheet', '@import "b.css";', timeout=30, parser_kw={'fetcher': LEAF_FETCHERS[w['fetcher']]}, parse_kw={'href': 'http://example.test/css/a.css'})
        else:
            continue  # sweep findings are reported by sweeps() from the measured family
        still = fail is not None and _known_id(index, fail['site'], fail['stage'], fail.get('frames', ()), fail['msg']) == kid
        ctx.known_finding(kid, still)
