"""C03 bounded stand-in: serialise -> parse is lossless and serialisation is a fixpoint.

For every DOM d of the domain:   project(parse(d.cssText)) == project(d)   and   parse(d.cssText).cssText == d.cssText  (bytes)
Domains: DOMs parsed from the abstract-sheet generator (bounded/gen.py) in several spellings; the real sheets under /repo/sheets; DOMs after
up to 2 accepted edits; single nodes (rule.cssText, style.cssText, selectorText, mediaText, PropertyValue.cssText, Property.cssText) set back on
a fresh object; string / URL / identifier / comment content over a critical alphabet in every context that holds such content.

Oracle notes (from the statement): the comparison is DOM against DOM through the public-accessor projection of gen.py (rules in order, selectors with
resolved namespaces, declarations, values, priorities, media, import targets, comments at rule and declaration level) - NOT against the source.
Two documented serializer preferences remove DOM nodes on purpose (keepEmptyRules=False drops rules without content, resolveVariables=True drops
@variables): with the default preferences equivalence is therefore demanded modulo rules without content, and every DOM is checked a second time with
keepEmptyRules=True, resolveVariables=False where equality must be exact.
"""
import dataclasses
import itertools
import json
import logging
import multiprocessing
import os
import time
import xml.dom

from bounded import gen

CL_PARSE = 'bounded: the serialisation of a DOM parses again (no exception)'
CL_EQUIV = 'bounded: parse(d.cssText) is equivalent to d (projection through public accessors)'
CL_FIX = 'bounded: parse(d.cssText).cssText == d.cssText (bytes)'
CL_SER = 'bounded: a DOM obtained from well-formed input serialises (no exception)'
CL_NODE_EQUIV = 'bounded: a node text set back on a fresh object gives an equivalent node'
CL_NODE_FIX = 'bounded: a node text set back on a fresh object serialises byte-identically'
CL_NODE_ACCEPT = 'bounded: a node text read from a DOM is accepted by a fresh object of the same class'
CL_CONTENT = 'bounded: string/URL/identifier/comment content survives serialise -> parse'


def _quiet():
    import cssutils
    cssutils.log.setLevel(logging.FATAL)
    cssutils.ser.prefs.useDefaults()
    cssutils.log.raiseExceptions = True
    return cssutils


# -------------------------------------------------------------------------------------------------------------- the round-trip contract

def drop_empty(p):
    """projection form without the rules the default preference keepEmptyRules=False does not write"""
    out = []
    for r in p:
        k = r[0]
        if k == 'style' and not r[2]:
            continue
        if k == 'media':
            inner = drop_empty(r[2])
            if not inner:
                continue
            r = ('media', r[1], inner)
        if k == 'page' and not r[2] and not r[3]:
            continue
        if k == 'page':
            r = ('page', r[1], r[2], tuple(m for m in r[3] if m[2]))
            if not r[2] and not r[3]:
                continue
        if k == 'fontface' and not r[1]:
            continue
        if k == 'variables':
            continue
        out.append(r)
    return tuple(out)


_LENGTH_UNITS = ('cm', 'mm', 'in', 'px', 'pc', 'pt', 'em', 'ex')


def norm_zero(p):
    """a zero length and the number 0 denote the same value (the serializer writes 0px as 0 on purpose, see C18): ('dimension', 0, length unit) -> ('number', 0)"""
    if isinstance(p, tuple):
        if len(p) == 3 and p[0] == 'dimension' and p[1] == 0 and p[2] in _LENGTH_UNITS:
            return ('number', 0.0)
        # a media list emptied by an edit is the same as the list 'all' ("an empty list is the same as a list that contains the medium all")
        if len(p) == 3 and p[0] == 'media' and p[1] == ():
            p = ('media', ((None, 'all', ()),), p[2])
        elif len(p) == 4 and p[0] == 'import' and p[2] == ():
            p = ('import', p[1], ((None, 'all', ()),), p[3])
        return tuple(norm_zero(x) for x in p)
    return p


def _has_variables(dom):
    return any(getattr(r, 'type', None) == getattr(r, 'VARIABLES_RULE', -1) for r in dom.cssRules)


LOSSLESS = {'keepEmptyRules': True, 'resolveVariables': False}


def roundtrip(dom, href=None, configs=('default', 'lossless'), reparsed=None):
    """-> [(clause, detail)] for one sheet DOM under the default preferences and under the lossless preferences; the reparsed DOMs are appended to `reparsed` if given"""
    cssutils = _quiet()
    fails = []
    try:
        for cfg in configs:
            cssutils.ser.prefs.useDefaults()
            if cfg == 'lossless':
                for k, v in LOSSLESS.items():
                    setattr(cssutils.ser.prefs, k, v)
            try:
                t1 = dom.cssText
            except Exception as e:
                fails.append((CL_SER, '[%s] %s: %s' % (cfg, type(e).__name__, str(e)[:200])))
                continue
            try:
                d2 = cssutils.parseString(t1, href=href) if href else cssutils.parseString(t1)
            except Exception as e:
                fails.append((CL_PARSE, '[%s] %s: %s | text %r' % (cfg, type(e).__name__, str(e)[:200], t1[:200])))
                continue
            finally:
                cssutils.log.raiseExceptions = True
            if reparsed is not None:
                reparsed.append(d2)
            p1 = norm_zero(gen.project(dom, lenient=True))
            p2 = norm_zero(gen.project(d2, lenient=True))
            if cfg == 'default':
                if _has_variables(dom):
                    p1 = p2 = ()
                p1, p2 = drop_empty(p1), drop_empty(p2)
            if p1 != p2:
                fails.append((CL_EQUIV, '[%s] %s | text %r' % (cfg, gen.diff(p2, p1), _around(t1, p1, p2))))
            try:
                t2 = d2.cssText
            except Exception as e:
                fails.append((CL_SER, '[%s] reparsed: %s: %s' % (cfg, type(e).__name__, str(e)[:200])))
                continue
            if t2 != t1:
                fails.append((CL_FIX, '[%s] %s' % (cfg, _bytes_diff(t1, t2))))
    finally:
        cssutils.ser.prefs.useDefaults()
    return fails


def _around(t1, p1, p2):
    return t1[:300]


def _bytes_diff(t1, t2):
    n = min(len(t1), len(t2))
    i = next((k for k in range(n) if t1[k] != t2[k]), n)
    return 'first difference at byte %d: %r vs %r' % (i, t1[max(0, i - 40):i + 40], t2[max(0, i - 40):i + 40])


# -------------------------------------------------------------------------------------------------------------------- known classes
# (id, predicate(info) -> bool) where info is the dict describing the input of the failing check; sharp by construction of the predicates.
# Filled in after triage; see known/C03.json and findings_C03.md.

import re

_PLAIN_IDENT = re.compile(r'^-?[_a-zA-Z\u0080-\U0010ffff][-_a-zA-Z0-9\u0080-\U0010ffff]*\Z')
IDENT_CONTEXTS = ('ident value', 'class name', 'id name', 'type name', 'attribute name', 'attribute value ident', 'property name', 'namespace prefix', 'page name',
                  'unknown at-keyword', 'function name', 'dimension unit', 'pseudo-class name')
URL_CONTEXTS = ('url value quoted', 'url value bare', 'import href url', 'import href url bare')
BARE_URL_CONTEXTS = ('url value bare', 'import href url bare')
STRING_CONTEXTS = ('string value "', "string value '", 'string in function', 'url value quoted', 'import href string', 'import href url', 'import name', 'namespace uri',
                   'attribute value string', 'unknown rule string')
# identifier contexts in which cssutils decodes simple escapes (backslash + character) too - elsewhere it keeps them as written and only hex escapes are decoded
SIMPLE_DECODED_CONTEXTS = ('unknown at-keyword', 'function name', 'dimension unit', 'pseudo-class name')
_ESC = r'(?<!\\)(?:\\\\)*\\'         # a backslash that starts an escape (not itself escaped)
_HEX_ESCAPE = re.compile(_ESC + '[0-9a-fA-F]')
_HEX_BACKSLASH = re.compile(_ESC + '(?:00005[cC]|0{0,3}5[cC](?![0-9a-fA-F]))')   # U+005C as a hex escape (six digits are complete, fewer must not be followed by another digit)
_SIMPLE_QUOTE = re.compile(_ESC + '"')
_URL_CONTROL = re.compile('[\x00-\x08\x0b\x0e-\x1f\x7f]')
COMMENT_CONTEXTS = ('comment rule level', 'comment declaration level', 'comment in value', 'comment in selector', 'comment in media')


def _tree_has(node, pred):
    if pred(node):
        return True
    if isinstance(node, (tuple, list)):
        return any(_tree_has(x, pred) for x in node)
    return False


def _sp(info):
    return gen.Spelling.from_json({**gen.DEFAULT.to_json(), **info.get('spelling', {})})


def _is_not_type(x):
    return isinstance(x, (tuple, list)) and len(x) == 2 and x[0] == 'not' and isinstance(x[1], (tuple, list)) and x[1][0] == 'type'


def _is_calc(x):
    return isinstance(x, (tuple, list)) and len(x) == 2 and x[0] == 'calc'


def _empty_block_rule(x):
    return isinstance(x, (tuple, list)) and len(x) >= 2 and ((x[0] == 'page' and len(x) == 4 and not x[2] and not x[3]) or (x[0] == 'fontface' and len(x) == 2 and not x[1])
                                                              or (x[0] == 'margin' and len(x) == 3 and not x[2]))


def _k_ident(info, fails):
    if info['domain'] == 'content':
        # the escape has to be one that the tokenizer decodes: a hex escape anywhere, a simple escape in the four contexts where those are decoded as well; an
        # identifier whose source holds simple escapes only is kept as written and is NOT in the class
        return (info['context'] in IDENT_CONTEXTS and not _PLAIN_IDENT.match(info['content'])
                and (info['context'] in SIMPLE_DECODED_CONTEXTS or bool(_HEX_ESCAPE.search(info['source']))))
    if info['domain'] == 'edits':
        return any('.\\\\31 a' in o or '.\\31 a' in o for o in info['ops'])
    if info['domain'] == 'real':
        return info['path'].endswith('/acid2.css') and all('rgin' in d for _, d in fails)
    return False


def _k_not_type(info, fails):
    if info['domain'] not in ('generator', 'nodes'):
        return False
    sp = _sp(info)
    spelled = (sp.case != 'lower' and 'not' in sp.case_parts) or (sp.escape == 'simple' and 'not' in sp.escape_parts)
    return spelled and _tree_has(info['sheet'], _is_not_type) and all(':not' in d for _, d in fails)


def _k_calc_comment(info, fails):
    if info['domain'] not in ('generator', 'nodes'):
        return False
    sp = _sp(info)
    return sp.comments != 'none' and 'calc' in sp.comment_parts and _tree_has(info['sheet'], _is_calc)


def _unencodable(text, enc):
    try:
        text.encode(enc)
        return False
    except (UnicodeError, LookupError):
        return True


def _k_atkeyword_crlf(info, fails):
    if info['domain'] == 'content':
        # the serializer writes a character the sheet encoding cannot represent as a hex escape - which the tokenizer does not decode in an at-keyword
        return info['context'] == 'unknown at-keyword' and bool(info.get('encoding')) and _unencodable(info['content'], info['encoding'])
    if info['domain'] == 'edits':
        return info['base'] == 'non-ascii' and any(o.startswith('encoding=') for o in info['ops']) and all('unknown' in d or '@f' in d for _, d in fails)
    if info['domain'] not in ('generator', 'nodes'):
        return False
    sp = _sp(info)
    return (sp.escape == 'hexcrlf' and any(p in sp.escape_parts for p in ('atkeyword-unknown', 'atkeyword-margin'))
            and _tree_has(info['sheet'], lambda x: isinstance(x, (tuple, list)) and len(x) == 3 and x[0] in ('unknown', 'margin')))


def _functional_pseudo(x):
    return isinstance(x, (tuple, list)) and len(x) > 0 and ((x[0] == 'pclass' and len(x) == 3 and x[2] is not None) or x[0] == 'not')


def _k_pseudo_comment(info, fails):
    if info['domain'] not in ('generator', 'nodes'):
        return False
    sp = _sp(info)
    return sp.comments != 'none' and 'pseudo-arg' in sp.comment_parts and _tree_has(info['sheet'], _functional_pseudo)


def _k_empty(info, fails):
    if info['domain'] == 'generator':
        return _tree_has(info['sheet'], _empty_block_rule) and all('[lossless]' in d for _, d in fails)
    if info['domain'] == 'nodes':
        return _tree_has(info['sheet'], _empty_block_rule) and info['node'] in ('rule:CSSPageRule', 'rule:CSSFontFaceRule', 'rule:MarginRule')
    return False


def _k_media_ns(info, fails):
    return (info['domain'] == 'nodes' and info['node'] == 'rule:CSSMediaRule' and _tree_has(info['sheet'], lambda x: isinstance(x, (tuple, list)) and len(x) == 3 and x[0] == 'namespace')
            and all(cl == CL_NODE_EQUIV or cl == CL_NODE_ACCEPT for cl, _ in fails))


def _k_hex_backslash(info, fails):
    return (info['domain'] == 'content' and info['context'] in STRING_CONTEXTS + BARE_URL_CONTEXTS and bool(_HEX_BACKSLASH.search(info['source']))
            and bool(re.search(r'\\[0-9a-fA-F\n\r\f"\'\\]', info['content'])))


def _dup_media_list(detail):
    """does the serialisation quoted in the failure detail hold an @media / @import list with two equal queries (compared case-insensitively)"""
    for m in re.finditer(r'@media ([^{;]*)\{|@import [^;]*?(?:"|\))([^;"]*);', detail):
        qs = [q.strip().lower() for q in re.sub(r'"[^"]*"\s*$', '', m.group(1) or m.group(2) or '').split(',')]   # (without the name of a named @media rule)
        if len(qs) != len(set(qs)):
            return True
    return False


def _k_mediatype_duplicate(info, fails):
    return (info['domain'] == 'edits' and any('.mediaType=' in o for o in info['ops']) and 'mediaquery(typeless).mediaType=tv' not in info['ops']
            and all(bool(re.search(r'media\[\d+\]: \d+ item', d)) or _dup_media_list(d) for _, d in fails))


KNOWN = [
    ('C03-ident-not-reescaped', _k_ident),
    ('C03-hex-escaped-backslash', _k_hex_backslash),
    ('C03-bare-url-escaped-quote', lambda info, fails: info['domain'] == 'content' and info['context'] in BARE_URL_CONTEXTS and '"' in info['content']
     and bool(_SIMPLE_QUOTE.search(info['source']))),
    ('C03-bare-url-trailing-escaped-backslash', lambda info, fails: info['domain'] == 'content' and info['context'] in BARE_URL_CONTEXTS and info['content'].strip().endswith('\\')
     and '\\\\' in info['source']),
    ('C03-ident-trailing-escaped-space', lambda info, fails: info['domain'] == 'content' and info['context'] in ('namespace prefix', 'page name') and info['content'].endswith(' ')
     and bool(re.search(_ESC + ' ', info['source']))),
    ('C03-mediatype-set-duplicate-query', _k_mediatype_duplicate),
    ('C03-mediatype-set-typeless-query', lambda info, fails: info['domain'] == 'edits' and 'mediaquery(typeless).mediaType=tv' in info['ops']
     and all(bool(re.search(r'\btv min-width', d, re.I)) for _, d in fails)),
    ('C03-url-control-char-unquoted', lambda info, fails: info['domain'] == 'content' and info['context'] in URL_CONTEXTS and bool(_URL_CONTROL.search(info['content']))),
    ('C03-comment-linebreak-reindented', lambda info, fails: info['domain'] == 'content' and info['context'] in ('comment declaration level', 'comment in value')
     and all('*/' in d for _, d in fails)
     and (any(c in info['content'] for c in '\n\r\f') or bool(re.search(r'\\[aAcCdD](?![0-9a-fA-F])', info['content'])))),
    ('C03-selector-nbsp-stripped', lambda info, fails: info['domain'] == 'content' and info['context'] in ('attribute name', 'attribute value ident', 'type name')
     and info['content'] != info['content'].strip() and info['content'].strip(' \t\r\n\f') == info['content']),
    ('C03-unknownrule-string-brace', lambda info, fails: info['domain'] == 'content' and info['context'] == 'unknown rule string' and any(c in info['content'] for c in '{}')),
    ('C03-not-spelled-type-argument', _k_not_type),
    ('C03-atkeyword-escape-linebreak', _k_atkeyword_crlf),
    ('C03-calc-comment', _k_calc_comment),
    ('C03-pseudo-arg-comment', _k_pseudo_comment),
    ('C03-empty-page-fontface-margin', _k_empty),
    ('C03-mediarule-namespaces-ignored', _k_media_ns),
    ('C03-import-name-set-not-written', lambda info, fails: info['domain'] == 'edits' and 'import.name=' in info['ops'] and all("import[3]" in d or 'n"m' in d or 'n\\"m' in d for _, d in fails)),
    ('C03-selector-outside-default-namespace', lambda info, fails: info['domain'] == 'edits' and info['base'] == 'namespaces'
     and any(o in ('add(CSSStyleRule)', 'mediarule.insertRule') or o.startswith("insertRule('@media") for o in info['ops']) and all("got '', expected None" in d or '|n' in d or '|m' in d for _, d in fails)),
    ('C03-duplicate-margin-rule-merged', lambda info, fails: info['domain'] == 'edits' and info['ops'].count('page.add(MarginRule)') == 2),
]


def classify(info, fails):
    """-> ids of the recorded findings that explain the failures of this input, or None.  First one class for all failures; if none does, every
    single failure must be explained by a class of its own (an input can sit in two classes, e.g. two edits that each hit a finding)"""
    def one(fs):
        for fid, pred in KNOWN:
            try:
                if pred(info, fs):
                    return fid
            except Exception:
                continue
        return None
    fid = one(fails)
    if fid:
        return [fid]
    ids = []
    for f in fails:
        fid = one([f])
        if not fid:
            return None
        if fid not in ids:
            ids.append(fid)
    return ids


# ------------------------------------------------------------------------------------------------------- domain 1: generator DOMs

def _gen_spellings(tier, seed):
    D = gen.DEFAULT
    sps = [D, dataclasses.replace(D, ws='none', comments='all'), dataclasses.replace(D, case='upper', escape='hex'), dataclasses.replace(D, escape='simple'),
           dataclasses.replace(D, quote="'", urlquote="'", lastsemi=True, num='padded', importurl=True)]
    if tier == 'thorough':
        sps += [dataclasses.replace(D, ws='none'), dataclasses.replace(D, comments='all'), dataclasses.replace(D, case='mixed'), dataclasses.replace(D, escape='hexcrlf', ws='crlf')]
    return sps


def _gen_worker(args):
    tier, seed, lo, hi = args
    cssutils = _quiet()
    sheets = gen.enumerate_sheets(tier, seed)
    sps = _gen_spellings(tier, seed)
    res = {'n': 0, 'fails': [], 'kinds': set()}
    for idx in range(lo, hi):
        label, a = sheets[idx]
        seen = set()
        for sp in sps:
            text = gen.render(a, sp)
            if text in seen:
                continue
            seen.add(text)
            try:
                dom = cssutils.parseString(text)
            except Exception:
                continue  # C02's clause, not this property's
            finally:
                cssutils.log.raiseExceptions = True
            res['n'] += 1
            res['kinds'].add(label.split(':')[0])
            fails = roundtrip(dom)
            for cl, detail in fails:
                res['fails'].append({'clause': cl, 'detail': detail, 'info': {'domain': 'generator', 'label': label, 'sheet': gen.to_json(a), 'spelling': sp.describe(), 'text': text}})
    res['kinds'] = sorted(res['kinds'])
    return res


class _Proxy:
    """stands in for ctx while the domains run side by side on one pool; replayed into the real ctx in a fixed order"""

    def __init__(self, ctx, pool):
        self.tier, self.seed, self.jobs, self.pool = ctx.tier, ctx.seed, ctx.jobs, pool
        self.calls = []
        self.bounded = []
        self.error = None

    def violation(self, *a, **kw):
        self.calls.append((a, kw))


def all_domains(ctx):
    """the five domains on one shared process pool (the big real sheets run beside the many small tasks); results are reported in a fixed order"""
    import threading
    jobs = max(1, ctx.jobs)
    domains = (real_sheets, edited_doms, generator_doms, node_texts, content)
    if jobs == 1:
        for fn in domains:
            fn(ctx)
        return
    with multiprocessing.get_context('fork').Pool(jobs) as pool:
        proxies = [_Proxy(ctx, pool) for _ in domains]

        def guard(fn, px):
            try:
                fn(px)
            except BaseException as e:  # re-raised in the main thread
                px.error = e
        threads = [threading.Thread(target=guard, args=(fn, px)) for fn, px in zip(domains, proxies)]
        for th in threads:
            th.start()
        for th in threads:
            th.join()
    order = {fn: px for fn, px in zip(domains, proxies)}
    for fn in (generator_doms, real_sheets, edited_doms, node_texts, content):
        px = order[fn]
        if px.error is not None:
            raise px.error
        for a, kw in px.calls:
            ctx.violation(*a, **kw)
        ctx.bounded.extend(px.bounded)


def _pool_run(ctx, worker, tasks):
    pool = getattr(ctx, 'pool', None)
    if pool is not None:
        return pool.map(worker, tasks, chunksize=1)
    jobs = max(1, ctx.jobs)
    if jobs > 1 and len(tasks) > 1:
        with multiprocessing.get_context('fork').Pool(jobs) as pool:
            return pool.map(worker, tasks, chunksize=1)
    return [worker(t) for t in tasks]


def _report(ctx, results, name, rule, bound, samples, t0, exhaustive=False):
    n = sum(r['n'] for r in results)
    kinds = set()
    hits = {}
    for r in results:
        kinds.update(tuple(k) if isinstance(k, list) else k for k in r['kinds'])
        # all failures of one input are classified together
        byinput = {}
        for f in r['fails']:
            byinput.setdefault(json.dumps(f['info'], sort_keys=True, default=str), []).append(f)
        for fs in byinput.values():
            fids = classify(fs[0]['info'], [(f['clause'], f['detail']) for f in fs])
            if fids:
                for fid in fids:
                    h = hits.setdefault(fid, {'count': 0, 'witness': fs[0]})
                    h['count'] += 1
                    if len(fids) == 1 and len(_info_text(fs[0]['info'])) < len(_info_text(h['witness']['info'])):
                        h['witness'] = fs[0]
                continue
            for f in fs:
                ctx.violation(f['clause'], '%s | %s' % (_info_text(f['info']), f['detail']), True, f['info'])
    for fid, h in sorted(hits.items()):
        f = h['witness']
        ctx.violation('bounded: recorded finding %s' % fid, '%s | %s (%d inputs of the class in this run)' % (_info_text(f['info']), f['detail'], h['count']), True, f['info'], known_id=fid)
    ctx.bounded.append({'name': name, 'evaluations': n, 'distinct_nontrivial': len(kinds), 'rule': rule, 'samples': samples, 'bound': bound, 'exhaustive': exhaustive,
                        'wall_s': round(time.time() - t0, 1), 'known_class_inputs': {k: v['count'] for k, v in sorted(hits.items())}})


def _info_text(info):
    d = {k: v for k, v in info.items() if k not in ('sheet',)}
    s = json.dumps(d, default=str)
    return s if len(s) < 500 else s[:500] + '...'


def generator_doms(ctx):
    t0 = time.time()
    sheets = gen.enumerate_sheets(ctx.tier, ctx.seed)
    n = len(sheets)
    step = max(1, min(30, n // (max(1, ctx.jobs) * 6) or 1))
    tasks = [(ctx.tier, ctx.seed, lo, min(n, lo + step)) for lo in range(0, n, step)]
    results = _pool_run(ctx, _gen_worker, tasks)
    _report(ctx, results, 'generator DOMs', 'every abstract sheet of bounded/gen.py parsed from %d spellings; each DOM serialised, reparsed, compared (projection and bytes) under the default '
            'and the lossless preferences; distinct = construct-kind label of the sheet' % len(_gen_spellings(ctx.tier, ctx.seed)),
            '%d abstract sheets (%s)' % (n, gen.ENUMERATION[ctx.tier]), [{'text': gen.render(sheets[-1][1])[:300]}], t0)


# --------------------------------------------------------------------------------------------------------- domain 2: real sheets

class _Count(logging.Handler):
    def __init__(self):
        super().__init__(logging.ERROR)
        self.n = 0

    def emit(self, record):
        self.n += 1


def _real_worker(args):
    path, tier = args
    cssutils = _quiet()
    res = {'n': 0, 'fails': [], 'kinds': set(), 'skipped': []}
    h = _Count()
    orig = logging.getLogger('CSSUTILS')
    mine = logging.getLogger('verif-c03-count')
    mine.propagate = False
    mine.handlers = [h]
    mine.setLevel(logging.ERROR)
    cssutils.log.setLog(mine)
    try:
        try:
            dom = cssutils.parseFile(path)
        except UnicodeDecodeError:
            dom = cssutils.parseFile(path, encoding='iso-8859-1')
        except Exception as e:
            res['skipped'].append((path, 'parseFile raises %s (C01)' % type(e).__name__))
            return res
    finally:
        cssutils.log.setLog(orig)
        cssutils.log.setLevel(logging.FATAL)
        cssutils.log.raiseExceptions = True
    res['n'] = 1
    res['kinds'].add(os.path.basename(path))
    res['errors'] = h.n
    big = os.path.getsize(path) > 50000 and tier == 'quick'
    fails = roundtrip(dom, href=dom.href, configs=('lossless',) if big else ('default', 'lossless'))
    for cl, detail in fails:
        res['fails'].append({'clause': cl, 'detail': detail, 'info': {'domain': 'real', 'path': path, 'parse_errors': h.n}})
    res['kinds'] = sorted(res['kinds'])
    return res


def real_sheets(ctx):
    t0 = time.time()
    paths = gen.real_sheets()
    # largest first so that the pool is balanced
    paths.sort(key=lambda p: -os.path.getsize(p))
    results = _pool_run(ctx, _real_worker, [(p, ctx.tier) for p in paths])
    skipped = [s for r in results for s in r.get('skipped', [])]
    _report(ctx, results, 'real sheets', 'every *.css under /repo/sheets parsed with parseFile, serialised, reparsed, compared (projection and bytes) under the default and the '
            'lossless preferences (quick tier: files > 50 kB under the lossless preferences only); distinct = files', '%d files (%d not parsed: %s)' % (len(paths), len(skipped), skipped), [{'path': paths[0]}], t0, exhaustive=True)


# ----------------------------------------------------------------------------------------------------------- domain 3: edited DOMs

BASES = {
    'two-rules': 'a { color: red; top: 1px } /*c*/ b.c > d { margin: 1px 2em }',
    'namespaces': '@namespace p "http://p"; @namespace "http://d"; p|a, |b, *|c { color: red } d[p|x=y] { left: 0 }',
    'at-rules': '@import "a.css" screen; @media screen, print { a { left: 0 } b { top: 1px } } @page :first { margin: 1cm; @top-left { content: "x" } } '
                '@font-face { font-family: x; src: url(y) }',
    'charset-comments': '@charset "utf-8"; /*1*/ a { /*2*/ color: red; /*3*/ } /*4*/ @foo bar { baz }',
    'empty': '',
    # non-ASCII text in every place that holds text: after sheet.encoding = <an encoding that cannot represent it> the serializer writes hex escapes, and the
    # reparsed DOM must hold the same comment text, strings, URLs, identifiers and selectors again (projection, not only bytes)
    'non-ascii': '/* Gr\xfc\xdfe \u2013 caf\xe9 \u20ac */ @import "\xfc.css" screen; @namespace p\xfc "http://\xe4"; .Gr\xfc\xdfe, #caf\xe9[data-\xfc="\xf6\u20ac"] > p\xfc|\xe9l\xe9ment '
                 '{ /* d\xe9cl \xfc \u20ac */ content: "Gr\xfc\xdfe \u20ac" "\xe9\\a x"; background: url(\xfc.png) url("a \xf6.png"); font-family: Gr\xfc\xdfe, \xe9a; } '
                 '/*\xe9*/ @media screen { /* \xfc in media */ .\xe9 { left: 0 } } @f\xf6\xf6 b\xe4r "\xe4";',
}


# a query for every shape of the media query grammar: only/not + type + features, type alone, type + feature, features alone
BASES['media-queries'] = ('@import "a.css" only screen and (color); @media only screen and (min-width: 1px), not print, tv and (color) { a { left: 0 } } '
                          '@media not all and (monochrome) { b { top: 0 } } @media (min-width: 1px) and (color) { c { top: 0 } }')

BASE_SPELLINGS = ('as-is', 'upper', 'capitalised')
_RESPELL = re.compile(r"""("(?:[^"\\]|\\.)*"|'(?:[^'\\]|\\.)*')|(/\*.*?\*/)|(url\()([^)]*)(\))|(@charset\b)|(@namespace\s+)([-\w]+)?|([-\w]+)(?=\|)|([a-zA-Z]+)""", re.S | re.I)


def respell(text, how):
    """the same sheet with every ASCII letter outside strings, url( ) contents, comments, '@charset' and namespace prefixes in upper case ('upper') or every
    word capitalised ('capitalised'): keywords, property names, units, media types, element names ... are all spelled differently; it is another well-formed source"""
    if how == 'as-is':
        return text
    up = (lambda w: w.upper()) if how == 'upper' else (lambda w: w[:1].upper() + w[1:].lower())
    asc = lambda w: ''.join(up(x) if x.isascii() else x for x in re.split(r'([^\x00-\x7f]+)', w))  # noqa: E731

    def sub(m):
        string, comment, u1, u2, u3, charset, ns, nsprefix, prefix, word = m.groups()
        if string or comment or charset or prefix:
            return m.group(0)
        if u1:
            return asc(u1) + u2 + u3
        if ns:
            return asc(ns) + (nsprefix or '')
        return asc(word)
    return _RESPELL.sub(sub, text)


def _first(sheet, typ):
    for r in sheet.cssRules:
        if r.type == typ:
            return r
    raise LookupError(typ)


def _ops():
    """pool of edit operations: (name, function(sheet)); a DOM exception means 'rejected'"""
    import cssutils
    R = cssutils.css.CSSRule
    ops = []

    def op(name):
        def deco(fn):
            ops.append((name, fn))
            return fn
        return deco

    for i, text in enumerate(['x { left: 0 }', '@import "i.css" tv;', '@namespace q "http://q";', '@media tv { y { top: 0 } }', '@page :left { margin: 0 }',
                              '@font-face { font-family: f }', '/*ins*/', '@bar baz;', 'q|z { color: blue }', '.\\31 a { color: red }', 'z { content: "a\'b" "c\\"d" }']):
        ops.append(('insertRule(%r, 0)' % text, lambda s, text=text: s.insertRule(text, 0)))
        ops.append(('insertRule(%r, end)' % text, lambda s, text=text: s.insertRule(text, len(s.cssRules))))
    ops.append(('deleteRule(0)', lambda s: s.deleteRule(0)))
    ops.append(('deleteRule(last)', lambda s: s.deleteRule(len(s.cssRules) - 1)))
    ops.append(('add(CSSStyleRule)', lambda s: s.add(cssutils.css.CSSStyleRule(selectorText='n', style='top:0'))))
    ops.append(('add(CSSComment)', lambda s: s.add(cssutils.css.CSSComment('/*added*/'))))
    ops.append(('add(CSSImportRule)', lambda s: s.add(cssutils.css.CSSImportRule(href='n.css', mediaText='print'))))
    ops.append(('add(CSSNamespaceRule)', lambda s: s.add(cssutils.css.CSSNamespaceRule(namespaceURI='http://n', prefix='n'))))
    for enc in ('ascii', 'iso-8859-1', 'utf-8', 'koi8-r'):
        ops.append(('encoding=%s' % enc, lambda s, enc=enc: setattr(s, 'encoding', enc)))
    ops.append(('namespaces[q]', lambda s: s.namespaces.__setitem__('q', 'http://q2')))
    ops.append(('del namespaces[p]', lambda s: s.namespaces.__delitem__('p')))
    S = R.STYLE_RULE
    for sel in ['x, y > z', 'p|b', '#i.c[a="b"]:hover::after', 'a /*c*/ b', '*']:
        ops.append(('style.selectorText=%r' % sel, lambda s, sel=sel: setattr(_first(s, S), 'selectorText', sel)))
    for name, value, prio in [('color', 'blue', ''), ('COLOR', 'green', 'important'), ('x', '"a\'b"', ''), ('background', 'url("a b") #AABBCC', ''), ('top', '-0.50px', ''),
                              ('font-family', 'a, "b c"', ''), ('width', 'calc(1px + 2px)', '')]:
        ops.append(('style.setProperty(%r, %r, %r)' % (name, value, prio), lambda s, n=name, v=value, p=prio: _first(s, S).style.setProperty(n, v, p)))
    ops.append(('style.removeProperty(color)', lambda s: _first(s, S).style.removeProperty('color')))
    ops.append(('style.cssText=top;comment', lambda s: setattr(_first(s, S).style, 'cssText', 'top: 1px; /*c*/')))
    ops.append(('style.cssText=empty', lambda s: setattr(_first(s, S).style, 'cssText', '')))
    ops.append(('style[left]=0', lambda s: _first(s, S).style.__setitem__('left', '0')))
    ops.append(('property.value=', lambda s: setattr(_first(s, S).style.getProperties(all=True)[0], 'value', '1px 2px')))
    ops.append(('property.priority=', lambda s: setattr(_first(s, S).style.getProperties(all=True)[0], 'priority', 'important')))
    ops.append(('property.name=', lambda s: setattr(_first(s, S).style.getProperties(all=True)[0], 'name', 'bottom')))
    M = R.MEDIA_RULE
    ops.append(('media.appendMedium(tv)', lambda s: _first(s, M).media.appendMedium('tv')))
    ops.append(('media.deleteMedium(screen)', lambda s: _first(s, M).media.deleteMedium('screen')))
    ops.append(('media.mediaText=all', lambda s: setattr(_first(s, M).media, 'mediaText', 'all')))
    ops.append(('media.mediaText=query', lambda s: setattr(_first(s, M).media, 'mediaText', 'only screen and (min-width: 1px), print')))
    ops.append(('mediarule.insertRule', lambda s: _first(s, M).insertRule('m { left: 0 }', 0)))
    ops.append(('mediarule.deleteRule(0)', lambda s: _first(s, M).deleteRule(0)))
    ops.append(('mediarule.deleteRule x2', lambda s: (_first(s, M).deleteRule(0), _first(s, M).deleteRule(0))))
    I = R.IMPORT_RULE
    ops.append(('import.href=', lambda s: setattr(_first(s, I), 'href', 'b c.css')))
    ops.append(('import.media=', lambda s: setattr(_first(s, I).media, 'mediaText', 'print')))
    ops.append(('import.name=', lambda s: setattr(_first(s, I), 'name', 'n"m')))
    N = R.NAMESPACE_RULE
    ops.append(('namespace.prefix=', lambda s: setattr(_first(s, N), 'prefix', 'zz')))
    P = R.PAGE_RULE
    ops.append(('page.selectorText=', lambda s: setattr(_first(s, P), 'selectorText', 'nm:left')))
    ops.append(('page.style.setProperty', lambda s: _first(s, P).style.setProperty('size', '1cm 2cm')))
    ops.append(('page.add(MarginRule)', lambda s: _first(s, P).add(cssutils.css.MarginRule(margin='@bottom-center', style='content: "y"'))))
    ops.append(('page.deleteRule(0)', lambda s: _first(s, P).deleteRule(0)))
    C = R.COMMENT
    ops.append(('comment.cssText=', lambda s: setattr(_first(s, C), 'cssText', '/*new * / text*/')))
    F = R.FONT_FACE_RULE
    ops.append(('fontface.style.setProperty', lambda s: _first(s, F).style.setProperty('unicode-range', 'U+0-7F, U+4??')))
    # every writable attribute of a media query / media list item, on the first and the last query of the first @media rule and on the @import rule
    for which, idx in (('first', 0), ('last', -1)):
        ops.append(('mediaquery(%s).mediaType=print' % which, lambda s, idx=idx: setattr(_first(s, M).media[idx], 'mediaType', 'print')))
        ops.append(('mediaquery(%s).mediaText=' % which, lambda s, idx=idx: setattr(_first(s, M).media[idx], 'mediaText', 'not tv and (max-width: 2px)')))
    ops.append(('mediaquery(typeless).mediaType=tv', lambda s: setattr([q for r in s.cssRules if r.type == M for q in r.media if q.mediaText.startswith('(')][0], 'mediaType', 'tv')))
    ops.append(('mediaquery(first).mediaType=TV', lambda s: setattr(_first(s, M).media[0], 'mediaType', 'TV')))
    ops.append(('import.mediaquery.mediaType=', lambda s: setattr(_first(s, I).media[0], 'mediaType', 'handheld')))
    ops.append(('media.appendMedium(MediaQuery)', lambda s: _first(s, M).media.appendMedium(cssutils.stylesheets.MediaQuery('only tv and (color)'))))
    ops.append(('media.deleteMedium(print)', lambda s: _first(s, M).media.deleteMedium('print')))
    ops.append(('mediarule.media=', lambda s: setattr(_first(s, M), 'media', 'not screen and (color), tv')))
    ops.append(('mediarule.name=', lambda s: setattr(_first(s, M), 'name', 'mn')))
    # the writable attributes of the other node classes that the operations above do not reach
    ops.append(('charset.encoding=', lambda s: setattr(_first(s, R.CHARSET_RULE), 'encoding', 'iso-8859-1')))
    ops.append(('namespace.namespaceURI=', lambda s: setattr(_first(s, N), 'namespaceURI', 'http://other')))
    ops.append(('stylerule.style=', lambda s: setattr(_first(s, S), 'style', 'bottom: 2px !important; /*s*/')))
    ops.append(('stylerule.cssText=', lambda s: setattr(_first(s, S), 'cssText', 'e > f { right: 0 }')))
    ops.append(('selectorList.appendSelector', lambda s: _first(s, S).selectorList.appendSelector('g + h')))
    ops.append(('selector.selectorText=', lambda s: setattr(_first(s, S).selectorList[0], 'selectorText', 'i ~ j')))
    ops.append(('property.cssText=', lambda s: setattr(_first(s, S).style.getProperties(all=True)[0], 'cssText', 'right: 1px !important')))
    ops.append(('propertyValue.cssText=', lambda s: setattr(_first(s, S).style.getProperties(all=True)[0].propertyValue, 'cssText', 'url(u) "s", 2em')))
    ops.append(('unknown.cssText=', lambda s: setattr(_first(s, R.UNKNOWN_RULE), 'cssText', '@other "x" { y }')))
    ops.append(('marginrule.margin=', lambda s: setattr(_first(s, P).cssRules[0], 'margin', '@bottom-right')))
    ops.append(('marginrule.style=', lambda s: setattr(_first(s, P).cssRules[0], 'style', 'content: "m"')))
    ops.append(('page.style=', lambda s: setattr(_first(s, P), 'style', 'margin: 2cm')))
    ops.append(('fontface.style=', lambda s: setattr(_first(s, F), 'style', 'font-family: g; src: url(h)')))
    ops.append(('mediarule.cssText=', lambda s: setattr(_first(s, M), 'cssText', '@media tv and (color) { k { top: 0 } }')))
    ops.append(('import.cssText=', lambda s: setattr(_first(s, I), 'cssText', '@import url(z.css) not print;')))
    return ops


def _pair_pool(ops, tier):
    """indexes of the operations used in sequences of two (quick: without the insert-at-0 twins and the second spelling of similar edits)"""
    if tier == 'thorough':
        return list(range(len(ops)))
    skip = ("insertRule(", "encoding=utf-8", "encoding=koi8-r", "style.setProperty('COLOR'", "style.setProperty('top'", "style.setProperty('font-family'", "style.selectorText='*'", "style.selectorText='a /*c*/ b'")
    # of the attribute setters added later only two take part in the pairs of the quick tier (all of them are applied alone, on every base in every spelling)
    skip += ('mediaquery(last)', 'mediaquery(typeless)', 'mediaquery(first).mediaText=', 'mediaquery(first).mediaType=TV', 'import.mediaquery.', 'media.appendMedium(MediaQuery)', 'media.deleteMedium(print)', 'mediarule.name=',
             'charset.encoding=', 'namespace.namespaceURI=', 'stylerule.', 'selectorList.', 'selector.selectorText=', 'property.cssText=', 'propertyValue.', 'unknown.cssText=', 'marginrule.',
             'page.style=', 'fontface.style=', 'mediarule.cssText=', 'import.cssText=')
    keep_insert = ("insertRule('x { left: 0 }', 0)", "insertRule('@import \"i.css\" tv;', 0)", "insertRule('@media tv { y { top: 0 } }', end)", "insertRule('/*ins*/', end)",
                   "insertRule('@namespace q \"http://q\";', 0)", "insertRule('q|z { color: blue }', end)", "insertRule('@page :left { margin: 0 }', end)")
    return [i for i, (n, _) in enumerate(ops) if n in keep_insert or not n.startswith(skip)]


def _sequences(ops, depth, tier):
    seqs = [(i,) for i in range(len(ops))]
    if depth >= 2:
        pool = _pair_pool(ops, tier)
        seqs += [(i, j) for i in pool for j in pool]
    return seqs


def _edit_worker(args):
    tier, base, lo, hi, depth, spelling = args
    cssutils = _quiet()
    ops = _ops()
    n_ops = len(ops)
    seqs = _sequences(ops, depth, tier)
    res = {'n': 0, 'fails': [], 'kinds': set(), 'accepted': 0, 'rejected': 0}
    source = respell(BASES[base], spelling)
    extra = {} if spelling == 'as-is' else {'base_spelling': spelling, 'source': source}
    for seq in seqs[lo:hi]:
        cssutils.log.raiseExceptions = True
        dom = cssutils.parseString(source)
        cssutils.log.raiseExceptions = True
        accepted = []
        for i in seq:
            try:
                ops[i][1](dom)
                accepted.append(ops[i][0])
            except (xml.dom.DOMException, LookupError, IndexError):
                res['rejected'] += 1
            except Exception as e:
                res['fails'].append({'clause': 'bounded: an edit either succeeds or raises a DOM exception', 'detail': '%s: %s' % (type(e).__name__, str(e)[:200]),
                                     'info': {'domain': 'edits', 'base': base, 'ops': [ops[k][0] for k in seq], **extra}})
        if not accepted:
            continue
        res['accepted'] += len(accepted)
        res['n'] += 1
        res['kinds'].add((base, spelling) + tuple(a.split('=')[0] if a.startswith(('mediaquery(', 'import.mediaquery')) else a.split('(')[0].split('=')[0] for a in accepted))
        for cl, detail in roundtrip(dom):
            res['fails'].append({'clause': cl, 'detail': detail, 'info': {'domain': 'edits', 'base': base, 'ops': accepted, **extra}})
    res['kinds'] = sorted(res['kinds'])
    return res


def _edit_plan(tier):
    """[(base, spelling, depth)]: which base sheet, in which spelling, with operation sequences up to which length"""
    plan = []
    if tier == 'thorough':
        for base in BASES:
            plan.append((base, 'as-is', 2))
            plan.append((base, 'upper', 2 if base in ('at-rules', 'media-queries') else 1))
            plan.append((base, 'capitalised', 1))
    else:
        for base in BASES:
            plan.append((base, 'as-is', 2 if base in ('two-rules', 'namespaces', 'at-rules') else 1))
            plan.append((base, 'upper', 1))
    return [(b, sp, d) for b, sp, d in plan if not (sp != 'as-is' and respell(BASES[b], sp) == BASES[b])]


def edited_doms(ctx):
    t0 = time.time()
    n_ops = len(_ops())
    tasks = []
    plan = _edit_plan(ctx.tier)
    for base, spelling, depth in plan:
        total = len(_sequences(_ops(), depth, ctx.tier))
        step = 250
        for lo in range(0, total, step):
            tasks.append((ctx.tier, base, lo, min(total, lo + step), depth, spelling))
    results = _pool_run(ctx, _edit_worker, tasks)
    acc = sum(r['accepted'] for r in results)
    rej = sum(r['rejected'] for r in results)
    deep = sorted({'%s/%s' % (b, sp) for b, sp, d in plan if d == 2})
    _report(ctx, results, 'edited DOMs', 'every sequence of <= 2 operations from a pool of %d edits (insert/delete/add rules, selectorText, setProperty/removeProperty, style.cssText, '
            'property value/priority/name/cssText, media list edits, MediaQuery.mediaType/mediaText on the first and last query, import href/media/name, namespace prefix/URI, page selector/margin rules, '
            'comment text, encoding, namespaces map, and the remaining writable attributes: rule.cssText, rule.style, rule.media, media rule name, charset encoding, margin name, selector list / selector / '
            'property value text) on %d base sheets, each as written and respelled %s (ASCII letters outside strings, url( ), comments and namespace prefixes in upper case / capitalised): '
            'plan (base, spelling, max sequence length) = %s; pairs on %s; after the accepted edits the DOM is serialised, reparsed and compared; '
            'distinct = (base, spelling, accepted operation kinds)' % (n_ops, len(BASES), sorted({sp for _, sp, _ in plan} - {'as-is'}), plan, deep),
            'sequences of <= 2 edits on %d (base, spelling) pairs; %d operations accepted, %d rejected with a DOM exception' % (len(plan), acc, rej), [{'base': BASES['two-rules']}], t0, exhaustive=True)


# -------------------------------------------------------------------------------------------------------------- domain 4: node texts

def _node_checks(dom):
    """yields (kind, text, fails) for every serialisable node of the sheet"""
    import cssutils
    ns = dict(dom.namespaces.items()) if hasattr(dom.namespaces, 'items') else {}

    def with_ns(text):
        return (text, ns) if ns else text

    def check(kind, node, make, proj, textattr):
        try:
            text = getattr(node, textattr)
        except Exception as e:
            return [(CL_SER, '%s.%s: %s: %s' % (kind, textattr, type(e).__name__, str(e)[:200]))], None
        if isinstance(text, bytes):
            text = text.decode('utf-8')
        try:
            fresh = make(text)
        except Exception as e:
            return [(CL_NODE_ACCEPT, '%s.%s = %s: %s: %s' % (kind, textattr, repr(text)[:200], type(e).__name__, str(e)[:200]))], text
        finally:
            cssutils.log.raiseExceptions = True
        fails = []
        with gen.lenient():
            try:
                p1, p2 = norm_zero(proj(node)), norm_zero(proj(fresh))
            except Exception as e:
                return [(CL_NODE_EQUIV, '%s: projection raises %s: %s' % (kind, type(e).__name__, str(e)[:200]))], text
        if p1 != p2:
            fails.append((CL_NODE_EQUIV, '%s.%s = %s: %s' % (kind, textattr, repr(text)[:200], gen.diff(p2, p1, kind))))
        t2 = getattr(fresh, textattr)
        if isinstance(t2, bytes):
            t2 = t2.decode('utf-8')
        if t2 != text:
            fails.append((CL_NODE_FIX, '%s.%s: %s -> %s' % (kind, textattr, repr(text)[:200], repr(t2)[:200])))
        return fails, text

    def rule_nodes(rules):
        for r in rules:
            cls = type(r)

            def make(text, cls=cls):
                o = cls()
                o.cssText = with_ns(text) if cls.__name__ == 'CSSStyleRule' or cls.__name__ == 'CSSMediaRule' else text
                return o
            yield ('rule:' + cls.__name__,) + check(cls.__name__, r, make, gen.project_rule, 'cssText')
            t = r.type
            if t == r.STYLE_RULE:
                def mk_sl(text):
                    return cssutils.css.SelectorList(selectorText=with_ns(text))
                yield ('selectorList',) + check('SelectorList', r.selectorList, mk_sl, lambda sl: tuple(gen._lenient(gen.project_selector, s, 'selector', 'selectorText') for s in sl), 'selectorText')
                for s in r.selectorList:
                    def mk_s(text):
                        return cssutils.css.Selector(selectorText=with_ns(text))
                    yield ('selector',) + check('Selector', s, mk_s, lambda x: gen._lenient(gen.project_selector, x, 'selector', 'selectorText'), 'selectorText')
            if t in (r.STYLE_RULE, r.PAGE_RULE, r.FONT_FACE_RULE, r.MARGIN_RULE):
                yield from style_nodes(r.style)
            if t in (r.MEDIA_RULE, r.IMPORT_RULE):
                def mk_ml(text):
                    return cssutils.stylesheets.MediaList(mediaText=text)
                yield ('mediaList',) + check('MediaList', r.media, mk_ml, gen.project_media, 'mediaText')
                for it in r.media:
                    mq = it.value if hasattr(it, 'value') and not hasattr(it, 'mediaText') else it

                    def mk_mq(text):
                        return cssutils.stylesheets.MediaQuery(mediaText=text)
                    yield ('mediaQuery',) + check('MediaQuery', mq, mk_mq, lambda x: gen._lenient(gen.project_mediaquery, x, 'mediaquery', 'mediaText'), 'mediaText')
            if t in (r.MEDIA_RULE, r.PAGE_RULE):
                yield from rule_nodes(r.cssRules)

    def style_nodes(style):
        def mk_st(text):
            return cssutils.css.CSSStyleDeclaration(cssText=text)
        yield ('style',) + check('CSSStyleDeclaration', style, mk_st, gen.project_style, 'cssText')
        for p in style.getProperties(all=True):
            def mk_p(text):
                o = cssutils.css.Property()
                o.cssText = text
                return o
            yield ('property',) + check('Property', p, mk_p, lambda x: (x.name, gen.project_value(x.propertyValue), x.priority), 'cssText')

            def mk_pv(text):
                return cssutils.css.PropertyValue(cssText=text)
            yield ('propertyValue',) + check('PropertyValue', p.propertyValue, mk_pv, gen.project_value, 'cssText')

    yield from rule_nodes(dom.cssRules)


def _node_worker(args):
    tier, seed, lo, hi = args
    cssutils = _quiet()
    sheets = gen.enumerate_sheets(tier, seed)
    sps = [gen.DEFAULT, dataclasses.replace(gen.DEFAULT, comments='all'), dataclasses.replace(gen.DEFAULT, escape='hex', case='upper')]
    res = {'n': 0, 'fails': [], 'kinds': set()}
    for idx in range(lo, hi):
        label, a = sheets[idx]
        seen = set()
        for sp in sps:
            text = gen.render(a, sp)
            if text in seen:
                continue
            seen.add(text)
            try:
                dom = cssutils.parseString(text)
            except Exception:
                continue
            finally:
                cssutils.log.raiseExceptions = True
            cssutils.ser.prefs.keepEmptyRules = True   # a node without content still has a text
            checks = list(_node_checks(dom))
            cssutils.ser.prefs.useDefaults()
            for kind, fails, ntext in checks:
                res['n'] += 1
                res['kinds'].add((kind, label.split(':')[0]))
                for cl, detail in fails or []:
                    res['fails'].append({'clause': cl, 'detail': detail, 'info': {'domain': 'nodes', 'label': label, 'sheet': gen.to_json(a), 'node': kind, 'node_text': ntext, 'spelling': sp.describe(), 'text': text}})
    res['kinds'] = sorted(res['kinds'])
    return res


def node_texts(ctx):
    t0 = time.time()
    sheets = gen.enumerate_sheets(ctx.tier, ctx.seed)
    n = len(sheets)
    step = max(1, min(30, n // (max(1, ctx.jobs) * 6) or 1))
    tasks = [(ctx.tier, ctx.seed, lo, min(n, lo + step)) for lo in range(0, n, step)]
    results = _pool_run(ctx, _node_worker, tasks)
    _report(ctx, results, 'node texts', 'for every rule (all 10 classes, nested too), declaration block, property, property value, selector list, selector, media list and media query of the '
            'generator DOMs (3 spellings): the node text is set on a fresh object of the same class (namespaces passed the documented way), the projections must be equal and the '
            'fresh object must serialise to the same text; distinct = (node class, construct-kind label)', '%d abstract sheets x 3 spellings' % n, [{'node': 'Selector', 'text': 'a > b'}], t0)


# ----------------------------------------------------------------------------------------------------------------- domain 5: content

ALPHABET = ['a', 'f', '1', '-', '"', "'", '\\', '(', ')', ' ', '\n', '\r', '\f', '\t', 'é', ';', ',', '/', '*', '{', '}', ':', '\xa0', '\U0001F600', '\x7f', '\x01', '@', '#', '.', '!',
            # the rest of the ASCII punctuation (single-character contents only): every one is legal in an unquoted url() and in strings
            '[', ']', '?', '&', '=', '%', '+', '~', '$', '<', '>', '^', '`', '|', '_']


WRITERS = ('base', 'alt', 'hex6')   # see WRITER_FORMS
_HEXDIGITS = '0123456789abcdefABCDEF'


def _esc(ch, how):
    """one character written as a CSS escape (CSS 2.1 4.1.3): 'hex' = \\HH + blank, 'hex6' = six hex digits without terminator, 'simple' = backslash + the character
    itself where the grammar has that form (not for hex digits and line breaks, which fall back to 'hex')"""
    if how == 'simple' and ch not in _HEXDIGITS and ch not in '\n\r\f':
        return '\\' + ch
    if how == 'hex6':
        return '\\%06x' % ord(ch)
    return '\\%x ' % ord(ch)


def css_ident(name, how='hex'):
    """independent CSS identifier writer (CSS 2.1 4.1.3 ident: -?{nmstart}{nmchar}*): one optional leading '-', then a name-start character, then name
    characters, verbatim; everything else as an escape of the form `how`"""
    out = []
    start = 0
    if len(name) > 1 and name[0] == '-':
        out.append('-')
        start = 1
    for i in range(start, len(name)):
        ch = name[i]
        o = ord(ch)
        nmstart = (ch.isascii() and (ch.isalpha() or ch == '_')) or o >= 0xa1
        nmchar = nmstart or (ch.isascii() and (ch.isdigit() or ch == '-'))
        if (i == start and nmstart) or (i > start and nmchar):
            out.append(ch)
        else:
            out.append(_esc(ch, how))
    return ''.join(out)


def css_str(content, q='"', how='simple'):
    """independent CSS string writer: 'simple' is gen.css_string (quote and backslash as \\c, line breaks as hex escapes); 'hex' / 'hex6' write the quote, the
    backslash and line breaks as hex escapes of that form"""
    if how == 'simple':
        return gen.css_string(content, q)
    out = []
    for i, ch in enumerate(content):
        if ch == q or ch in '\\\n\r\f':
            out.append(_esc(ch, how))
            if how == 'hex6' and content[i + 1:i + 2] in (' ', '\t'):
                out.append(' ')   # a blank written raw behind a six-digit escape would be taken for its (optional) terminator
        else:
            out.append(ch)
    return q + ''.join(out) + q


def css_url(content, how='hex'):
    """independent writer of an unquoted url( ) body (CSS 2.1 4.3.4): white space, quotes, parentheses, the backslash and control characters as escapes of the form `how`"""
    return ''.join(_esc(ch, how) if ch in ' \t\n\r\f\'"()\\' or ord(ch) < 0x20 or ord(ch) == 0x7f else ch for ch in content)


def has_hex_escape(src):
    """does the source text hold a hex escape (an escaped backslash does not start one)"""
    return bool(re.search(r'(?<!\\)(?:\\\\)*\\[0-9a-fA-F]', src))


def _R(d):
    """the rules of the sheet without a leading @charset"""
    return [r for r in d.cssRules if r.type != r.CHARSET_RULE]


# a writer = (identifier form, string form, url( ) form): 'base' is what the domain always had (identifiers with \\HH + blank, strings with \\" and \\\\), 'alt' the
# other escape form in each of them, 'hex6' six-digit escapes without terminator everywhere
WRITER_FORMS = {'base': ('hex', 'simple', 'hex'), 'alt': ('simple', 'hex', 'simple'), 'hex6': ('hex6', 'hex6', 'hex6')}


def _content_cases(content, enc=None, writer='base'):
    """(context, source text, getter(dom) -> held content or None) for one content string; enc: the sheet declares @charset enc, so that
    the serializer has to write every character the encoding cannot represent as a hex escape; writer: the escape forms the independent writers use (WRITER_FORMS)"""
    iform, sform, uform = WRITER_FORMS[writer]
    S = css_str(content, '"', sform)
    S1 = css_str(content, "'", sform)
    cases = []
    first_decl = lambda d: _R(d)[0].style.getProperties(all=True)[0].propertyValue[0]  # noqa: E731
    cases.append(('string value "', 'a { x: %s }' % S, lambda d: first_decl(d).value))
    cases.append(("string value '", 'a { x: %s }' % S1, lambda d: first_decl(d).value))
    cases.append(('string in function', 'a { x: f(%s) }' % S, lambda d: [i.value for i in first_decl(d).seq if hasattr(i.value, 'type')][0].value))
    cases.append(('url value quoted', 'a { x: url(%s) }' % S, lambda d: first_decl(d).uri))
    cases.append(('import href string', '@import %s;' % S, lambda d: _R(d)[0].href))
    cases.append(('import href url', '@import url(%s);' % S, lambda d: _R(d)[0].href))
    cases.append(('import name', '@import "x" %s;' % S, lambda d: _R(d)[0].name))
    cases.append(('namespace uri', '@namespace p %s;' % S, lambda d: _R(d)[0].namespaceURI))
    cases.append(('attribute value string', '[x=%s] { y: z }' % S, lambda d: [i.value for i in _R(d)[0].selectorList[0].seq if i.type == 'STRING'][0]))
    cases.append(('unknown rule string', '@foo %s;' % S, lambda d: [i.value for i in _R(d)[0].seq if i.type == 'STRING'][0]))
    if content:
        U = css_url(content, uform)
        cases.append(('url value bare', 'a { x: url(%s) }' % U, lambda d: first_decl(d).uri))
        cases.append(('import href url bare', '@import url(%s);' % U, lambda d: _R(d)[0].href))
    if content:
        I = css_ident(content, iform)
        if True:
            cases.append(('ident value', 'a { x: %s }' % I, lambda d: first_decl(d).value))
            cases.append(('class name', '.%s { y: z }' % I, lambda d: _R(d)[0].selectorList[0].seq[0].value[1:]))
            cases.append(('id name', '#%s { y: z }' % I, lambda d: _R(d)[0].selectorList[0].seq[0].value[1:]))
            cases.append(('type name', '%s { y: z }' % I, lambda d: _R(d)[0].selectorList[0].seq[0].value[1]))
            cases.append(('attribute name', '[%s] { y: z }' % I, lambda d: _R(d)[0].selectorList[0].seq[1].value))
            cases.append(('attribute value ident', '[x=%s] { y: z }' % I, lambda d: _R(d)[0].selectorList[0].seq[3].value))
            cases.append(('property name', 'a { %s: z }' % I, lambda d: _R(d)[0].style.getProperties(all=True)[0].literalname))
            cases.append(('namespace prefix', '@namespace %s "u"; %s|a { y: z }' % (I, I), lambda d: _R(d)[0].prefix))
            cases.append(('page name', '@page %s { margin: 0 }' % I, lambda d: _R(d)[0].selectorText))
            cases.append(('unknown at-keyword', '@%s x;' % I, lambda d: _R(d)[0].atkeyword[1:]))
            cases.append(('function name', 'a { x: %s(1) }' % I, lambda d: first_decl(d).seq[0].value[:-1]))
            cases.append(('dimension unit', 'a { x: 1%s }' % I, lambda d: first_decl(d).dimension))
            cases.append(('pseudo-class name', 'a:%s { y: z }' % I, lambda d: _R(d)[0].selectorList[0].seq[1].value[1:]))
    if '*/' not in content and not content.endswith('*') or False:
        cases.append(('comment rule level', '/*%s*/ a { y: z }' % content, lambda d: _R(d)[0].cssText[2:-2]))
        cases.append(('comment declaration level', 'a { /*%s*/ y: z }' % content, lambda d: list(_R(d)[0].style.children())[0].cssText[2:-2]))
        cases.append(('comment in value', 'a { y: z /*%s*/ w }' % content, lambda d: [i.value for i in _R(d)[0].style.getProperties(all=True)[0].propertyValue.seq if i.value.__class__.__name__ == 'CSSComment'][0].cssText[2:-2]))
        cases.append(('comment in selector', 'a /*%s*/ b { y: z }' % content, lambda d: [i.value for i in _R(d)[0].selectorList[0].seq if i.type == 'COMMENT'][0].cssText[2:-2]))
        cases.append(('comment in media', '@media /*%s*/ print { a { y: z } }' % content, lambda d: _R(d)[0].media.mediaText))
    if enc:
        cases = [(c, '@charset "%s";%s' % (enc, src), g) for c, src, g in cases]
    return cases


def _content_worker(args):
    maxlen, lo, hi, enc, writers, hex6_maxlen = args
    cssutils = _quiet()
    contents = _contents(maxlen) if enc is None else _enc_contents(enc)
    res = {'n': 0, 'fails': [], 'kinds': set()}
    for content in contents[lo:hi]:
        seen = set()
        for writer in writers:
            if writer == 'hex6' and len(content) > hex6_maxlen:
                continue
            for ctxname, src, getter in _content_cases(content, enc, writer):
                if src in seen:
                    continue   # this writer spells the content like the one before
                seen.add(src)
                try:
                    dom = cssutils.parseString(src)
                    held = getter(dom)
                except Exception:
                    continue  # the source did not give the node (C02/C05 territory); this property starts from a DOM
                finally:
                    cssutils.log.raiseExceptions = True
                res['n'] += 1
                res['kinds'].add((ctxname, enc, writer, tuple(sorted(set(content)))))
                info = {'domain': 'content', 'context': ctxname, 'content': content, 'source': src, 'encoding': enc, 'writer': writer}
                again = []
                fails = roundtrip(dom, configs=('lossless',), reparsed=again)
                if not fails:
                    try:
                        cssutils.ser.prefs.keepEmptyRules = True
                        held2 = getter(again[0])   # the DOM reparsed from the serialisation under the lossless preferences
                        if held2 != held:
                            fails.append((CL_CONTENT, '%s: content %r held as %r, after serialise -> parse %r (text %r)' % (ctxname, content, held, held2, dom.cssText[:200])))
                    except Exception as e:
                        fails.append((CL_CONTENT, '%s: content %r: after serialise -> parse the node is gone (%s) (text %r)' % (ctxname, content, type(e).__name__, dom.cssText[:200])))
                    finally:
                        cssutils.ser.prefs.useDefaults()
                        cssutils.log.raiseExceptions = True
                for cl, detail in fails:
                    res['fails'].append({'clause': cl, 'detail': detail, 'info': info})
    res['kinds'] = sorted(res['kinds'])
    return res


_CONTENTS = {}
# characters the target encoding cannot represent (written by the serializer as hex escapes) followed by everything that could be taken for part of the
# escape or for its terminator: line breaks, TAB, space, hex digits, a letter that is no hex digit, another escaped character, the end of the construct
ENCODINGS = {'ascii': ['\xe9', '\u20ac', '\U0001F600'], 'iso-8859-1': ['\u20ac', '\U0001F600'], 'utf-8': ['\xe9']}
FOLLOWERS = ['', '\n', '\r', '\f', '\r\n', '\t', ' ', 'a', 'f', 'F', '1', '0', 'g', '-', '\\', '"', '*']


def _enc_contents(enc):
    out = []
    for ch in ENCODINGS[enc]:
        for f in FOLLOWERS:
            out += [ch + f, 'x' + ch + f, ch + f + 'y', ch + ch + f]
    for ch in ENCODINGS[enc][:1]:
        for f1, f2 in itertools.product(FOLLOWERS[1:9], repeat=2):
            out.append(ch + f1 + ch + f2)
    seen = set()
    return [c for c in out if not (c in seen or seen.add(c))]



def _contents(maxlen):
    if maxlen not in _CONTENTS:
        out = []
        for L in range(0, maxlen + 1):
            alpha = ALPHABET if L <= 1 else (ALPHABET[:24] if L == 2 else ALPHABET[:16])
            for tup in itertools.product(alpha, repeat=L):
                out.append(''.join(tup))
        _CONTENTS[maxlen] = out
    return _CONTENTS[maxlen]


def content(ctx):
    t0 = time.time()
    maxlen = 2 if ctx.tier == 'quick' else 3
    contents = _contents(maxlen)
    n = len(contents)
    step = 40 if ctx.tier == 'quick' else 200
    step = step // 2
    hex6_maxlen = 1 if ctx.tier == 'quick' else maxlen
    tasks = [(maxlen, lo, min(n, lo + step), None, WRITERS, hex6_maxlen) for lo in range(0, n, step)]
    nenc = 0
    for enc in ENCODINGS:
        m = len(_enc_contents(enc))
        nenc += m
        tasks += [(maxlen, lo, min(m, lo + 40), enc, ('base',), 0) for lo in range(0, m, 40)]
    results = _pool_run(ctx, _content_worker, tasks)
    _report(ctx, results, 'content', 'all strings of length <= %d over the critical alphabet %r (length 2: its first 24, length 3: its first 16 characters) written by independent CSS string / identifier / comment '
            'writers into every context that holds such content (string and url() values, @import href and name, @namespace URI, attribute values, unknown rules; identifier values, class/id/type/'
            'attribute/property/function/pseudo/at-keyword/page/prefix names, units; comments at rule and declaration level, in values, selectors and media lists); the parsed DOM is '
            'serialised, reparsed, compared (projection, bytes, and the held content itself); every content is written in each escape form CSS offers for the characters that need one '
            '(writers %r = (identifier, string, unquoted-url form): hex = \\HH + blank, simple = backslash + the character where the grammar has it - a\\{b, c\\\\d, url(p\\(q) -, hex6 = six digits without '
            'terminator%s), unquoted url( ) bodies (value and @import) for every content; the same under @charset ascii / iso-8859-1 / utf-8 for contents made of a '
            'character the encoding cannot represent (%r) followed by %r (the serializer must write a hex escape whose terminator survives); '
            'distinct = (context, encoding, writer, set of characters)' % (maxlen, ALPHABET, WRITER_FORMS, '; quick tier: hex6 for contents of length <= 1' if ctx.tier == 'quick' else '', ENCODINGS, FOLLOWERS),
            '%d content strings x <= %d writers + %d under a declared @charset' % (n, len(WRITERS), nenc), [{'content': 'a"\'', 'source': 'a { x: %s }' % gen.css_string('a"\'')}], t0)


# ---------------------------------------------------------------------------------------------------- witnesses of the recorded findings

def _rt_text(src, prefs=None, parser=None):
    """True iff the DOM parsed from src does NOT round-trip (projection or bytes) under the lossless preferences"""
    cssutils = _quiet()
    try:
        dom = cssutils.parseString(src)
    except Exception:
        return False
    finally:
        cssutils.log.raiseExceptions = True
    return bool(roundtrip(dom, configs=('lossless',)))


def _w_import_name():
    cssutils = _quiet()
    d = cssutils.parseString('@import "a.css" screen;')
    d.cssRules[0].name = 'nm'
    return b'nm' not in d.cssText


def _w_outside_ns():
    cssutils = _quiet()
    d = cssutils.parseString('@namespace "http://d"; a { left: 0 }')
    d.add(cssutils.css.CSSStyleRule(selectorText='n', style='top:0'))
    return bool(roundtrip(d, configs=('lossless',)))


def _w_dup_margin():
    cssutils = _quiet()
    d = cssutils.parseString('@page { margin: 0 }')
    for _ in range(2):
        d.cssRules[0].add(cssutils.css.MarginRule(margin='@top-left', style='content: "y"'))
    return bool(roundtrip(d, configs=('lossless',)))


def _w_media_ns():
    cssutils = _quiet()
    d = cssutils.parseString('@namespace "http://d"; @media print { b { color: red } }')
    r = d.cssRules[1]
    fresh = cssutils.css.CSSMediaRule()
    fresh.cssText = (r.cssText, {'': 'http://d'})
    return gen.project_rule(fresh) != gen.project_rule(r)


def _w_mediatype(src, value):
    def w():
        cssutils = _quiet()
        d = cssutils.parseString(src)
        d.cssRules[0].media[0].mediaType = value
        return bool(roundtrip(d, configs=('lossless',)))
    return w


WITNESSES = [
    ('C03-hex-escaped-backslash', lambda: _rt_text('a { x: "\\5c a" }')),
    ('C03-bare-url-escaped-quote', lambda: _rt_text('a { x: url(\\"a) }')),
    ('C03-bare-url-trailing-escaped-backslash', lambda: _rt_text('a { x: url(a\\\\) }')),
    ('C03-ident-trailing-escaped-space', lambda: _rt_text('@page a\\  { margin: 0 }')),
    ('C03-mediatype-set-duplicate-query', _w_mediatype('@media screen, print { a { left: 0 } }', 'print')),
    ('C03-mediatype-set-typeless-query', _w_mediatype('@media (min-width: 1px) and (color) { c { top: 0 } }', 'tv')),
    ('C03-ident-not-reescaped', lambda: _rt_text('.\\31 a { color: red }')),
    ('C03-url-control-char-unquoted', lambda: _rt_text('a { x: url("\x7f") }')),
    ('C03-comment-linebreak-reindented', lambda: _rt_text('a { /*\n*/ y: z }')),
    ('C03-selector-nbsp-stripped', lambda: _rt_text('[\\a0 ] { y: z }')),
    ('C03-unknownrule-string-brace', lambda: _rt_text('@foo "{";')),
    ('C03-not-spelled-type-argument', lambda: _rt_text(':NOT( b ) { color: red }')),
    ('C03-calc-comment', lambda: _rt_text('a { x: a / calc( /**/ 1px /**/ + 2px) }')),
    ('C03-pseudo-arg-comment', lambda: _rt_text('a:nth-child(/**/2n/**/+/**/1) { color: red }')),
    ('C03-empty-page-fontface-margin', lambda: _rt_text('@page :first {}')),
    ('C03-atkeyword-escape-linebreak', lambda: _rt_text('@media screen {\n@f\\6F\r\no x;\n}')),
    ('C03-mediarule-namespaces-ignored', _w_media_ns),
    ('C03-import-name-set-not-written', _w_import_name),
    ('C03-selector-outside-default-namespace', _w_outside_ns),
    ('C03-duplicate-margin-rule-merged', _w_dup_margin),
]


def witnesses(ctx):
    """one concrete witness per recorded finding: KNOWN-FINDING is printed while it still fails"""
    n = 0
    cssutils = _quiet()
    for fid, fn in WITNESSES:
        try:
            still = bool(fn())
        except Exception:
            still = True
        finally:
            cssutils.ser.prefs.useDefaults()
            cssutils.log.raiseExceptions = True
        n += 1
        ctx.known_finding(fid, still)
    ctx.bounded.append({'name': 'witnesses of recorded findings', 'evaluations': n, 'distinct_nontrivial': n, 'rule': 'one witness per recorded finding of known/C03.json',
                        'samples': [{'id': 'C03-ident-not-reescaped', 'source': '.\\31 a { color: red }'}], 'bound': '%d witnesses' % n, 'exhaustive': True})


# --------------------------------------------------------------------------------------------- domain 6: namespace redeclarations
def redeclarations(ctx):
    """every sequence of <= 4 @namespace rules over two URIs (each rule with a prefix of its own, or - one of them - the default namespace),
    followed by a style rule that uses the last declaration: parsing drops the superseded declarations of a URI, and what is left must
    round-trip (three declarations of one URI leave one rule, not two)"""
    import itertools
    t0 = time.time()
    cssutils = _quiet()
    n = 0
    kinds = set()
    for k in range(1, 5):
        for uris in itertools.product('uv', repeat=k):
            for default_at in [None] + list(range(k)):
                parts = ['@namespace %s"http://%s";' % ('' if default_at == i else 'p%d ' % i, u) for i, u in enumerate(uris)]
                last = ('p%d|a' % (k - 1)) if default_at != k - 1 else '|a'
                text = ' '.join(parts) + ' %s, b { left: 0 }' % last
                try:
                    dom = cssutils.parseString(text)
                except Exception as e:  # noqa: BLE001
                    ctx.violation(CL_PARSE, 'redeclarations: %r: %s: %s' % (text, type(e).__name__, e), True, {'source': text})
                    continue
                finally:
                    cssutils.log.raiseExceptions = True
                n += 1
                kinds.add((k, len(set(uris)), default_at is not None))
                for cl, detail in roundtrip(dom):
                    ctx.violation(cl, 'redeclarations: source %r: %s' % (text, detail), True, {'source': text})
    ctx.bounded.append({'name': 'namespace redeclarations', 'evaluations': n, 'distinct_nontrivial': len(kinds),
                        'rule': 'all sequences of <= 4 @namespace rules over two URIs x which (if any) is the default namespace, a style rule using the last one; parse, serialise, reparse, compare (projection and bytes) under the default and the lossless preferences',
                        'bound': '<= 4 declarations, 2 URIs', 'samples': [{'source': '@namespace p0 "http://u"; @namespace p1 "http://u"; @namespace p2 "http://u"; p2|a, b { left: 0 }'}], 'wall_s': round(time.time() - t0, 2)})
