"""C05 bounded stand-in: the tokenizer is total, lossless, position-accurate and classifies by the grammar.

Observation point: list(cssutils.tokenize2.Tokenizer().tokenize(text, fullsheet)) - (type, value, line, col) tuples; and the line/col/message of the
xml.dom exceptions of a raising parser.

Oracles (all written from the property statement and the CSS 2.1 syntax chapter, none taken from tokenize2.py):

* reference DECODER (`units`, CSS 2.1 4.1.3): a backslash followed by 1-6 hex digits and ONE optional white space (CR LF counts as one) is the character
  with that code point; a backslash followed by any other character except a line break is that character; inside strings a backslash followed by a
  line break is removed.  Code point 0 and code points above U+10FFFF are 'undefined' / 'may be replaced' in CSS 2.1: the character itself, the
  untouched escape and U+FFFD are all admitted.
* TILING: walking the token list from offset 0, token i must own a span text[p:p+L] with value == decode(span) for the decoding its type prescribes
  (verbatim for S NUMBER PERCENTAGE CHAR operators CDO CDC BOM COMMENT and '@charset '); the spans must end exactly at len(text); in full-sheet mode
  the last token before EOF may own span + closer (its own quote, '*/', ')' '")' "')").  All admissible L are searched (depth first).
* POSITION: line == 1 + number of LF before the span, col == distance to the previous LF (1-based); EOF sits at len(text).
* GRAMMAR: the span (plus closer) is a full match of the reference recogniser of the token type (`REF`, my own expressions after CSS 2.1 4.1.1 with the
  documented cssutils extensions: sign inside num, '--' idents, unicode-range, the CSS3 match operators, '@charset ' as one token), it is maximal, a CHAR
  is only produced where no other token starts, an at-keyword is a reserved symbol exactly if its decoded lower-case name is one, IDENT before '(' only
  for 'and'.
* RECOVERY: texts built from a known sequence of token spellings joined by separators (white space of every kind, comments); expected types, values
  and offsets are known by construction.

* COMPOSITION (domain `escape_compositions`): the value clause unit by unit - every sequence of escape units (hex escapes of the characters that mean something
  to the syntax in every spelling, simple escapes, escaped line breaks, plain characters) as the body of every kind of token; what one unit decodes to is never
  read again together with its neighbours (one left-to-right pass).

Known deviations are routed by SYMPTOM to known/C05.json (see `forms`, `check_text`): any other deviation of the same clause is still a violation.
"""
import itertools
import json
import logging
import multiprocessing
import random
import re
import signal
import time
import xml.dom

CL_TERM = 'bounded: tokenize terminates without an exception'
CL_TILE = 'bounded: the token spans tile the text exactly and every value is its span with CSS escapes decoded'
CL_POS = 'bounded: every token carries the line and column of its first character'
CL_GRAMMAR = 'bounded: every token span is a maximal match of the grammar of its type'
CL_SEQ = 'bounded: a known token sequence is recovered with exactly those types and values'
CL_EOF = 'bounded: full-sheet mode completes an unterminated comment/string/url( and yields exactly one EOF at the end of input'
CL_ERR = 'bounded: a syntax error report carries the position of the token it complains about'

K_SIMPLE = 'C05-simple-escape-kept'
K_ATRAW = 'C05-atkeyword-escape-kept'
K_COMMENT = 'C05-comment-escape-decoded'
K_URINL = 'C05-uri-escaped-newline-kept'
K_BOM = 'C05-bom-column'
K_EOF_SU = 'C05-eof-position-completed-string-uri'
K_EOF_C = 'C05-eof-position-completed-comment'
K_ERRPOS = 'C05-combined-selector-token-position'
K_URIBS = 'C05-uri-backslash-class'
K_STRBT = 'C05-string-escape-backtracking'
K_CONT = 'C05-string-continuation-joins-escape'

# --------------------------------------------------------------------------------------------------------------- reference decoder

_HEXD = frozenset('0123456789abcdefABCDEF')
_NLCH = frozenset('\n\r\f')
_WSCH = frozenset(' \t\n\r\f')
POLICIES = ('chr', 'fffd', 'raw')   # what an escape of code point 0 or > U+10FFFF may become (CSS 2.1: undefined / may be replaced)


def _skipcont(text, j, end):
    """offset behind the escaped line breaks (backslash + line break) that start at j"""
    while j + 1 < end and text[j] == '\\' and text[j + 1] in _NLCH:
        j += 3 if text[j + 1] == '\r' and j + 2 < end and text[j + 2] == '\n' else 2
    return j


def units(text, pos, end, hexdec=True, simple='decode', strnl='keep', policy='chr', contfirst=False, alts=None):
    """reference decoder: yields (next offset, decoded text) unit by unit for text[pos:end]
    hexdec: decode hex escapes; simple: 'decode' (\\c -> c) | 'keep'; strnl: 'remove' (backslash + line break vanishes, strings) | 'keep'
    contfirst (NOT what CSS prescribes - the model of the recorded finding C05-string-continuation-joins-escape): the escaped line breaks are taken out in a
    pass of their own BEFORE the hex escapes are read, so that the digits and the terminator of an escape are also found behind an escaped line break;
    alts (contfirst only): {offset behind a unit: offset before its terminator} - the two passes only see the text of the token, which may end there"""
    i = pos
    cf = contfirst and strnl == 'remove'
    while i < end:
        c = text[i]
        if c != '\\' or i + 1 >= end:
            yield i + 1, c
            i += 1
            continue
        d = text[i + 1]
        if d in _HEXD:
            j = i + 2
            digits = d
            while True:
                if cf:
                    j = _skipcont(text, j, end)
                if j < end and len(digits) < 6 and text[j] in _HEXD:
                    digits += text[j]
                    j += 1
                else:
                    break
            num = int(digits, 16)
            term = ''
            if j < end and text[j] in _WSCH:
                k = j + 1
                if text[j] == '\r':
                    k2 = _skipcont(text, k, end) if cf else k
                    if k2 < end and text[k2] == '\n':
                        k = k2 + 1
                term = '\r\n' if k > j + 1 else text[j]
                if cf and alts is not None and text[i:j] != '\\' + digits:
                    alts[k] = j
                j = k
            raw = text[i:j] if not cf else '\\' + digits + term
            if not hexdec:
                out = raw
            elif num == 0 or num > 0x10FFFF:
                out = raw if policy == 'raw' else '\ufffd' if policy == 'fffd' else (chr(num) if num == 0 else raw)
            else:
                out = chr(num)
            yield j, out
            i = j
        elif d in _NLCH:
            if strnl == 'remove':
                j = i + 3 if d == '\r' and i + 2 < end and text[i + 2] == '\n' else i + 2
                yield j, ''
                i = j
            else:
                yield i + 1, c
                i += 1
        else:
            yield i + 2, (d if simple == 'decode' else c + d)
            i += 2


def decode(span, **kw):
    return ''.join(o for _, o in units(span, 0, len(span), **kw))


def match_lengths(text, pos, value, **kw):
    """all L with decode(text[pos:pos+L]) == value (units are atomic: an escape is never split)"""
    out = []
    j = 0
    n = len(value)
    if n == 0:
        out.append(0)
    alts = {} if kw.get('contfirst') else None
    for nxt, o in units(text, pos, len(text), alts=alts, **kw):
        if value[j:j + len(o)] != o:
            break
        j += len(o)
        if j == n:
            out.append(nxt - pos)
            if alts and nxt in alts:
                out.append(alts[nxt] - pos)
            # a following unit that decodes to '' (escaped line break in a string) may still belong to the span
        elif j > n:
            break
    return out


# which decodings are admitted for which token type: (known ids needed, decoder options); the first that matches is taken
_D_FULL = dict(hexdec=True, simple='decode')
_D_KEEP = dict(hexdec=True, simple='keep')
_D_RAW = dict(hexdec=False, simple='keep')
IDENTLIKE = ('IDENT', 'FUNCTION', 'HASH', 'DIMENSION', 'UNICODE-RANGE')
ATFAMILY = ('ATKEYWORD', 'IMPORT_SYM', 'MEDIA_SYM', 'PAGE_SYM', 'FONT_FACE_SYM', 'NAMESPACE_SYM', 'VARIABLES_SYM')
RESERVED = {'@import': 'IMPORT_SYM', '@media': 'MEDIA_SYM', '@page': 'PAGE_SYM', '@font-face': 'FONT_FACE_SYM', '@namespace': 'NAMESPACE_SYM',
            '@variables': 'VARIABLES_SYM'}
VERBATIM = ('S', 'NUMBER', 'PERCENTAGE', 'CHAR', 'INCLUDES', 'DASHMATCH', 'PREFIXMATCH', 'SUFFIXMATCH', 'SUBSTRINGMATCH', 'CDO', 'CDC', 'BOM', 'CHARSET_SYM')


def forms(kind):
    """[(frozenset of known ids, decoder options)] in order of preference"""
    if kind in IDENTLIKE:
        return [((), dict(_D_FULL, strnl='keep')), ((K_SIMPLE,), dict(_D_KEEP, strnl='keep'))]
    if kind in ATFAMILY:
        return [((), dict(_D_FULL, strnl='keep')), ((K_SIMPLE,), dict(_D_KEEP, strnl='keep')), ((K_ATRAW,), dict(_D_RAW, strnl='keep'))]
    if kind in ('STRING', 'INVALID'):
        return [((), dict(_D_FULL, strnl='remove')), ((K_SIMPLE,), dict(_D_KEEP, strnl='remove')),
                ((K_CONT,), dict(_D_FULL, strnl='remove', contfirst=True)), ((K_SIMPLE, K_CONT), dict(_D_KEEP, strnl='remove', contfirst=True))]
    if kind == 'URI':
        return [((), dict(_D_FULL, strnl='remove')), ((K_SIMPLE,), dict(_D_KEEP, strnl='remove')), ((K_URINL,), dict(_D_FULL, strnl='keep')),
                ((K_SIMPLE, K_URINL), dict(_D_KEEP, strnl='keep'))]
    if kind == 'COMMENT':
        return [((), dict(_D_RAW, strnl='keep')), ((K_COMMENT,), dict(_D_KEEP, strnl='keep'))]
    return [((), dict(_D_RAW, strnl='keep'))]


CLOSERS = {'STRING': ('"', "'"), 'COMMENT': ('*/',), 'URI': (')', '")', "')")}


# only an escape of code point 0 or of six digits (possibly > U+10FFFF) makes the admitted policies differ; an escaped line break may join digits in the model of
# C05-string-continuation-joins-escape; without any of these in the rest of a short text one policy is enough
_ODD = re.compile(r'\\0|\\[0-9a-fA-F]{6}|\\[\n\r\f]')


def candidates(text, pos, kind, value, last_in_fullsheet):
    """[(L, closer, known ids)] - the spans text[pos:pos+L] (+ closer) that decode to value"""
    out = []
    seen = set()
    n = len(value)
    if n and text.startswith(value, pos) and (kind in VERBATIM or '\\' not in text[pos:pos + n + 1]):
        # fast path: no escape in reach, the span is the value itself (every decoding agrees)
        out.append((n, '', ()))
        seen.add((n, ''))
        if not (last_in_fullsheet and kind in CLOSERS):
            return out
    pols = POLICIES if len(text) - pos > 200 or _ODD.search(text, pos) else POLICIES[:1]
    for known, opts in forms(kind):
        if (n, '') in seen and not known:
            continue
        for policy in pols:
            for L in match_lengths(text, pos, value, policy=policy, **opts):
                if L > 0 and (L, '') not in seen:
                    seen.add((L, ''))
                    out.append((L, '', known))
            if not opts['hexdec']:
                break
    if last_in_fullsheet and kind in CLOSERS:
        rest = text[pos:]
        for closer in CLOSERS[kind]:
            if kind == 'STRING' and rest[:1] != closer:
                continue
            for known, opts in forms(kind):
                for policy in pols:
                    if decode(rest + closer, policy=policy, **opts) == value and (len(rest), closer) not in seen:
                        seen.add((len(rest), closer))
                        out.append((len(rest), closer, known))
    return out


def tile(text, toks, fullsheet):
    """toks without EOF -> best tiling [(start, end, closer, known ids)] or None; best = fewest known ids (iterative depth-first search)"""
    n = len(toks)
    N = len(text)
    if n == 0:
        return [] if N == 0 else None
    best, best_cost = None, None
    budget = 50 * n + 20000
    acc = []
    cost = 0
    stack = [iter(candidates(text, 0, toks[0][0], toks[0][1], fullsheet and n == 1))]
    while stack:
        budget -= 1
        if budget < 0:
            break
        nxt = next(stack[-1], None)
        if nxt is None:
            stack.pop()
            if acc:
                cost -= len(acc.pop()[3])
            continue
        L, closer, known = nxt
        pos = acc[-1][1] if acc else 0
        if closer and pos + L != N:
            continue
        c = cost + len(known)
        if best is not None and c >= best_cost:
            continue
        i = len(acc) + 1
        if i == n:
            if pos + L == N:
                best, best_cost = acc + [(pos, pos + L, closer, known)], c
                if c == 0:
                    break
            continue
        acc.append((pos, pos + L, closer, known))
        cost = c
        stack.append(iter(candidates(text, pos + L, toks[i][0], toks[i][1], fullsheet and i == n - 1)))
    return best


def position(text, off):
    """(line, col) of offset off: lines counted by LF, columns 1-based"""
    return 1 + text.count('\n', 0, off), off - text.rfind('\n', 0, off)


# ---------------------------------------------------------------------------------------------------------- reference recognisers
# CSS 2.1 section 4.1.1 / appendix G macros, written out by hand (NOT expanded from cssutils.cssproductions)

_h = r'[0-9a-fA-F]'
_nl = r'(?:\r\n|\n|\r|\f)'
_unicode = r'\\%s{1,6}(?:\r\n|[ \t\r\n\f])?' % _h
_escape = r'(?:%s|\\[^\r\n\f0-9a-fA-F])' % _unicode
_nonascii = r'[^\x00-\x7f]'
_nmstart = r'(?:[_a-zA-Z]|%s|%s)' % (_nonascii, _escape)
_nmchar = r'(?:[_a-zA-Z0-9-]|%s|%s)' % (_nonascii, _escape)
_ident = r'-{0,2}%s%s*' % (_nmstart, _nmchar)
_num = r'[+-]?(?:[0-9]*\.[0-9]+|[0-9]+)'
_string1 = r'"(?:[^\n\r\f\\"]|\\%s|%s)*"' % (_nl, _escape)
_string2 = r"'(?:[^\n\r\f\\']|\\%s|%s)*'" % (_nl, _escape)
_invalid1 = r'"(?:[^\n\r\f\\"]|\\%s|%s)*' % (_nl, _escape)
_invalid2 = r"'(?:[^\n\r\f\\']|\\%s|%s)*" % (_nl, _escape)
_w = r'[ \t\r\n\f]*'
_urlchar = r'(?:[!#$%%&*-\[\]-~\t(]|%s|%s)' % (_nonascii, _escape)   # CSS 2.1 (corrected grammar): [!#$%&*-\[\]-~] - no backslash; cssutils documents tab and '(' as well


def _letter(c):
    # the CSS 2.1 letter macros: the letter in either case or its hex escape with up to four leading zeros; letters g-z also as \letter
    lo, up = c.lower(), c.upper()
    alts = [lo, up, r'\\0{0,4}(?:%x|%x)(?:\r\n|[ \t\r\n\f])?' % (ord(up), ord(lo))]
    if lo > 'f':
        alts += [r'\\' + lo, r'\\' + up]
    return '(?:%s)' % '|'.join(alts)


_URL = ''.join(_letter(c) for c in 'url')
REF = {
    'S': r'[ \t\r\n\f]+',
    'IDENT': _ident,
    'FUNCTION': _ident + r'\(',
    'ATKEYWORD': '@' + _ident,
    'HASH': '#' + _nmchar + '+',
    'NUMBER': _num,
    'PERCENTAGE': _num + '%',
    'DIMENSION': _num + _ident,
    'STRING': '(?:%s|%s)' % (_string1, _string2),
    'INVALID': '(?:%s|%s)' % (_invalid1, _invalid2),
    'URI': r'%s\(%s(?:%s|%s|%s*)%s\)' % (_URL, _w, _string1, _string2, _urlchar, _w),
    'UNICODE-RANGE': r'%s\+[0-9a-fA-F?]{1,6}(?:-[0-9a-fA-F]{1,6})?' % _letter('u'),
    'COMMENT': r'/\*[^*]*\*+(?:[^/*][^*]*\*+)*/',
    'INCLUDES': r'~=', 'DASHMATCH': r'\|=', 'PREFIXMATCH': r'\^=', 'SUFFIXMATCH': r'\$=', 'SUBSTRINGMATCH': r'\*=',
    'CDO': r'<!--', 'CDC': r'-->',
    'BOM': '\xfe\xff|\xef\xbb\xbf',
    'CHARSET_SYM': '@charset ',
    'CHAR': r'[^"\']',
}
for _k in ATFAMILY:
    REF[_k] = REF['ATKEYWORD']
REFC = {k: re.compile(v, re.S) for k, v in REF.items()}
# kinds whose recogniser is greedy by construction: a token of that kind must be as long as the recogniser can make it
MAXIMAL = ('S', 'IDENT', 'HASH', 'ATKEYWORD', 'NUMBER', 'DIMENSION') + ATFAMILY[1:]
# where one of these starts, a CHAR token is wrong
NOT_CHAR = ('S', 'IDENT', 'NUMBER', 'HASH', 'ATKEYWORD', 'COMMENT', 'INCLUDES', 'DASHMATCH', 'PREFIXMATCH', 'SUFFIXMATCH', 'SUBSTRINGMATCH', 'CDO', 'CDC')


def grammar_faults(text, toks, spans, fullsheet):
    """[detail] - violations of the classification clause for one tokenisation (spans from tile())"""
    out = []
    N = len(text)
    for i, ((kind, value, _l, _c), (s, e, closer, _k)) in enumerate(zip(toks, spans)):
        span = text[s:e] + closer
        rx = REFC.get(kind)
        if rx is None:
            out.append('token %d has the unknown type %r' % (i, kind))
            continue
        if not rx.fullmatch(span):
            # symptom of the recorded finding: the backslash of an escape is read as an ordinary URL character, so that '\\)' ends the URI
            uribs = kind == 'URI' and span.endswith('\\)') and not closer
            out.append('%stoken %d %s: span %r is not in the language of %s' % ('URI-BACKSLASH ' if uribs else '', i, kind, span, kind))
            continue
        if kind == 'BOM' and s != 0:
            out.append('token %d: BOM at offset %d' % (i, s))
        if kind in MAXIMAL and not closer:
            m = rx.match(text, s)
            if m.end() != e:
                out.append('token %d %s %r is not maximal: %r also belongs to it' % (i, kind, span, text[e:m.end()]))
        if kind == 'NUMBER' and e < N and (text[e] == '%' or REFC['IDENT'].match(text, e)):
            out.append('token %d NUMBER %r is followed by %r without a separator (PERCENTAGE/DIMENSION expected)' % (i, span, text[e:e + 3]))
        if kind == 'IDENT' and e < N and text[e] == '(' and decode(span).lower() != 'and':
            out.append('token %d IDENT %r directly before "(" (FUNCTION expected)' % (i, span))
        if kind in ATFAMILY:
            want = RESERVED.get(decode(span).lower(), 'ATKEYWORD')
            if span == '@charset' and text[e:e + 1] == ' ':
                want = 'CHARSET_SYM'
            if want != kind:
                out.append('token %d %r has type %s, the at-keyword table says %s' % (i, span, kind, want))
        if kind == 'CHAR':
            for k in NOT_CHAR:
                m = REFC[k].match(text, s)
                if m:
                    out.append('token %d CHAR %r although %s %r starts here' % (i, span, k, m.group(0)))
                    break
            else:
                if text.startswith('/*', s) and not fullsheet:
                    pass  # '/*' without '*/': two CHARs in fragment mode (a terminated comment is caught by NOT_CHAR above)
        if kind == 'INVALID' and REFC['STRING'].match(text, s):
            out.append('token %d INVALID %r although a complete string starts here' % (i, span))
        if kind == 'FUNCTION' and REFC['URI'].match(text, s):
            out.append('token %d FUNCTION %r although a complete URI starts here' % (i, span))
    return out


def completion_faults(text, toks, spans):
    """full-sheet mode: what must have been completed (toks without EOF)"""
    out = []
    N = len(text)
    for i, ((kind, value, _l, _c), (s, e, closer, _k)) in enumerate(zip(toks, spans)):
        if kind == 'INVALID' and e == N:
            out.append('the unterminated string %r reaches the end of input but is not completed to STRING' % text[s:e])
        if kind == 'CHAR' and text.startswith('/*', s):
            out.append('the unterminated comment %r is not completed to COMMENT' % text[s:s + 20])
        if kind == 'FUNCTION' and decode(text[s:e]).lower() == 'url(':
            if any(REFC['URI'].fullmatch(text[s:] + c) for c in CLOSERS['URI']):
                out.append('the unterminated %r is not completed to URI' % text[s:s + 20])
        if closer and i != len(toks) - 1:
            out.append('token %d is completed but is not the last one' % i)
    return out


# ------------------------------------------------------------------------------------------------------------------ one check

class _Timeout(Exception):
    pass


def _alarm(signum, frame):
    raise _Timeout()


_TOK = [None]


def tokenizer():
    if _TOK[0] is None:
        from cssutils.tokenize2 import Tokenizer
        _TOK[0] = Tokenizer
    return _TOK[0]()


def check_text(text, expected=None, grammar=True):
    """-> [(clause, known id or None, detail)] for one text in both modes.
    expected: None or {False: [(type, value, offset)], True: [...]} known by construction (without EOF)"""
    fails = []
    for fullsheet in (False, True):
        tag = 'fullsheet=%s' % fullsheet
        try:
            toks = list(tokenizer().tokenize(text, fullsheet))
        except _Timeout:
            raise
        except Exception as e:
            fails.append((CL_TERM, None, '%s: %s: %s' % (tag, type(e).__name__, str(e)[:200])))
            continue
        bad = [t for t in toks if not (isinstance(t, tuple) and len(t) == 4 and isinstance(t[0], str) and isinstance(t[1], str))]
        if bad:
            fails.append((CL_TILE, None, '%s: not a (type, value, line, col) tuple: %r' % (tag, bad[0])))
            continue
        body = toks
        if fullsheet:
            neof = sum(1 for t in toks if t[0] == 'EOF')
            if neof != 1 or toks[-1][0] != 'EOF' or toks[-1][1] != '':
                fails.append((CL_EOF, None, '%s: %d EOF tokens, last token %r' % (tag, neof, toks[-1] if toks else None)))
                continue
            body = toks[:-1]
        elif any(t[0] == 'EOF' for t in toks):
            fails.append((CL_EOF, None, '%s: EOF token in fragment mode' % tag))
            continue
        spans = tile(text, body, fullsheet)
        if spans is None:
            fails.append((CL_TILE, None, '%s: no assignment of consecutive spans whose decoded text equals the values: %r' % (tag, [t[:2] for t in toks])))
            continue
        for (kind, value, _l, _c), (s, e, closer, known) in zip(body, spans):
            for k in known:
                fails.append((CL_TILE, k, '%s: %s value %r for the span %r' % (tag, kind, value, text[s:e] + closer)))
        if not fullsheet and any(c for _, _, c, _ in spans):
            fails.append((CL_EOF, None, '%s: a token is completed in fragment mode' % tag))
        # positions
        wrong = []
        for i, ((kind, value, line, col), (s, e, closer, known)) in enumerate(zip(body, spans)):
            if (line, col) != position(text, s):
                wrong.append((i, kind, (line, col), position(text, s)))
        bom = body and body[0][0] == 'BOM'
        if wrong:
            blen = len(body[0][1]) if bom else 0
            # symptom of the recorded finding: exactly the tokens of line 1 after a BOM are short by the length of the BOM
            line1 = [i for i, (t, sp) in enumerate(zip(body, spans)) if i > 0 and position(text, sp[0])[0] == 1]
            is_bom = bom and [w[0] for w in wrong] == line1 and all(got == (1, want[1] - blen) for _, _, got, want in wrong)
            i, kind, got, want = wrong[0]
            fails.append((CL_POS, K_BOM if is_bom else None, '%s: token %d %s %r reports %d:%d, its first character is at %d:%d' % ((tag, i, kind, body[i][1]) + got + want)))
        if fullsheet:
            got = toks[-1][2:4]
            want = position(text, len(text))
            if got != want:
                known = None
                last = spans[-1] if spans else None
                bshift = len(body[0][1]) if bom and want[0] == 1 else 0
                if last and last[2]:
                    lk = body[-1][0]
                    if lk in ('STRING', 'URI') and got == (want[0], want[1] + len(last[2]) - bshift):
                        known = K_EOF_SU
                    elif lk == 'COMMENT' and got == (body[-1][2], body[-1][3]):
                        known = K_EOF_C
                if known is None and bshift and got == (want[0], want[1] - bshift):
                    # (also behind a completed token once the EOF findings are repaired: only the BOM shift is left)
                    known = K_BOM
                fails.append((CL_POS, known, '%s: EOF reports %d:%d, the end of input is at %d:%d' % ((tag,) + tuple(got) + want)))
            for d in completion_faults(text, body, spans):
                fails.append((CL_EOF, None, '%s: %s' % (tag, d)))
        if grammar:
            for d in grammar_faults(text, body, spans, fullsheet):
                fails.append((CL_GRAMMAR, K_URIBS if d.startswith('URI-BACKSLASH ') else None, '%s: %s' % (tag, d)))
        if expected is not None:
            exp = expected[fullsheet]
            got_tv = [(t[0], t[1]) for t in body]
            if [t[0] for t in body] != [x[0] for x in exp]:
                kid = None
                for i, (g, x) in enumerate(zip(got_tv, exp)):
                    if g[0] != x[0] or spans[i][0] != x[2]:
                        break
                    xend = exp[i + 1][2] if i + 1 < len(exp) else len(text)
                    if g[0] == 'URI' and spans[i][1] < xend and text[spans[i][1] - 2:spans[i][1]] == '\\)':
                        kid = K_URIBS   # the written URI goes on behind the escaped ')' where the observed one ends
                        break
                fails.append((CL_SEQ, kid, '%s: types %r, expected %r' % (tag, got_tv, [(x[0], x[1]) for x in exp])))
            else:
                for (kind, value, _l, _c), (xk, xv, xo), (s, e, closer, known) in zip(body, exp, spans):
                    if s != xo:
                        fails.append((CL_SEQ, None, '%s: %s %r found at offset %d, written at offset %d' % (tag, kind, value, s, xo)))
                        break
                    if value != xv and not known:
                        alts = {decode(text[s:e] + closer, policy=p, **forms(kind)[0][1]) for p in POLICIES}
                        if value not in alts:
                            fails.append((CL_SEQ, None, '%s: %s value %r, expected %r' % (tag, kind, value, xv)))
                            break
    return fails


# ------------------------------------------------------------------------------------------------------- domain 1: all short strings

ALPHABET = ['a', 'g', 'u', 'r', 'l', '1', '\\', '"', "'", '/', '*', '(', ')', '@', '#', '-', '+', '.', '%', '!', '<', '>', ' ', '\t', '\n', '\r', '\f', '\ufeff', '\xe9',
            '\x00', '\xfe', '\xff', '=', '~', '?', '{', ':', 'e', '|']
# second pass of the quick tier: one more character over the characters that open or close multi-character tokens
CORE = ['a', 'u', '1', '\\', '"', "'", '/', '*', '(', ')', '-', '\n', '\r', ' ', '@', '.', '+', '#', 'g', '\xe9', '%', '!', '<', '>']


class _Acc:
    """per-task accumulator: counts, first failures per clause, per known id count + shortest witness"""

    def __init__(self):
        self.n = 0
        self.kinds = set()
        self.fails = []
        self.nfail = {}
        self.known = {}

    def add(self, text, fails, info=None):
        for cl, kid, detail in fails:
            if kid:
                k = self.known.setdefault(kid, {'count': 0, 'witness': None})
                k['count'] += 1
                if k['witness'] is None or len(text) < len(k['witness']['text']):
                    k['witness'] = {'text': text, 'clause': cl, 'detail': detail, 'info': info}
            else:
                self.nfail[cl] = self.nfail.get(cl, 0) + 1
                if self.nfail[cl] <= 5:
                    self.fails.append({'text': text, 'clause': cl, 'detail': detail, 'info': info})

    def result(self):
        return {'n': self.n, 'kinds': sorted(self.kinds), 'fails': self.fails, 'nfail': self.nfail, 'known': self.known}


def _strings_worker(args):
    alphabet, maxlen, prefix, limit = args
    acc = _Acc()
    signal.signal(signal.SIGALRM, _alarm)
    signal.alarm(limit)
    cur = ''
    try:
        for n in range(0, maxlen - len(prefix) + 1):
            for tail in itertools.product(alphabet, repeat=n):
                cur = prefix + ''.join(tail)
                acc.n += 1
                f = check_text(cur)
                if f:
                    acc.add(cur, f)
    except _Timeout:
        acc.add(cur, [(CL_TERM, None, 'no result within the time limit of the task (%d s for the strings starting with %r)' % (limit, prefix))])
    finally:
        signal.alarm(0)
    return acc.result()


def _pool_map(ctx, worker, tasks):
    jobs = max(1, ctx.jobs)
    if jobs > 1 and len(tasks) > 1:
        with multiprocessing.get_context('fork').Pool(jobs) as pool:
            return pool.map(worker, tasks, chunksize=1)
    return [worker(t) for t in tasks]


def _report(ctx, results, name, rule, bound, samples, t0, exhaustive, distinct=None):
    n = sum(r['n'] for r in results)
    kinds = set()
    known = {}
    for r in results:
        kinds.update(r['kinds'])
        for f in r['fails']:
            ctx.violation(f['clause'], 'text %r: %s%s' % (f['text'], f['detail'], ' | %s' % json.dumps(f['info']) if f.get('info') else ''), True,
                          {'text': f['text'], 'info': f.get('info')})
        for kid, k in r['known'].items():
            h = known.setdefault(kid, {'count': 0, 'witness': k['witness']})
            h['count'] += k['count']
            if len(k['witness']['text']) < len(h['witness']['text']):
                h['witness'] = k['witness']
    for kid, h in sorted(known.items()):
        w = h['witness']
        ctx.violation(w['clause'], 'recorded finding %s: text %r: %s (%d inputs of the class in this domain)' % (kid, w['text'], w['detail'], h['count']), True,
                      {'text': w['text'], 'info': w.get('info')}, known_id=kid)
    ctx.bounded.append({'name': name, 'evaluations': n, 'distinct_nontrivial': distinct if distinct is not None else len(kinds), 'rule': rule, 'samples': samples, 'bound': bound,
                        'exhaustive': exhaustive, 'wall_s': round(time.time() - t0, 1), 'known_class_inputs': {k: v['count'] for k, v in sorted(known.items())},
                        'failures': {k: sum(r['nfail'].get(k, 0) for r in results) for k in sorted({k for r in results for k in r['nfail']})}})


def all_strings(ctx):
    """every string up to length 3 (quick) / 4 (thorough) over ALPHABET, plus length 4 over CORE in the quick tier; both modes"""
    t0 = time.time()
    maxlen = 4 if ctx.tier == 'thorough' else 3
    limit = 1500 if ctx.tier == 'thorough' else 300
    tasks = [(ALPHABET, maxlen, '', limit)] if maxlen < 3 else []
    if maxlen >= 3:
        # the strings shorter than the prefix length, then one task per 2-character prefix
        tasks.append((ALPHABET, 1, '', limit))
        tasks += [(ALPHABET, maxlen, a + b, limit) for a in ALPHABET for b in ALPHABET]
    if ctx.tier != 'thorough':
        tasks += [(CORE, 4, a + b, limit) for a in CORE for b in CORE]
    results = _pool_map(ctx, _strings_worker, tasks)
    n = sum(r['n'] for r in results)
    _report(ctx, results, 'all short strings',
            'every string over the critical alphabet, tokenised in fragment and in full-sheet mode: termination, tiling with decoded values (reference decoder), line/col, '
            'span in the language of the type and maximal, completion + one EOF; distinct = strings (each is a different input)',
            'length <= %d over %d characters %r%s' % (maxlen, len(ALPHABET), ''.join(ALPHABET), '' if ctx.tier == 'thorough' else '; length <= 4 over the %d characters %r' % (len(CORE), ''.join(CORE))),
            [{'text': 'u\\1 '}, {'text': '"\\\n"'}], t0, True, distinct=n)


# --------------------------------------------------------------------------------------------------- domain 2: long repetitive texts

_STATUS = {}


def _still_recorded(fid):
    """the inputs of an exponential-time class are cut short only while the finding is recorded as known (not repaired); once it is
    marked fixed they run in full under the time limit, so that the defect is reported if it ever returns"""
    if not _STATUS:
        import json
        import os
        fn = os.path.join(os.path.dirname(os.path.dirname(os.path.abspath(__file__))), 'known', 'C05.json')
        for e in json.load(open(fn))['findings']:
            _STATUS[e['id']] = e['status']
    return _STATUS.get(fid) == 'known'


def _long_worker(args):
    texts, limit = args
    acc = _Acc()
    signal.signal(signal.SIGALRM, _alarm)
    for text in texts:
        acc.n += 1
        if _still_recorded(K_STRBT) and string_backtrack_class(text):
            k = [m.start() for m in _HEXESC.finditer(text)][10]
            acc.add(text[:k], [(CL_TERM, K_STRBT, 'unterminated string with %d hex escapes: exponential matching time' % len(_HEXESC.findall(text)))], {'length': len(text)})
            text = text[:k]
        if _still_recorded(K_URIBS) and backtrack_class(text):
            # recorded finding: exponential time; the input is cut to 12 backslashes (everything else is still checked), the witness is timed in witnesses()
            k = [i for i, c in enumerate(text) if c == '\\'][12]
            acc.add(text[:k], [(CL_TERM, K_URIBS, 'url( followed by %d backslashes and no ")": exponential matching time' % text.count('\\'))], {'length': len(text)})
            text = text[:k]
        signal.alarm(limit)
        try:
            t = time.time()
            f = check_text(text, grammar=False)
            acc.kinds.add(text[:6])
            if f:
                acc.add(text, [(cl, kid, d[:300]) for cl, kid, d in f], {'length': len(text), 'seconds': round(time.time() - t, 2)})
        except _Timeout:
            acc.add(text[:40] + '...', [(CL_TERM, None, 'no result within %d s for a text of %d characters (pattern %r repeated)' % (limit, len(text), text[-8:]))], {'length': len(text)})
        finally:
            signal.alarm(0)
    return acc.result()


def backtrack_class(text):
    """the inputs of the recorded finding C05-uri-backslash-class that do not end in reasonable time: an unquoted url( with many backslashes and no ')' behind it"""
    return text[:4].lower() == 'url(' and text[4:5] not in ('"', "'") and text.count('\\') > 12 and ')' not in text


_HEXESC = re.compile(r'\\[0-9a-fA-F]')
_QOPEN = re.compile(r'''(?:url\()?(["'])''', re.I)


def string_backtrack_class(text):
    """the inputs of the recorded finding C05-string-escape-backtracking that do not end in reasonable time: a string (also inside url( ) that is not closed and
    holds many hex escapes - the digits and the terminator of an escape also match as ordinary string characters, so the failing STRING match tries every split"""
    m = _QOPEN.match(text)
    return bool(m) and m.group(1) not in text[m.end():] and len(_HEXESC.findall(text)) > 10


def long_texts(ctx):
    """termination beyond short strings: every 1- and 2-character pattern over the alphabet repeated, behind every token opener"""
    t0 = time.time()
    reps = 600 if ctx.tier == 'thorough' else 100
    openers = ['', '/*', '"', "'", 'url(', 'url("', 'a', '1', '#', '@', '\\', 'u+']
    pats = list(ALPHABET) + [a + b for a in ALPHABET for b in ALPHABET]
    texts = []
    for o in openers:
        for p in pats:
            texts.append(o + p * reps)
    # a few much longer ones (super-linear behaviour shows here)
    big = 20000 if ctx.tier == 'thorough' else 4000
    for p in ['*', '/*', '*/', '\\', '\\4', '"', '-', 'a', '(', '\\\n', '1', '.', '+', '/* *', ' ', '\n', '\r\n', '?', '\\41 ']:
        for o in ('', '/*', '"', 'url(', '/**', '-'):
            texts.append(o + p * big)
    step = max(1, len(texts) // (max(1, ctx.jobs) * 8))
    tasks = [(texts[i:i + step], 30) for i in range(0, len(texts), step)]
    results = _pool_map(ctx, _long_worker, tasks)
    _report(ctx, results, 'long repetitive texts',
            'opener + pattern * n, tokenised in both modes with a limit of 30 s per text: termination, tiling, positions, completion (the grammar clause is left to the short strings); '
            'distinct = (opener, pattern)',
            '%d openers x %d patterns (all strings of 1-2 alphabet characters) x %d repetitions; 19 patterns x 6 openers x %d repetitions' % (len(openers), len(pats), reps, big),
            [{'text': '/*' + '*' * 20 + '...'}], t0, False, distinct=len(texts))


# ------------------------------------------------------------------------------------------------------ domain 3: token sequences
# a spelling: (kind label, text, [(type, decoded value)], flags); flags: 'open' = ends in a hex escape without terminator (swallows one following white space),
# 'cr' = ends in an escape terminated by CR (swallows a following LF), 'nows' = must not be followed by white space, 'nl' = must be followed by a line break

def spellings():
    S = []

    def add(kind, text, value=None, type_=None, flags='', toks=None):
        S.append((kind, text, toks if toks is not None else [(type_ or kind, text if value is None else value)], flags))
    # IDENT
    for t in ('a', '-x-y', '--v', '_z9', '\xe9', 'and', 'A1'):
        add('IDENT', t)
    add('IDENT', '\\41 ', 'A')
    add('IDENT', '\\41', 'A', flags='open')
    add('IDENT', 'x\\000041', 'xA', flags='open')
    add('IDENT', 'x\\41\r\n', 'xA')
    add('IDENT', 'x\\41\t', 'xA')
    add('IDENT', 'x\\41\n', 'xA')
    add('IDENT', 'x\\41\f', 'xA')
    add('IDENT', 'x\\41\r', 'xA', flags='cr')
    add('IDENT', 'x\\c ', 'x\x0c')
    add('IDENT', '\\e9 ', '\xe9')
    add('IDENT', '\\0e9 ', '\xe9')
    add('IDENT', '\\00e9 ', '\xe9')
    add('IDENT', '\\000e9 ', '\xe9')
    add('IDENT', '\\0000e9 ', '\xe9')
    add('IDENT', '\\0000E9x', '\xe9x')
    add('IDENT', 'a\\62 c', 'abc')
    add('IDENT', 'c\\olor', 'color')
    add('IDENT', 'a\\-b', 'a-b')
    add('IDENT', '\\{', '{')
    add('IDENT', 'a\\ b', 'a b')
    add('IDENT', 'a\\\\b', 'a\\b')
    add('IDENT', '\\d800 ', '\ud800')
    add('IDENT', '\\10ffff ', '\U0010ffff')
    add('IDENT', '\\110000 ', '\\110000 ')
    add('IDENT', 'z\\0 ', 'z\x00')
    # FUNCTION
    for t in ('f(', 'rgb(', '-x-f(', 'VAR('):
        add('FUNCTION', t)
    add('FUNCTION', '\\66(', 'f(')
    add('FUNCTION', 'f\\28(', 'f((')
    add('FUNCTION', 'n\\6f t(', 'not(')
    add('FUNCTION', 'and(', toks=[('IDENT', 'and'), ('CHAR', '(')])
    add('FUNCTION', 'AND(', toks=[('IDENT', 'AND'), ('CHAR', '(')])
    # ATKEYWORD and the reserved symbols
    for t in ('@x', '@-moz-y', '@charse', '@Charset'):
        add('ATKEYWORD', t)
    add('ATKEYWORD', '@\\78 ', '@x')
    add('ATKEYWORD', '@x\\79', '@xy', flags='open')
    add('ATKEYWORD', '@f\\oo', '@foo')
    add('ATKEYWORD', '@charset', flags='nows')
    add('CHARSET_SYM', '@charset ')
    for t, sym in (('@import', 'IMPORT_SYM'), ('@IMPORT', 'IMPORT_SYM'), ('@i\\mport', 'IMPORT_SYM'), ('@\\69mport', 'IMPORT_SYM'), ('@media', 'MEDIA_SYM'), ('@Media', 'MEDIA_SYM'),
                   ('@page', 'PAGE_SYM'), ('@pag\\65 ', 'PAGE_SYM'), ('@font-face', 'FONT_FACE_SYM'), ('@FONT-FACE', 'FONT_FACE_SYM'), ('@namespace', 'NAMESPACE_SYM'),
                   ('@n\\61mespace', 'NAMESPACE_SYM'), ('@variables', 'VARIABLES_SYM'), ('@VARiables', 'VARIABLES_SYM')):
        add(sym, t, decode(t), type_=sym)
    # HASH
    for t in ('#abc', '#a1b2c3', '#-x', '#1', '#\xe9'):
        add('HASH', t)
    add('HASH', '#\\41 ', '#A')
    add('HASH', '#a\\-b', '#a-b')
    # STRING
    for t in ('"s"', "'s'", '""', "''", '\'it"s\'', '"/*x*/"', '"a b;}"', '"\xe9"'):
        add('STRING', t)
    add('STRING', '"a\\"b"', '"a"b"')
    add('STRING', "'a\\'b'", "'a'b'")
    add('STRING', '"a\\\nb"', '"ab"')
    add('STRING', '"a\\\r\nb"', '"ab"')
    add('STRING', '"a\\\fb"', '"ab"')
    add('STRING', "'a\\\rb'", "'ab'")
    add('STRING', '"\\41 b"', '"Ab"')
    add('STRING', '"\\41"', '"A"')
    add('STRING', '"a\\\\b"', '"a\\b"')
    add('STRING', '"a\\\\"', '"a\\"')
    add('STRING', '"\\a "', '"\n"')
    # URI
    for t in ('url(x)', 'url("x")', "url('x')", 'url( x )', 'url(\t"x"\n)', 'URL(x)', 'url()', 'url(x.png?a=1&b=2#f)', 'url(\xe9)', 'Url( \'a b\' )'):
        add('URI', t)
    add('URI', 'u\\rl(x)', 'url(x)')
    add('URI', '\\75rl(x)', 'url(x)')
    add('URI', 'u\\000072 l(x)', 'url(x)')
    add('URI', 'url(a\\)b)', 'url(a)b)')
    add('URI', 'url(\\41 )', 'url(A)')
    add('URI', 'url("a\\\nb")', 'url("ab")')
    add('URI', 'url("a\\"b")', 'url("a"b")')
    # numbers
    for t in ('1', '-1', '+1.5', '.5', '0', '007', '-.5', '10.25'):
        add('NUMBER', t)
    for t in ('50%', '-.5%', '+1%'):
        add('PERCENTAGE', t)
    for t in ('1px', '-2.5em', '1e3', '1--x', '+.5Q', '1\xe9'):
        add('DIMENSION', t)
    add('DIMENSION', '1\\70x', '1px')
    add('DIMENSION', '1p\\78', '1px', flags='open')
    add('DIMENSION', '.5\\s', '.5s')
    # UNICODE-RANGE
    for t in ('u+0-7f', 'U+4??', 'u+26', 'u+abcdef-FEDCBA', 'U+??????'):
        add('UNICODE-RANGE', t)
    add('UNICODE-RANGE', '\\75+1', 'u+1')
    add('UNICODE-RANGE', '\\55 +1-2', 'U+1-2')
    # (the white space that ends the escape of the `u` may be a line break INSIDE the token: later positions count from the next line)
    add('UNICODE-RANGE', '\\75\n+0-7F', 'u+0-7F')
    add('UNICODE-RANGE', '\\55\r\n+4??', 'U+4??')
    add('UNICODE-RANGE', '\\000075\f+1', 'u+1')
    # operators, CDO/CDC
    for t, k in (('~=', 'INCLUDES'), ('|=', 'DASHMATCH'), ('^=', 'PREFIXMATCH'), ('$=', 'SUFFIXMATCH'), ('*=', 'SUBSTRINGMATCH'), ('<!--', 'CDO'), ('-->', 'CDC')):
        add(k, t)
    # S, COMMENT
    for t in (' ', '\t', '\n', '\r\n', '\f', '\r', ' \n\t ', '\n\n'):
        add('S', t)
    for t in ('/**/', '/* x */', '/***/', '/*\n*/', '/* * / */', '/*"*/', '/*\r\n\n*/', '/*/*/', '/****/'):
        add('COMMENT', t)
    add('COMMENT', '/*\\41*/', '/*\\41*/')
    add('COMMENT', '/* c:\\dead\\beef */', '/* c:\\dead\\beef */')
    # CHAR
    for t in '{}()[];:,.*|>+~=!/$&^<-@#%?\x00\x7f`':
        add('CHAR', t)
    add('CHAR', '\\', flags='nl')
    # INVALID: a string cut by a line break
    add('INVALID', '"abc', flags='nl')
    add('INVALID', "'a\\'", "'a'", flags='nl')
    add('INVALID', '"\\41 ', '"A', flags='nl')
    return S


SEPARATORS = [' ', '\n', '/**/', '\r\n', '\t', '\f', '/*\n*/', ' /* */ ']
_SEPTOKS = {' ': [('S', ' ')], '\n': [('S', '\n')], '/**/': [('COMMENT', '/**/')], '\r\n': [('S', '\r\n')], '\t': [('S', '\t')], '\f': [('S', '\f')],
            '/*\n*/': [('COMMENT', '/*\n*/')], ' /* */ ': [('S', ' '), ('COMMENT', '/* */'), ('S', ' ')]}
HEADS = [('', []), ('\xfe\xff', [('BOM', '\xfe\xff')]), ('\xef\xbb\xbf', [('BOM', '\xef\xbb\xbf')])]
# unterminated tails: (text, tokens in fragment mode, tokens in full-sheet mode)
TAILS = [
    ('"abc', [('INVALID', '"abc')], [('STRING', '"abc"')]),
    ("'a\\'b", [('INVALID', "'a'b")], [('STRING', "'a'b'")]),
    ('"', [('INVALID', '"')], [('STRING', '""')]),
    ('"a\\\nb', [('INVALID', '"ab')], [('STRING', '"ab"')]),
    ('/* x', [('CHAR', '/'), ('CHAR', '*'), ('S', ' '), ('IDENT', 'x')], [('COMMENT', '/* x*/')]),
    ('/*', [('CHAR', '/'), ('CHAR', '*')], [('COMMENT', '/**/')]),
    ('/*\n\n*', [('CHAR', '/'), ('CHAR', '*'), ('S', '\n\n'), ('CHAR', '*')], [('COMMENT', '/*\n\n**/')]),
    ('/* "a" /', [('CHAR', '/'), ('CHAR', '*'), ('S', ' '), ('STRING', '"a"'), ('S', ' '), ('CHAR', '/')], [('COMMENT', '/* "a" /*/')]),
    ('url(x', [('FUNCTION', 'url('), ('IDENT', 'x')], [('URI', 'url(x)')]),
    ('url(', [('FUNCTION', 'url(')], [('URI', 'url()')]),
    ("url('x", [('FUNCTION', 'url('), ('INVALID', "'x")], [('URI', "url('x')")]),
    ('url( "x', [('FUNCTION', 'url('), ('S', ' '), ('INVALID', '"x')], [('URI', 'url( "x")')]),
    ('URL(\nx\n', [('FUNCTION', 'URL('), ('S', '\n'), ('IDENT', 'x'), ('S', '\n')], [('URI', 'URL(\nx\n)')]),
    ('u\\rl(x', [('FUNCTION', 'url(', 'u\\rl('), ('IDENT', 'x')], [('URI', 'url(x)')]),
    ('url(x y', [('FUNCTION', 'url('), ('IDENT', 'x'), ('S', ' '), ('IDENT', 'y')], [('FUNCTION', 'url('), ('IDENT', 'x'), ('S', ' '), ('IDENT', 'y')]),
    ('"abc\\', [('INVALID', '"abc'), ('CHAR', '\\')], [('INVALID', '"abc'), ('CHAR', '\\')]),
]


def _absorb(flags, sep):
    """how many characters of the following separator the token before it swallows (escape terminator)"""
    if 'open' in flags and sep[:1] in _WSCH:
        return 2 if sep[:2] == '\r\n' else 1
    if 'cr' in flags and sep[:1] == '\n':
        return 1
    return 0


def _spans(ptext, ptoks):
    """token specs of one part -> [(type, value, span text)]: a spec is (type, value) - the span is the value, or the whole part if it is the only token -
    or (type, value, span)"""
    if len(ptoks) == 1 and len(ptoks[0]) == 2:
        return [(ptoks[0][0], ptoks[0][1], ptext)]
    return [(t[0], t[1], t[2] if len(t) > 2 else t[1]) for t in ptoks]


def build(head, seq, seps, tail=None):
    """-> (text, {False: expected, True: expected}) with expected = [(type, value, offset)], or None if the combination is not unambiguous.
    seq: spellings; seps: one separator after each spelling (the last one is written only if a tail follows)"""
    parts = []   # (text, [token spec])
    htext, htoks = head
    if htext:
        parts.append((htext, htoks))
    n = len(seq)
    for i, (kind, text, toks, flags) in enumerate(seq):
        last = i == n - 1 and tail is None
        sep = '' if last else seps[i]
        if not last:
            if 'nows' in flags and sep[:1] in _WSCH:
                return None
            if 'nl' in flags and sep[:1] not in _NLCH:
                return None
        elif 'nl' in flags and kind != 'CHAR':
            return None  # an unterminated string at the very end belongs to the tails (a backslash at the very end is a CHAR)
        k = _absorb(flags, sep) if not last else 0
        if k:
            # the escape terminator belongs to the token: same decoded value, longer span
            parts.append((text + sep[:k], toks))
            rest = sep[k:]
            if rest not in _SEPTOKS:
                return None   # nothing (or no known separator) is left between the two tokens: not unambiguous
            parts.append((rest, _SEPTOKS[rest]))
        else:
            parts.append((text, toks))
            if sep:
                parts.append((sep, _SEPTOKS[sep]))
    out = {}
    text = ''.join(p[0] for p in parts) + (tail[0] if tail is not None else '')
    for fullsheet in (False, True):
        ps = list(parts)
        if tail is not None:
            ps.append((tail[0], tail[2] if fullsheet else tail[1]))
        exp = []
        off = 0
        for ptext, ptoks in ps:
            o = off
            for tk, tv, span in _spans(ptext, ptoks):
                if tk == 'S' and exp and exp[-1][0] == 'S':
                    exp[-1] = ('S', exp[-1][1] + tv, exp[-1][2])   # adjacent white space is one token
                else:
                    exp.append((tk, tv, o))
                o += len(span)
            off += len(ptext)
        out[fullsheet] = exp
    return text, out


def _seq_cases(tier, seed, lo, hi):
    """the sequences whose FIRST spelling has index lo..hi-1"""
    S = spellings()
    rnd = random.Random(seed * 7919 + lo)
    reps = {}
    for i, s in enumerate(S):
        reps.setdefault(s[0], []).append(i)
    per = 2 if tier != 'thorough' else 3
    rep_idx = sorted(i for k, v in reps.items() for i in v[:per])
    seps = SEPARATORS
    for a in range(lo, hi):
        yield (HEADS[0], [S[a]], [None], None)
        # pairs: every spelling x every separator x every spelling
        for b in range(len(S)):
            for sp in (seps if tier == 'thorough' or b in rep_idx else seps[:4]):
                yield (HEADS[0], [S[a], S[b]], [sp, None], None)
        # triples
        if tier == 'thorough':
            for b in range(len(S)):
                for c in range(len(S)):
                    yield (HEADS[0], [S[a], S[b], S[c]], [rnd.choice(seps), rnd.choice(seps), None], None)
        if a in rep_idx:
            for b in rep_idx:
                for c in rep_idx:
                    if tier == 'thorough':
                        for s1, s2 in itertools.product(seps[:4], repeat=2):
                            yield (HEADS[0], [S[a], S[b], S[c]], [s1, s2, None], None)
                    else:
                        yield (HEADS[0], [S[a], S[b], S[c]], [rnd.choice(seps), rnd.choice(seps), None], None)
        # heads and tails: after a BOM, before every unterminated tail
        for h in HEADS[1:]:
            yield (h, [S[a]], [None], None)
            for b in rep_idx:
                yield (h, [S[a], S[b]], [rnd.choice(seps), None], None)
        for t in TAILS:
            for sp in (seps if tier == 'thorough' or a in rep_idx else seps[:3]):
                yield (HEADS[0], [S[a]], [sp], t)
            for h in HEADS[1:]:
                yield (h, [S[a]], [rnd.choice(seps)], t)
            if a in rep_idx:
                for b in rep_idx:
                    yield (HEADS[0], [S[a], S[b]], [rnd.choice(seps), rnd.choice(seps)], t)


def _seq_worker(args):
    tier, seed, lo, hi, limit = args
    acc = _Acc()
    signal.signal(signal.SIGALRM, _alarm)
    signal.alarm(limit)
    text = ''
    seen = set()
    try:
        for head, seq, seps, tail in _seq_cases(tier, seed, lo, hi):
            b = build(head, seq, seps, tail)
            if b is None:
                continue
            text, exp = b
            if text in seen:
                continue
            seen.add(text)
            acc.n += 1
            acc.kinds.add(tuple(s[0] for s in seq) + ((tail[0],) if tail else ()) + ((head[0],) if head[0] else ()))
            f = check_text(text, expected=exp, grammar=False)
            if f:
                acc.add(text, f, {'sequence': [s[1] for s in seq], 'separators': seps, 'tail': tail[0] if tail else None, 'head': head[0]})
    except _Timeout:
        acc.add(text, [(CL_TERM, None, 'no result within the time limit of the task (%d s)' % limit)])
    finally:
        signal.alarm(0)
    r = acc.result()
    r['kinds'] = [json.dumps(k) for k in r['kinds']]
    return r


def token_sequences(ctx):
    t0 = time.time()
    S = spellings()
    n = len(S)
    limit = 1500 if ctx.tier == 'thorough' else 300
    tasks = [(ctx.tier, ctx.seed, i, i + 1, limit) for i in range(n)]
    results = _pool_map(ctx, _seq_worker, tasks)
    kinds = sorted({s[0] for s in S})
    _report(ctx, results, 'token sequences',
            'texts built from known token spellings joined by separators (white space of every kind, comments), optionally behind a BOM and before an unterminated '
            'string / comment / url(: types, values and offsets known by construction, both modes; distinct = sequence of token kinds (+ head/tail)',
            '%d spellings of %d token kinds, %d separators; all sequences of <= 2 spellings x all separators; %s; heads: none + 2 BOMs; %d unterminated tails behind every spelling'
            % (n, len(kinds), len(SEPARATORS), 'all triples of spellings with seeded separators and the triples of 3 representatives per kind with 16 separator pairs' if ctx.tier == 'thorough'
               else 'the triples of 2 representatives per kind with seeded separators', len(TAILS)),
            [{'sequence': ['x\\41', ' ', '@import', '/**/', 'url(x']}], t0, False)


# ------------------------------------------------------------------------------ domain 3b: escapes composed at every position of a token
# The value clause "its span with CSS escapes decoded as the syntax prescribes" read unit by unit: the body of a token is a SEQUENCE of units - plain characters,
# simple escapes, escaped line breaks, hex escapes of the characters that mean something to the syntax (backslash, quotes, line breaks, blank, tab, parentheses,
# '*', '/', hex digits and letters, '@', '#', '-', ';', code point 0, surrogate, beyond U+10FFFF) in every spelling (1-6 digits, upper case, each terminator) - and
# every sequence of units is put into every kind of token that decodes escapes.  What one unit decodes to must never be read again together with its neighbours.

ESC_CPS = [0x5c, 0x22, 0x27, 0xa, 0xd, 0x20, 0x29, 0x2a, 0x41, 0x35, 0x0, 0x110000,
           # thorough tier only
           0x2f, 0xc, 0x9, 0x28, 0x61, 0x67, 0x40, 0x23, 0x2d, 0x3b, 0xe9, 0xd800, 0x10ffff]
ESC_TERMS = ['', ' ', '\n', '\r\n', '\t', '\f', '\r']
ESC_SIMPLE = ['\\\\', '\\"', "\\'", '\\g', '\\)', '\\*', '\\ ', '\\-', '\\(', '\\/', '\\;', '\\\xe9']
ESC_CONT = ['\\\n', '\\\r\n', '\\\r', '\\\f']
ESC_PLAIN = ['a', 'g', '5', 'c', ' ', '\n', '(', ')', '*', '"', "'", '-', '/', '\t', ';', '\xe9']
QUICK_N = {'cps': 12, 'terms': 3, 'simple': 8, 'plain': 12}
# the units of the triples: an escaped backslash / quote / line break / letter with and without terminator, a digit, a hex letter, a blank, a line continuation
ESC_CORE = ['\\5c', '\\5c ', '\\a ', '\\a', '\\\n', '\\\\', '\\"', 'a', '5', ' ', '\\41', '\\41 ', '\\22 ', '\\g']
ESC_CORE_THOROUGH = ['\\\r\n', '\\d', 'g', '\\0 ', '\\27', '\\c ', '\\29 ', '\\2a', '\\2f', '\\\f', '\\000041', '\t', '\\)', '"']

# (label, token kind, text before the body, text behind it, what follows the token, tokens of what follows).  The expected token list - one token of that kind
# with the decoded text as value, then the follower - holds if the reference recogniser accepts prefix + body + suffix as ONE token of the kind (otherwise the
# text is still checked against the universal clauses: tiling with decoded values, positions, grammar, completion).
ESC_CONTAINERS = [
    ('string2', 'STRING', '"', '"', ';z', [('CHAR', ';'), ('IDENT', 'z')]),
    ('string1', 'STRING', "'", "'", ';z', [('CHAR', ';'), ('IDENT', 'z')]),
    ('string at the end', 'STRING', '"', '"', '', []),
    ('ident', 'IDENT', 'x', '', ';z', [('CHAR', ';'), ('IDENT', 'z')]),
    ('ident from its first character', 'IDENT', '', '', ';z', [('CHAR', ';'), ('IDENT', 'z')]),
    ('hash', 'HASH', '#', '', ';z', [('CHAR', ';'), ('IDENT', 'z')]),
    ('function', 'FUNCTION', 'x', '(', ';z', [('CHAR', ';'), ('IDENT', 'z')]),
    ('dimension', 'DIMENSION', '1', '', ';z', [('CHAR', ';'), ('IDENT', 'z')]),
    ('at-keyword', 'ATKEYWORD', '@', '', ';z', [('CHAR', ';'), ('IDENT', 'z')]),
    ('uri', 'URI', 'url(', ')', ';z', [('CHAR', ';'), ('IDENT', 'z')]),
    ('uri string2', 'URI', 'url("', '")', ';z', [('CHAR', ';'), ('IDENT', 'z')]),
    ('comment', 'COMMENT', '/*', '*/', ';z', [('CHAR', ';'), ('IDENT', 'z')]),
    ('invalid', 'INVALID', '"', '', '\nz', [('S', '\n'), ('IDENT', 'z')]),
    # not terminated: completed at the end of input in full-sheet mode (universal clauses only)
    ('open string', None, '"', '', '', []),
    ('open uri', None, 'url(', '', '', []),
    ('open comment', None, '/*', '', '', []),
    # thorough tier only
    ("uri string1", 'URI', "url( '", "' )", ';z', [('CHAR', ';'), ('IDENT', 'z')]),
    ('open uri string', None, 'url("', '', '', []),
]
QUICK_CONTAINERS = 16
QUAD_CONTAINERS = ('string2', 'ident', 'uri', 'uri string2', 'invalid', 'open string')


def esc_units(tier):
    th = tier == 'thorough'
    cps = ESC_CPS if th else ESC_CPS[:QUICK_N['cps']]
    terms = ESC_TERMS if th else ESC_TERMS[:QUICK_N['terms']]
    U = []
    for cp in cps:
        low = '%x' % cp
        for t in terms:
            U.append('\\' + low + t)
        if len(low) < 6:
            U.append('\\' + low.rjust(6, '0'))          # six digits: no terminator needed
            if th:
                U.append('\\' + low.rjust(6, '0') + ' ')     # ... but one is still swallowed
        if low.upper() != low:
            U.append('\\' + low.upper() + ' ')
            if th:
                U.append('\\' + low.upper())
        if th and len(low) < 5:
            U.append('\\0' + low + ' ')
    U += (ESC_SIMPLE if th else ESC_SIMPLE[:QUICK_N['simple']]) + ESC_CONT + (ESC_PLAIN if th else ESC_PLAIN[:QUICK_N['plain']])
    out = []
    for u in U:
        if u not in out:
            out.append(u)
    return out


def esc_core(tier):
    return ESC_CORE + ESC_CORE_THOROUGH if tier == 'thorough' else ESC_CORE


def esc_case(ci, body):
    """-> (text, expected or None)"""
    label, kind, pre, suf, follow, ftoks = ESC_CONTAINERS[ci]
    tok = pre + body + suf
    text = tok + follow
    if kind is None or not body:
        return text, None
    if not REFC[kind].fullmatch(tok):
        return text, None
    if kind == 'INVALID':
        m = REFC['INVALID'].match(text)
        if m.end() != len(tok) or REFC['STRING'].match(text):
            return text, None     # the line break belongs to the last escape (its terminator)
    elif kind in MAXIMAL or kind == 'FUNCTION':
        if REFC[kind].match(text).end() != len(tok):
            return text, None
    if kind == 'IDENT' and decode(tok).lower() == 'and':
        return text, None
    if kind == 'FUNCTION' and (REFC['URI'].match(text) or decode(tok).lower() in ('and(', 'url(')):
        return text, None
    value = decode(tok, **forms(kind)[0][1])
    exp = [(kind, value, 0)]
    off = len(tok)
    for tk, tv in ftoks:
        exp.append((tk, tv, off))
        off += len(tv)
    return text, {False: exp, True: exp}


def _esc_cases(tier, ci, firsts):
    U = esc_units(tier)
    core = esc_core(tier)
    for a in firsts:
        yield (a,)
        for b in U:
            yield (a, b)
        if a in core:
            for b in core:
                for c in core:
                    yield (a, b, c)
        if tier == 'thorough' and a in ESC_CORE and ESC_CONTAINERS[ci][0] in QUAD_CONTAINERS:
            for b in ESC_CORE:
                for c in ESC_CORE:
                    for d in ESC_CORE:
                        yield (a, b, c, d)


def _esc_worker(args):
    tier, ci, firsts, limit = args
    acc = _Acc()
    signal.signal(signal.SIGALRM, _alarm)
    signal.alarm(limit)
    text = ''
    seen = set()
    try:
        for seq in _esc_cases(tier, ci, firsts):
            text, exp = esc_case(ci, ''.join(seq))
            if text in seen:
                continue
            seen.add(text)
            acc.n += 1
            if exp is not None:
                acc.kinds.add(ci)
            f = check_text(text, expected=exp)
            if f:
                acc.add(text, f, {'container': ESC_CONTAINERS[ci][0], 'units': list(seq), 'one_token_expected': exp is not None})
    except _Timeout:
        acc.add(text, [(CL_TERM, None, 'no result within the time limit of the task (%d s)' % limit)])
    finally:
        signal.alarm(0)
    r = acc.result()
    return r


def escape_compositions(ctx):
    """every sequence of <= 2 escape units (<= 3 over the core units; thorough: 4 over the quick core) as the body of every kind of token that decodes escapes"""
    t0 = time.time()
    U = esc_units(ctx.tier)
    assert all(u in U for u in esc_core(ctx.tier)), 'core units must be units'
    limit = 1500 if ctx.tier == 'thorough' else 300
    step = 6 if ctx.tier == 'thorough' else 12
    ncont = len(ESC_CONTAINERS) if ctx.tier == 'thorough' else QUICK_CONTAINERS
    tasks = [(ctx.tier, ci, U[i:i + step], limit) for ci in range(ncont) for i in range(0, len(U), step)]
    results = _pool_map(ctx, _esc_worker, tasks)
    n = sum(r['n'] for r in results)
    ncore = len(esc_core(ctx.tier))
    th = ctx.tier == 'thorough'
    _report(ctx, results, 'escape compositions',
            'prefix + body + suffix (+ follower) where the body is a sequence of escape units: hex escapes of the characters that mean something to the syntax in every spelling, simple '
            'escapes, escaped line breaks, plain characters; in every kind of token that decodes escapes, closed, cut by a line break and not terminated; both modes: the universal '
            'clauses (tiling with the value == span decoded unit by unit, left to right, by the reference decoder; positions also of the follower; grammar; completion) and, where '
            'the reference recogniser accepts the text as one token, exactly that token with the decoded value; distinct = texts',
            '%d units (%d code points x {1-6 digits, upper case, terminators %r}, %d simple escapes, %d escaped line breaks, %d plain characters) x %d containers: all sequences of <= 2 '
            'units, all sequences of 3%s over %d core units'
            % (len(U), len(ESC_CPS) if th else QUICK_N['cps'], ESC_TERMS if th else ESC_TERMS[:QUICK_N['terms']], len(ESC_SIMPLE) if th else QUICK_N['simple'], len(ESC_CONT),
               len(ESC_PLAIN) if th else QUICK_N['plain'], ncont, ' (and of 4 over the %d quick core units in the containers %s)' % (len(ESC_CORE), ', '.join(QUAD_CONTAINERS)) if th else '', ncore),
            [{'container': 'string2', 'units': ['\\5c', '\\a '], 'text': '"\\5c\\a ";z'}, {'container': 'ident', 'units': ['\\41', '\\\n', ' ']}], t0, True, distinct=n)


# ------------------------------------------------------------------------------------------- domain 4: positions in error reports

_SUFFIX = re.compile(r' \[(\d+):(\d+): (.*)\]\Z', re.S)

PREFIXES = ['', '\n', '\n\n  ', '\t', '/*\n*/ ', 'b{c:d}\n', 'b{c:d} ', '@import "i";\n\t', '\\62 {c:d}\n\\63  {e:f} ', '"\\\n" {}\n', '\xfe\xff', '\xef\xbb\xbf\n', '@charset "ascii";\n ',
            'b{c:"\\\r\nd"}\n  ', '/* \r\n */\r\n', '\f']
# broken constructs; every one makes a raising parser complain
BROKEN = ['a $ b {x:1}', 'a::b::c {x:1}', 'a .b.c#d.e..f {x:1}', 'a:b:c:: {x:1}', 'p|a q|| {x:1}', 'a  .b:: {x:1}', 'a { $: 1 }', 'a { x: 1; $ }', 'a {x:1} }', 'a[x==y] {z:1}', 'a:not(..) {x:1}', '@namespace p ;', '@import 12;', '@media scr$een {a{x:1}}',
          '@media screen { a $ b {x:1} }', '@media screen {\n a { $: 1 } }', '@page $ {x:1}', '@page {\n $ : 1 }', 'a,\n, b {x:1}', 'a { x: 1 ;\n y }', 'a { x\n:\n1 !\n imp }',
          'a { x: rgb(1,\n 2 }', 'a { x:\n 1 $ 2 }', 'a { x: "abc\n }', 'a { x: f(\n$) }', '@font-face { $ }', 'a {x:1}\n@charset "x";', 'a {x:1}\n@import "x";', 'a {x:1}\n@namespace "x";',
          '@media screen { @import "x"; }', '@media screen {\n  @namespace "x"; }', 'a >> b {x:1}', 'a || b {x:1}', '#1 {x:1}', 'a::: {x:1}', 'a[ {x:1}', '@variables { $ }',
          '@foo { ( }', '@foo [ ;', 'a {x:1}\n<!-- $', ') {x:1}', 'a { x: 1px\n+ }', '@import url(x) $;', '@import "x" scr$;', '@namespace $ "x";', '@page :first $ {x:1}',
          'a { x: 1 !important $ }', 'a { x: url(a b) }', 'a { x: u+1-$ }', 'a:nth-child(2n+\n$) {x:1}', 'a { color: #12 }', '@media {a{x:1}}', '@media screen, {a{x:1}}', '@media screen; a{}']


def _err_worker(args):
    texts = args
    import cssutils
    cssutils.log.setLevel(logging.FATAL)
    acc = _Acc()
    try:
        for prefix, broken in texts:
            text = prefix + broken
            acc.n += 1
            parser = cssutils.CSSParser(raiseExceptions=True)
            try:
                parser.parseString(text)
                continue
            except xml.dom.DOMException as e:
                msg = str(e)
                line, col = getattr(e, 'line', None), getattr(e, 'col', None)
                exc = type(e).__name__
            except Exception:
                continue  # a crash is C01's business
            finally:
                cssutils.log.raiseExceptions = True
            m = _SUFFIX.search(msg)
            info = {'prefix': prefix, 'broken': broken}
            if not m:
                if line is not None or col is not None:
                    acc.add(text, [(CL_ERR, None, '%s without a [line:col: value] suffix has line=%r col=%r: %r' % (exc, line, col, msg[:200]))], info)
                acc.kinds.add(('no-token', broken))
                continue
            acc.kinds.add(('token', broken))
            L, C, V = int(m.group(1)), int(m.group(2)), m.group(3)
            fails = []
            if (line, col) != (L, C):
                fails.append((CL_ERR, None, '%s: attributes line=%r col=%r differ from the message suffix [%d:%d: %r]' % (exc, line, col, L, C, V)))
            # the reference token positions: tile the text with the real token list (values), then compute line/col of every span start
            toks = list(tokenizer().tokenize(text, True))
            spans = tile(text, toks[:-1], True)
            if spans is None:
                continue  # reported by the other domains
            ref = {(t[1], ) + position(text, s[0]) for t, s in zip(toks, spans)}
            ref.add(('',) + position(text, len(text)))
            if (V, L, C) not in ref:
                where = sorted((l, c) for v, l, c in ref if v == V)
                blen = 2 if text[:2] == '\xfe\xff' else 3 if text[:3] == '\xef\xbb\xbf' else 0
                kid = None
                vals = [t[1] for t in toks[:-1]]
                starts = [position(text, sp[0]) for sp in spans]
                if blen and L == 1 and (V, L, C + blen) in ref:
                    kid = K_BOM
                else:
                    # recorded: a token the selector parser combines from several tokens ('::', '.a', ':a', 'p|') carries the position of its LAST part
                    for j in range(len(vals)):
                        for i in range(j):
                            if ''.join(vals[i:j + 1]) == V and starts[j] in ((L, C), (L, C + blen)):
                                kid = K_ERRPOS
                fails.append((CL_ERR, kid, '%s %r: no token %r starts at %d:%d (tokens with that value start at %r)' % (exc, msg[:120], V, L, C, where[:6])))
            if fails:
                acc.add(text, fails, info)
    finally:
        cssutils.log.raiseExceptions = True
    r = acc.result()
    r['kinds'] = [json.dumps(k) for k in r['kinds']]
    return r


def error_positions(ctx):
    t0 = time.time()
    cases = [(p, b) for p in PREFIXES for b in BROKEN]
    step = max(1, len(cases) // (max(1, ctx.jobs) * 4))
    tasks = [cases[i:i + step] for i in range(0, len(cases), step)]
    results = _pool_map(ctx, _err_worker, tasks)
    ntok = len({k for r in results for k in r['kinds'] if json.loads(k)[0] == 'token'})
    _report(ctx, results, 'error positions',
            'prefix (shifts lines and columns: line breaks of every kind, tabs, multi-line comments and strings, escapes, BOM, @charset) + a broken construct, parsed by '
            'CSSParser(raiseExceptions=True): if the xml.dom exception names a token ([line:col: value]) then .line/.col equal the suffix and a token with that value really '
            'starts at that line/col of the text (reference positions from the tiling); distinct = broken constructs whose report names a token',
            '%d prefixes x %d broken constructs' % (len(PREFIXES), len(BROKEN)), [{'text': '\n\n  a $ b {x:1}', 'report': '[3:5: $]'}], t0, False, distinct=ntok)


# ------------------------------------------------------------------------------------------------------------------ witnesses

WITNESSES = [
    (K_SIMPLE, 'c\\olor', lambda f: any(k == K_SIMPLE for _, k, _ in f)),
    (K_ATRAW, '@\\69mport', lambda f: any(k == K_ATRAW for _, k, _ in f)),
    (K_COMMENT, '/*\\41*/', lambda f: any(k == K_COMMENT for _, k, _ in f)),
    (K_URINL, 'url("a\\\nb")', lambda f: any(k == K_URINL for _, k, _ in f)),
    (K_CONT, '"\\41\\\n b"', lambda f: any(k == K_CONT for _, k, _ in f)),
    (K_BOM, '\xfe\xffa b', lambda f: any(k == K_BOM for _, k, _ in f)),
    (K_EOF_SU, '"abc', lambda f: any(k == K_EOF_SU for _, k, _ in f)),
    (K_EOF_C, '/*x\ny', lambda f: any(k == K_EOF_C for _, k, _ in f)),
    (K_URIBS, 'url(a\\)b)', lambda f: any(k == K_URIBS for _, k, _ in f)),
]


def witnesses(ctx):
    """one minimal witness per recorded finding: KNOWN-FINDING while it still fails; a witness that passes must be flipped to status fixed"""
    n = 0
    for kid, text, pred in WITNESSES:
        n += 1
        f = check_text(text)
        ctx.known_finding(kid, pred(f))
    # the time symptom of C05-uri-backslash-class: 18 escaped backslashes take seconds (x 2.6 per pair) while 9 take a millisecond
    n += 1
    t = time.time()
    list(tokenizer().tokenize('url(' + '\\\\' * 9))
    t9 = time.time() - t
    t = time.time()
    signal.signal(signal.SIGALRM, _alarm)
    signal.alarm(60)
    try:
        list(tokenizer().tokenize('url(' + '\\\\' * 17))
        t17 = time.time() - t
    except _Timeout:
        t17 = 60.0
    finally:
        signal.alarm(0)
    ctx.known_finding(K_URIBS, t17 > 0.5 and t17 > 50 * t9)
    n += 1
    t = time.time()
    list(tokenizer().tokenize('"' + '\\41 ' * 7))
    t7 = time.time() - t
    t = time.time()
    signal.alarm(60)
    try:
        list(tokenizer().tokenize('"' + '\\41 ' * 13))
        t13 = time.time() - t
    except _Timeout:
        t13 = 60.0
    finally:
        signal.alarm(0)
    ctx.known_finding(K_STRBT, t13 > 0.2 and t13 > 50 * t7)
    # the selector token combiner
    import cssutils
    n += 1
    try:
        cssutils.log.setLevel(logging.FATAL)
        cssutils.CSSParser(raiseExceptions=True).parseString('a::b::c {x:1}')   # the second '::c' starts at column 5, its last part 'c' at column 7
        still = False
    except xml.dom.DOMException as e:
        still = '[1:7: ::c]' in str(e)
    finally:
        cssutils.log.raiseExceptions = True
    ctx.known_finding(K_ERRPOS, still)
    ctx.bounded.append({'name': 'witnesses of the recorded findings', 'evaluations': n, 'distinct_nontrivial': n, 'rule': 'one minimal input per recorded finding', 'samples': [{'text': WITNESSES[0][1]}],
                        'bound': '%d witnesses' % n, 'exhaustive': True})
